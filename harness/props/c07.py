"""C07 -- match-file lines survive format/parse round trips in every version.

Tie to the source:
* REFLECTION (every run): for every line class x format version (x attribute for info /
  scoreprop / meta lines) an object is built, and its out_pattern, regular expression and the
  formatter of every field are turned into a schema of the Coq model (Gen/C07_Schemas.v);
  formatters are classified by their behaviour on probe values, not by name.  The key names of
  every spelling are tabulated (T2) from MatchKeySignature on all 30 keys.
* CORRESPONDENCE: generated line objects -> .matchline text vs Model.C07.format_line; text ->
  from_matchline / importmatch.parse_matchline fields vs parse_line; second-round text.
* DIRECT ORACLE in Python on the implementation alone (same kind, equal fields, identical
  second text, to_v1 keeps kind and musical content, exact duration addition).
* DISPATCH (round 2): the regular expressions as written, the order of FROM_MATCHLINE_METHODS, the decoders
  and the version patterns are reflected into Gen/C07_Parsers.v (Model/C07_Disp.v: backtracking matcher with
  re.search semantics, ordered dispatch, get_version, load_matchfile; Model/C07_Up.v: to_v1 of info / meta
  lines); correspondence on every generated line, on lines with kind identifiers inside their identifiers,
  on written files and on version texts.
* KEY SIGNATURES AS AN ALGORITHM (round j): MAJOR_KEYS / MINOR_KEYS, key_signature_pattern, pitch_class_pattern and
  attribute_list_pattern are reflected into Gen/C07_KeyCfg.v (Model/C07_Key.v: key_name_to_fifths_mode, the order of the three
  readers of _parse_key_signature, interpret_as_list, from_string, __str__ in every spelling); run_keys_code: the formatters on
  generated objects vs key_str, interpret_as_key_signature on written texts, variants of them and texts that are no key vs
  key_from_string.
"""
import contextlib
import copy
import io
import json
import math
import os
import re
import string
from fractions import Fraction

import core
from core import cz, cq, cstr, clist, ctuple, copt, cbool, cnat

V0S = [(0, 1, 0), (0, 2, 0), (0, 3, 0), (0, 4, 0), (0, 5, 0)]
V1 = (1, 0, 0)


def mods():
    from partitura.io import matchlines_v0 as L0, matchlines_v1 as L1, matchfile_utils as U, matchfile_base as B
    from partitura.io import importmatch as IM
    return L0, L1, U, B, IM


def vname(v):
    return "v%d_%d_%d" % tuple(v)


# ----------------------------------------------------------------------------
# reflection: formatter -> codec, regular expression -> character classes


def classify_formatter(fun, ftype=None, interp=None):
    """Name of the model codec whose printer behaves like `fun` on the probe values."""
    L0, L1, U, B, IM = mods()
    F, K, T = U.FractionalSymbolicDuration, U.MatchKeySignature, U.MatchTimeSignature

    def agrees(pairs):
        try:
            return all(fun(a() if callable(a) else a) == b for a, b in pairs)
        except Exception:
            return False

    types = ftype if isinstance(ftype, tuple) else ((ftype,) if ftype is not None else ())
    none_ok = type(None) in types

    def fam(*ts):
        return not types or any(t in types for t in ts)

    if fam(int):
        if agrees([(3, "3"), (None, "-"), (-12, "-12"), (0, "0")]):
            return "COct" if none_ok else "CInt"
        if agrees([(0, "n"), (1, "#"), (2, "x"), (-1, "b"), (-2, "bb"), (None, "-")]):
            return "CAcc"
    if fam(float):
        for d in (2, 4, 5):
            if agrees([(1.23456789, "%.*f" % (d, 1.23456789)), (2.0, "%.*f" % (d, 2.0)), (-0.5, "%.*f" % (d, -0.5))]):
                return "(CFix %d)" % d
        if types and agrees([(1.23456789, "1.23456789"), (2.0, "2.0"), (-0.5, "-0.5"), (1e-05, "1e-05")]):
            return "CTok"  # str(float)
    if fam(str):
        if agrees([(" aB ", "aB"), ("x", "x")]):
            return "CStr"
        if agrees([(" aB ", "'aB'"), ("x", "'x'")]):
            return "CStrOld"
        if agrees([("aB", "AB"), ("c", "C")]):
            return "CNoteUp"
        if agrees([("aB", "ab"), ("C", "c")]):
            return "CNoteLow"
    if fam(list):
        if agrees([(["a", "b"], "[a,b]"), ([], "[]"), ([1, 2], "[1,2]")]):
            isint = False
            if interp is not None:
                try:
                    r = interp("[1,2]")
                    isint = r == [1, 2] and all(isinstance(x, int) for x in r)
                except Exception:
                    isint = False
            return "CListInt" if isint else "CList"
    if fam(K):
        kk = lambda: K(-3, "minor", -3, "major")
        if agrees([(kk, "Cm/Eb"), (lambda: K(4, "major"), "E")]) and types:
            return "(CKey 3 false)"
        if agrees([(kk, "C min/Eb Maj"), (lambda: K(4, "major"), "E Maj")]):
            return "(CKey 1 false)"
        if agrees([(kk, "[C min/Eb Maj]"), (lambda: K(4, "major"), "[E Maj]")]):
            return "(CKey 1 true)"
        if agrees([(lambda: K(-3, "minor"), "[cn,minor]"), (lambda: K(4, "major"), "[en,major]")]):
            return "(CKey 0 false)"
    if fam(T):
        if agrees([(lambda: T(3, 4, [F(2, 2)]), "3/4"), (lambda: T(12, 8, []), "12/8")]):
            return "(CTime false)"
        if agrees([(lambda: T(3, 4, [F(2, 2)]), "[3/4,2/2]"), (lambda: T(12, 8, []), "[12/8]")]):
            return "(CTime true)"
    if fam(F):
        if types and agrees([(lambda: F(1, 4), "1/4"), (lambda: F(3), "3"), (lambda: F(1, 8, 3), "1/8/3"), (lambda: F(1, 4) + F(1, 8), "1/4+1/8")]):
            return "CFrac"
        if agrees([(lambda: F(1, 4), "1/4"), (lambda: F(3), "3/1"), (lambda: F(1, 8, 3), "1/8/3")]):
            return "CFracRat"
    if fam(U.Version):
        if agrees([(U.Version(1, 2, 3), "1.2.3"), (U.Version(0, 10, 0), "0.10.0")]):
            return "CVersion"
    if fam(U.MatchTempoIndication):
        if types and agrees([(lambda: U.MatchTempoIndication("lento assai"), "lento assai")]):
            return "CStr"  # the tempo indication is a stripped, comma-free string
    return "CUnknown"


def regex_groups(pat):
    """{name: (kind, chars, minlen, bracketed)} for the groups (?P<name>X+) / (?P<name>X*) of a pattern,
    X being '.', '[^...]' or '[...]'.  Anything else -> ValueError (fail closed)."""
    out = {}
    for m in re.finditer(r"\(\?P<(\w+)>", pat):
        name, i = m.group(1), m.end()
        if pat[i] == ".":
            kind, chars, i = "any", "", i + 1
        elif pat[i] == "[":
            j = i + 1
            neg = pat[j] == "^"
            if neg:
                j += 1
            chars = ""
            while pat[j] != "]":
                if pat[j] == "\\":
                    chars += pat[j + 1]
                    j += 2
                elif pat[j + 1] == "-" and pat[j + 2] != "]":
                    chars += "".join(chr(c) for c in range(ord(pat[j]), ord(pat[j + 2]) + 1))
                    j += 3
                else:
                    chars += pat[j]
                    j += 1
            kind, i = ("not" if neg else "in"), j + 1
        else:
            raise ValueError("unsupported group body in %r at %d" % (pat, i))
        if pat[i] not in "+*" or pat[i + 1] != ")":
            raise ValueError("unsupported quantifier in %r at %d" % (pat, i))
        minlen = 1 if pat[i] == "+" else 0
        bracketed = pat[:m.start()].endswith("\\[") and pat[i + 2:].startswith("\\]")
        out[name] = (kind, chars, minlen, bracketed)
    return out


def field_interp(obj, fname):
    """The interpreter the line class uses for a field, where the class keeps it in a table."""
    L0, L1, U, B, IM = mods()
    V = getattr(obj, "version", None)
    tabs = []
    if isinstance(obj, L1.MatchNote):
        tabs.append(L1.NOTE_LINE.get(V))
    if isinstance(obj, L1.MatchStime):
        tabs.append(L1.STIME_LINE.get(V))
    if isinstance(obj, L1.MatchPtime):
        tabs.append(L1.PTIME_LINE.get(V))
    if isinstance(obj, L1.MatchSection):
        tabs.append(L1.SECTION_LINE.get(V))
    if isinstance(obj, L0.MatchNote):
        tabs.append((L0.NOTE_LINE.get(V) or {}).get("field_interpreters"))
    for t in tabs:
        if t and fname in t:
            return t[fname][0]
    return None


class Field:
    def __init__(self, owner, name, codec, kind, chars, minlen):
        self.owner, self.name, self.codec, self.kind, self.chars, self.minlen = owner, name, codec, kind, chars, minlen


def reflect_simple(obj, owner, pattern, value_interp=None):
    """Schema items of a non-composite line object: list of str (literal) | Field."""
    fmt_fun = obj.format_fun
    if isinstance(fmt_fun, tuple):
        merged = {}
        for d in fmt_fun:
            merged.update(d)
        fmt_fun = merged
    groups = regex_groups(pattern)
    types = dict(zip(obj.field_names, obj.field_types)) if len(obj.field_names) == len(getattr(obj, "field_types", ())) else {}
    items = []
    for lit, fname, spec, conv in string.Formatter().parse(obj.out_pattern):
        if lit:
            items.append(lit)
        if fname is None:
            continue
        if fname in ("SnoteLine", "NoteLine", "StimeLine", "PtimeLine"):
            items.append(("SUB", fname))
            continue
        if fname not in groups or fname not in fmt_fun:
            raise ValueError("field %s of %s has no group/formatter" % (fname, type(obj).__name__))
        kind, chars, minlen, bracketed = groups[fname]
        codec = classify_formatter(fmt_fun[fname], types.get(fname), value_interp if fname == "Value" else field_interp(obj, fname))
        if bracketed and codec in ("CList", "CListInt"):
            items.append("[")
            items.append(Field(owner, fname, codec + "In", kind, chars, minlen))
            items.append("]")
        else:
            items.append(Field(owner, fname, codec, kind, chars, minlen))
        flds = [it for it in items if isinstance(it, Field)]
        flds[-1].ftype = types.get(fname)
    return items


def reflect(obj):
    """Flat schema items (str | Field) of a line object, composite lines expanded."""
    L0, L1, U, B, IM = mods()
    if isinstance(obj, (B.BaseSnoteNoteLine, B.BaseStimePtimeLine, B.BaseDeletionLine, B.BaseInsertionLine, B.BaseOrnamentLine)):
        subs = {"SnoteLine": "snote", "NoteLine": "note", "StimeLine": "stime", "PtimeLine": "ptime"}
        if isinstance(obj, B.BaseOrnamentLine):
            class Shell:  # the ornament's own fields (Anchor, OrnamentType) without the note's
                pass
            sh = Shell()
            sh.out_pattern = obj.out_pattern
            sh.format_fun = obj.format_fun[0]
            sh.field_names = tuple(fn for fn in obj.field_names if fn in obj.format_fun[0])
            sh.field_types = tuple(t for fn, t in zip(obj.field_names, obj.field_types) if fn in obj.format_fun[0])
            items = reflect_simple(sh, None, type(obj).ornament_pattern.pattern)
        else:
            items = []
            for lit, fname, spec, conv in string.Formatter().parse(obj.out_pattern):
                if lit:
                    items.append(lit)
                if fname is not None:
                    items.append(("SUB", fname))
        flat = []
        for it in items:
            if isinstance(it, tuple) and it[0] == "SUB":
                sub = getattr(obj, subs[it[1]])
                for x in reflect(sub):
                    if isinstance(x, Field):
                        x.owner = subs[it[1]]
                    flat.append(x)
            else:
                flat.append(it)
        return flat
    pat = obj.pattern.pattern
    return reflect_simple(obj, None, pat, getattr(obj, "_c07_interp", None))


def to_elems(items):
    """Merge literals, decide Fld / Rest / Greedy, add the next literal's first character to negated classes."""
    merged = []
    for it in items:
        if isinstance(it, str) and merged and isinstance(merged[-1], str):
            merged[-1] += it
        else:
            merged.append(it)
    elems, fields = [], []
    for i, it in enumerate(merged):
        if isinstance(it, str):
            elems.append("Lit %s" % cstr(it))
            continue
        nxt = merged[i + 1] if i + 1 < len(merged) else None
        nxt_c = nxt[0] if isinstance(nxt, str) and nxt else None
        fields.append(it)
        nm = cstr(it.name)
        if it.kind == "any":
            if isinstance(nxt, str) and i + 2 == len(merged):
                elems.append("Rest %s %s %d" % (nm, it.codec, it.minlen))
            elif nxt_c == "]":
                # ".*" inside square brackets: read as [^\]]* (attribute lists hold no brackets)
                elems.append("Fld %s %s (CNot %s) %d" % (nm, it.codec, cstr("]"), it.minlen))
            else:
                elems.append("Greedy %s %s %d" % (nm, it.codec, it.minlen))
        elif it.kind == "not":
            chars = it.chars + (nxt_c if nxt_c and nxt_c not in it.chars else "")
            elems.append("Fld %s %s (CNot %s) %d" % (nm, it.codec, cstr(chars), it.minlen))
        else:
            elems.append("Fld %s %s (CIn %s) %d" % (nm, it.codec, cstr(it.chars), it.minlen))
    return elems, fields


# ----------------------------------------------------------------------------
# tagged (JSON) values <-> Python objects <-> Coq terms


def to_py(t):
    L0, L1, U, B, IM = mods()
    F = U.FractionalSymbolicDuration
    k = t[0]
    if k == "int":
        return int(t[1])
    if k == "none":
        return None
    if k == "float":
        return float.fromhex(t[1])
    if k == "str":
        return t[1]
    if k == "list":
        return list(t[1])
    if k == "listint":
        return [int(x) for x in t[1]]
    if k == "frac":
        n, d, td = t[1]
        return F(n, d, td)
    if k == "fracsum":
        parts = [F(n, d, td) for n, d, td in t[1]]
        s = parts[0]
        for p in parts[1:]:
            s = s + p
        return s
    if k == "key":
        def one(c):
            f, mi, f2, mi2 = c
            return U.MatchKeySignature(f, "minor" if mi else "major", f2, None if f2 is None else ("minor" if mi2 else "major"))
        ks = one(t[1])
        ks.other_components = [one(c) for c in t[2]]
        return ks
    if k == "time":
        return U.MatchTimeSignature(t[1], t[2], [F(n, d, td) for n, d, td in t[3]])
    if k == "version":
        return U.Version(*t[1:4])
    if k == "tempo":
        return U.MatchTempoIndication(t[1])
    raise ValueError(t)


class Mismatch(Exception):
    pass


def c_triple(c):
    n, d, td = c
    return ctuple([cz(n), cz(d), copt(td, cz)])


def c_frac(f):
    """Coq term of the exact state of a FractionalSymbolicDuration object."""
    try:
        n, d = int(f.numerator), int(f.denominator)
        td = None if f.tuple_div is None else int(f.tuple_div)
        if n != f.numerator or d != f.denominator:
            raise Mismatch("non-integral fraction %r/%r" % (f.numerator, f.denominator))
        cs = None if f.add_components is None else [(int(a), int(b), None if c is None else int(c)) for a, b, c in f.add_components]
    except AttributeError as e:
        raise Mismatch("not a FractionalSymbolicDuration: %r" % (f,))
    return "(mkfrac %s %s %s %s)" % (cz(n), cz(d), copt(td, cz), copt(cs, lambda l: clist([c_triple(c) for c in l])))


def c_key1(ks):
    def mode(m):
        if m == "minor":
            return "true"
        if m == "major":
            return "false"
        raise Mismatch("mode %r" % (m,))
    alt = "None" if ks.fifths_alt is None else "(Some (%s, %s))" % (cz(ks.fifths_alt), mode(ks.mode_alt))
    return "((%s, %s), %s)" % (cz(ks.fifths), mode(ks.mode), alt)


def fix_digits(codec):
    m = re.match(r"\(CFix (\d+)\)", codec)
    return int(m.group(1)) if m else None


def c_value(v, codec, parsed):
    """Coq `value` term of a field value.  parsed=False: the object's value as the formatter gets it (a float of
    a fixed-point field exactly); parsed=True: what the parser returned (a fixed-point float must be the
    double nearest to a d-decimal number)."""
    L0, L1, U, B, IM = mods()
    d = fix_digits(codec)
    if d is not None:
        x = float(v)
        if x != x or x in (float("inf"), float("-inf")):
            raise Mismatch("non-finite float")
        neg = math.copysign(1.0, x) < 0
        if not parsed:
            return "(VQ %s %s)" % (cbool(neg), cq(abs(Fraction(x))))
        m = round(abs(Fraction(x)) * 10 ** d)
        if m / 10 ** d != abs(x):
            raise Mismatch("parsed float %r is not a %d-decimal number" % (x, d))
        return "(VDec %s %s)" % (cbool(neg), cz(m))
    if codec in ("CInt", "COct", "CAcc"):
        if v is None:
            return "VNone"
        if isinstance(v, bool) or int(v) != v:
            raise Mismatch("not an integer: %r" % (v,))
        return "(VInt %s)" % cz(int(v))
    if codec == "CTok":
        return "(VStr %s)" % cstr(repr(float(v)))
    if codec in ("CStr", "CStrOld", "CNoteUp", "CNoteLow"):
        if isinstance(v, U.MatchTempoIndication):
            v = v.value
        if not isinstance(v, str):
            raise Mismatch("not a string: %r" % (v,))
        return "(VStr %s)" % cstr(v)
    if codec in ("CList", "CListIn"):
        if not isinstance(v, list) or not all(isinstance(x, str) for x in v):
            raise Mismatch("not a list of strings: %r" % (v,))
        return "(VList %s)" % clist([cstr(x) for x in v])
    if codec in ("CListInt", "CListIntIn"):
        if not isinstance(v, list) or any(isinstance(x, bool) or int(x) != x for x in v):
            raise Mismatch("not a list of integers: %r" % (v,))
        return "(VListInt %s)" % clist([cz(int(x)) for x in v])
    if codec in ("CFrac", "CFracRat"):
        return "(VFrac %s)" % c_frac(v)
    if codec.startswith("(CKey"):
        if not isinstance(v, U.MatchKeySignature):
            raise Mismatch("not a key signature: %r" % (v,))
        return "(VKey %s %s)" % (c_key1(v), clist([c_key1(o) for o in v.other_components]))
    if codec.startswith("(CTime"):
        if not isinstance(v, U.MatchTimeSignature):
            raise Mismatch("not a time signature: %r" % (v,))
        return "(VTime %s %s %s)" % (cz(int(v.numerator)), cz(int(v.denominator)), clist([c_frac(o) for o in (v.other_components or [])]))
    if codec == "CVersion":
        return "(VVersion %s %s %s)" % (cz(v[0]), cz(v[1]), cz(v[2]))
    raise Mismatch("no conversion for codec %s" % codec)


# ----------------------------------------------------------------------------
# catalogue of line kinds, object construction

V0_KINDS = ["snote", "note", "snote_note", "deletion", "trailing_score", "no_played", "insertion",
            "hammer_bounce", "trailing_played", "trill", "sustain", "soft"]
V1_KINDS = ["snote", "note", "snote_note", "deletion", "insertion", "ornament", "sustain", "soft",
            "stime", "ptime", "stime_ptime", "section"]
FILE_LEVEL_EXCLUDED = ("snote", "note", "stime", "ptime")  # parts of lines, not lines of a file


# what the statement quantifies over, written down independently of the tables of the library (which the
# catalogue below is read from): a kind of line or an attribute that disappears from a version is reported
OLD_INFO_ATTRS = ["approximateTempo", "audioFileName", "audioFilePath", "audioFirstNote", "audioLastNote", "beatSubDivision", "beatSubdivision",
                  "composer", "keySignature", "matchFileVersion", "mergedFrom", "midiClockRate", "midiClockUnits", "midiFileName", "midiFilePath",
                  "midiFilename", "partSequence", "performer", "piece", "scoreFileName", "scoreFilePath", "subtitle", "tempoIndication", "timeSignature"]
V1_INFO_ATTRS = ["approximateTempo", "audioFileName", "audioFilePath", "audioFirstNote", "audioLastNote", "composer", "matchFileVersion", "midiClockRate",
                 "midiClockUnits", "midiFileName", "midiFilePath", "performer", "piece", "scoreFileName", "scoreFilePath", "subtitle"]


def expected_catalogue():
    out = []
    for v in V0S:
        out += [(k, v) for k in V0_KINDS] + [("info:" + a, v) for a in OLD_INFO_ATTRS]
        if v >= (0, 3, 0):
            out += [("meta:keySignature", v), ("meta:timeSignature", v)]
    out += [(k, V1) for k in V1_KINDS] + [("info:" + a, V1) for a in V1_INFO_ATTRS]
    out += [("scoreprop:" + a, V1) for a in ("beatSubDivision", "directions", "keySignature", "tempoIndication", "timeSignature")]
    return out


def catalogue():
    """[(kind, version)] for every line class x version, info/scoreprop/meta once per attribute."""
    L0, L1, U, B, IM = mods()
    out = []
    for v in V0S:
        V = U.Version(*v)
        out += [(k, v) for k in V0_KINDS]
        out += [("info:" + a, v) for a in L0.INFO_LINE[V]]
        if V in L0.META_LINE:
            out += [("meta:" + a, v) for a in L0.META_LINE[V]]
    V = U.Version(*V1)
    out += [(k, V1) for k in V1_KINDS]
    out += [("info:" + a, V1) for a in L1.INFO_LINE[V]]
    out += [("scoreprop:" + a, V1) for a in L1.SCOREPROP_LINE[V]]
    return out


def construct(kind, ver, vals):
    """Line object from {(owner, FieldName): python value}."""
    L0, L1, U, B, IM = mods()
    V = U.Version(*ver)
    L = L1 if V >= U.Version(1, 0, 0) else L0

    def sub(owner):
        return {U.to_snake_case(n): v for (o, n), v in vals.items() if o == owner}

    base, _, attr = kind.partition(":")
    if base == "snote":
        return L.MatchSnote(version=V, **sub(None))
    if base == "note":
        return L.MatchNote(version=V, **sub(None))
    if base == "snote_note":
        return L.MatchSnoteNote(V, L.MatchSnote(version=V, **sub("snote")), L.MatchNote(version=V, **sub("note")))
    if base in ("deletion", "trailing_score", "no_played"):
        cls = {"deletion": "MatchSnoteDeletion", "trailing_score": "MatchSnoteTrailingScore", "no_played": "MatchSnoteNoPlayedNote"}[base]
        return getattr(L, cls)(V, L.MatchSnote(version=V, **sub("snote")))
    if base in ("insertion", "hammer_bounce", "trailing_played"):
        cls = {"insertion": "MatchInsertionNote", "hammer_bounce": "MatchHammerBounceNote", "trailing_played": "MatchTrailingPlayedNote"}[base]
        return getattr(L, cls)(V, L.MatchNote(version=V, **sub("note")))
    if base == "trill":
        return L0.MatchTrillNote(V, vals[(None, "Anchor")], L0.MatchNote(version=V, **sub("note")))
    if base == "ornament":
        return L1.MatchOrnamentNote(V, vals[(None, "Anchor")], vals[(None, "OrnamentType")], L1.MatchNote(version=V, **sub("note")))
    if base == "sustain":
        return L.MatchSustainPedal(V, **sub(None))
    if base == "soft":
        return L.MatchSoftPedal(V, **sub(None))
    if base == "stime":
        return L1.MatchStime(V, **sub(None))
    if base == "ptime":
        return L1.MatchPtime(V, **sub(None))
    if base == "stime_ptime":
        return L1.MatchStimePtime(V, L1.MatchStime(V, **sub("stime")), L1.MatchPtime(V, **sub("ptime")))
    if base == "section":
        return L1.MatchSection(V, **sub(None))
    d = sub(None)
    d.pop("attribute", None)
    if base == "info":
        if L is L1:
            o = L1.make_info(V, attr, d["value"])
            o._c07_interp = L1.INFO_LINE[V][attr][0]
        else:
            interp, fmt, ty = L0.INFO_LINE[V][attr]
            o = L0.MatchInfo(V, attr, d["value"], ty, fmt)
            o._c07_interp = interp
        return o
    if base == "scoreprop":
        o = L1.make_scoreprop(V, attr, **d)
        o._c07_interp = L1.SCOREPROP_LINE[V][attr][0]
        return o
    if base == "meta":
        interp, fmt, ty = L0.META_LINE[V][attr]
        o = L0.MatchMeta(V, attr, d["value"], ty, fmt, d["measure"], d["time_in_beats"])
        o._c07_interp = interp
        return o
    raise ValueError(kind)


def bootstrap(kind, ver):
    """A fixed object of the kind (only used to reflect the schema)."""
    L0, L1, U, B, IM = mods()
    F, V = U.FractionalSymbolicDuration, U.Version(*ver)
    v1 = V >= U.Version(1, 0, 0)
    sn = dict(Anchor="n1", NoteName="C", Modifier=1, Octave=4, Measure=1, Beat=1, Offset=F(1, 4), Duration=F(1, 8),
              OnsetInBeats=0.25, OffsetInBeats=1.0, ScoreAttributesList=["v1"])
    if v1:
        no = dict(Id="n1", MidiPitch=61, Onset=100, Offset=200, Velocity=64, Channel=1, Track=0)
    else:
        no = dict(Id="1", NoteName="C", Modifier=1, Octave=4, Onset=100, Offset=200, Velocity=64)
        if V >= U.Version(0, 3, 0):
            no["AdjOffset"] = 250
    base, _, attr = kind.partition(":")
    vals = {}
    if base in ("snote", "note"):
        vals = {(None, k): x for k, x in (sn if base == "snote" else no).items()}
    if base in ("snote_note", "deletion", "trailing_score", "no_played"):
        vals.update({("snote", k): x for k, x in sn.items()})
    if base in ("snote_note", "insertion", "hammer_bounce", "trailing_played", "trill", "ornament"):
        vals.update({("note", k): x for k, x in no.items()})
    if base in ("trill", "ornament"):
        vals[(None, "Anchor")] = "n1"
    if base == "ornament":
        vals[(None, "OrnamentType")] = ["trill"]
    if base in ("sustain", "soft"):
        vals = {(None, "Time"): 10, (None, "Value"): 64}
    st = dict(Measure=1, Beat=1, Offset=F(0), OnsetInBeats=0.0, AnnotationType=["beat"])
    if base == "stime":
        vals = {(None, k): x for k, x in st.items()}
    if base == "ptime":
        vals = {(None, "Onsets"): [1, 2]}
    if base == "stime_ptime":
        vals = {("stime", k): x for k, x in st.items()}
        vals[("ptime", "Onsets")] = [1, 2]
    if base == "section":
        vals = {(None, "StartInBeatsUnfolded"): 0.0, (None, "EndInBeatsUnfolded"): 1.0, (None, "StartInBeatsOriginal"): 0.0,
                (None, "EndInBeatsOriginal"): 1.0, (None, "RepeatEndType"): ["end"]}
    if base in ("info", "scoreprop", "meta"):
        vals = {(None, "Value"): V if attr == "matchFileVersion" else None}
        if base == "scoreprop":
            vals.update({(None, "Measure"): 1, (None, "Beat"): 1, (None, "Offset"): F(0), (None, "TimeInBeats"): 0.0})
        if base == "meta":
            vals.update({(None, "Measure"): 1, (None, "TimeInBeats"): 0.0})
    return construct(kind, ver, vals)


def sname(kind, ver):
    return "sch_%s_%s" % (re.sub(r"\W", "_", kind), vname(ver))


_SCHEMAS = None


def schemas():
    """{(kind, ver): (coq_name, elems, fields)} reflected from the live classes."""
    global _SCHEMAS
    if _SCHEMAS is None:
        _SCHEMAS = {}
        for kind, ver in catalogue():
            elems, fields = to_elems(reflect(bootstrap(kind, ver)))
            _SCHEMAS[(kind, ver)] = (sname(kind, ver), elems, fields)
    return _SCHEMAS


KEY_FMTS = [(0, "format_key_signature_v0_1_0"), (1, "format_key_signature_v0_3_0"), (3, "format_key_signature_v1_0_0")]


def tabulate_keys():
    """T2: every key (fifths -7..7 x mode) in every spelling: the text the implementation writes and
    what it parses from that text."""
    L0, L1, U, B, IM = mods()
    rows = []
    for fmt, fname in KEY_FMTS:
        for f in range(-7, 8):
            for minor in (False, True):
                try:
                    text = getattr(U, fname)(U.MatchKeySignature(f, "minor" if minor else "major"))
                except Exception as e:
                    text = None
                parsed = None
                if text is not None:
                    try:
                        p = U.interpret_as_key_signature(text)
                        if p.fifths_alt is None and not p.other_components and p.mode in ("major", "minor"):
                            parsed = (int(p.fifths), p.mode == "minor")
                    except Exception:
                        parsed = None
                rows.append((fmt, f, minor, text, parsed))
    return rows


# ----------------------------------------------------------------------------
# reflection of the dispatch: the regular expressions as they are (not narrowed to the shape of
# the line), how every from_matchline method of the ordered lists combines them, the decoder of
# every group -> Gen/C07_Parsers.v (Model/C07_Disp.v)


def _parse_class(pat, j):
    """pat[j] == '[': (kind, chars, index after the closing bracket)"""
    k = j + 1
    neg = pat[k] == "^"
    if neg:
        k += 1
    chars = ""
    while pat[k] != "]":
        if pat[k] == "\\":
            if pat[k + 1] == "d":
                chars += "0123456789"
            elif pat[k + 1].isalnum():
                raise ValueError("unsupported escape in a class of %r at %d" % (pat, k))
            else:
                chars += pat[k + 1]
            k += 2
        elif pat[k + 1] == "-" and pat[k + 2] != "]":
            chars += "".join(chr(c) for c in range(ord(pat[k]), ord(pat[k + 2]) + 1))
            k += 3
        else:
            chars += pat[k]
            k += 1
    return ("not" if neg else "in"), chars, k + 1


def regex_items(pat):
    """(anchored, items, names) of a pattern of the sub-language the line patterns are written in:
    literals (escapes resolved), '.', capturing groups (?P<n>X+) / (?P<n>X*) with X = '.', [..] or
    [^..]; a leading '^'.  items: ("lit", s) | ("dot",) | ("grp", kind, chars, minlen).  Anything
    else -> ValueError (fail closed)."""
    i, n = 0, len(pat)
    anchored = False
    items, names = [], []

    def lit(ch):
        if items and items[-1][0] == "lit":
            items[-1] = ("lit", items[-1][1] + ch)
        else:
            items.append(("lit", ch))

    if pat.startswith("^"):
        anchored, i = True, 1
    while i < n:
        ch = pat[i]
        if ch == "\\":
            if i + 1 >= n or pat[i + 1].isalnum():
                raise ValueError("unsupported escape in %r at %d" % (pat, i))
            lit(pat[i + 1])
            i += 2
        elif pat.startswith("(?P<", i):
            j = pat.index(">", i)
            names.append(pat[i + 4:j])
            j += 1
            if pat[j] == ".":
                kind, chars, j = "any", "", j + 1
            elif pat[j] == "[":
                kind, chars, j = _parse_class(pat, j)
            elif pat.startswith("\\d", j):
                kind, chars, j = "in", "0123456789", j + 2
            else:
                raise ValueError("unsupported group body in %r at %d" % (pat, j))
            if pat[j] not in "+*" or pat[j + 1:j + 2] != ")":
                raise ValueError("unsupported quantifier in %r at %d" % (pat, j))
            items.append(("grp", kind, chars, 1 if pat[j] == "+" else 0))
            i = j + 2
        elif ch == ".":
            items.append(("dot",))
            i += 1
        elif ch in "()[]{}*+?|$^":
            raise ValueError("unsupported construct %r in %r at %d" % (ch, pat, i))
        else:
            lit(ch)
            i += 1
    return anchored, items, names


def c_rpat(items):
    out = []
    for it in items:
        if it[0] == "lit":
            out.append("RLit %s" % cstr(it[1]))
        elif it[0] == "dot":
            out.append("RDot")
        else:
            _, kind, chars, minlen = it
            cl = "RAnyC" if kind == "any" else "(%s %s)" % ("RNot" if kind == "not" else "RIn", cstr(chars))
            out.append("RGrp %s %d" % (cl, minlen))
    return clist(out)


_BOOT = {}


def boot(kind, ver):
    if (kind, ver) not in _BOOT:
        _BOOT[(kind, ver)] = bootstrap(kind, ver)
    return _BOOT[(kind, ver)]


def kinds_of_version(ver):
    return [k for k, v in catalogue() if v == ver]


def kind_of_object(p, ver):
    """the catalogue kind of a line object (None: a class that is no line of this version)"""
    base = None
    for k in kinds_of_version(ver):
        b = k.partition(":")[0]
        if b in FILE_LEVEL_EXCLUDED:
            continue
        if type(boot(k, ver)) is type(p):
            if ":" in k:
                if k.partition(":")[2] == getattr(p, "Attribute", None):
                    return k
            else:
                return k
    return base


def parser_spec(method, ver):
    """One from_matchline method of an ordered list, for format version ver:
    (class name, [step], group owners/names in step order, kinds read by it).
    step: ("search", pattern) | ("match", pattern) | ("search_then", pattern, pattern).
    The way a class combines its patterns is written here by hand from prepare_kwargs_from_matchline /
    from_matchline; the patterns themselves are taken from the live classes and objects."""
    L0, L1, U, B, IM = mods()
    cls = method.__self__
    kinds = [k for k in kinds_of_version(ver) if k.partition(":")[0] not in FILE_LEVEL_EXCLUDED and type(boot(k, ver)) is cls]
    if not kinds:  # the class has no line of this version (MatchMeta before 0.3.0): its method always raises
        return cls.__name__, [], [], []
    o = boot(kinds[0], ver)

    def names(pattern, owner):
        return [(owner, nm) for nm in regex_items(pattern.pattern)[2]]

    if issubclass(cls, B.BaseSnoteNoteLine):
        steps = [("search", o.snote.pattern), ("search", o.note.pattern)]
        groups = names(o.snote.pattern, "snote") + names(o.note.pattern, "note")
    elif issubclass(cls, B.BaseDeletionLine):
        steps = [("search_then", o.snote.pattern, cls.identifier_pattern)]
        groups = names(o.snote.pattern, "snote")
    elif issubclass(cls, B.BaseInsertionLine):
        steps = [("match", cls.identifier_pattern), ("search", o.note.pattern)]
        groups = names(o.note.pattern, "note")
    elif issubclass(cls, B.BaseOrnamentLine):
        steps = [("search", cls.ornament_pattern), ("search", o.note.pattern)]
        groups = names(cls.ornament_pattern, None) + names(o.note.pattern, "note")
    elif issubclass(cls, B.BaseStimePtimeLine):
        steps = [("search", o.stime.pattern), ("search", o.ptime.pattern)]
        groups = names(o.stime.pattern, "stime") + names(o.ptime.pattern, "ptime")
    else:  # one pattern: pedals, info, meta, scoreprop, section
        steps = [("search", o.pattern)]
        groups = names(o.pattern, None)
    for st in steps:
        for p in st[1:]:
            if regex_items(p.pattern)[0]:
                raise ValueError("anchored pattern %r in %s" % (p.pattern, cls.__name__))
    return cls.__name__, steps, groups, kinds


def c_step(st):
    tag = {"search": "PSearch", "match": "PMatch", "search_then": "PSearchThen"}[st[0]]
    return "%s %s" % (tag, " ".join(c_rpat(regex_items(p.pattern)[1]) for p in st[1:]))


def group_codecs(kind, ver, groups):
    """codecs of the groups of a parser, for the fields of line kind `kind`"""
    nm, elems, fields = schemas()[(kind, ver)]
    by = {(f.owner, f.name): f.codec for f in fields}
    return [by[g] for g in groups]


def parser_lists():
    """{ver: [(class name, steps, groups, kinds)]} in the order of FROM_MATCHLINE_METHODS"""
    L0, L1, U, B, IM = mods()
    out = {}
    for ver in V0S + [V1]:
        methods = IM.FROM_MATCHLINE_METHODSV1 if ver == V1 else IM.FROM_MATCHLINE_METHODSV0
        out[ver] = [parser_spec(m, ver) for m in methods]
    return out


def version_infos():
    """get_version: the info parsers it tries, in its order: (pattern, version of the attribute table,
    attributes whose interpreter gives a Version)"""
    L0, L1, U, B, IM = mods()
    import inspect
    out = []
    for cls, tabs in ((IM.MatchInfoV1, L1.INFO_LINE), (IM.MatchInfoV0, L0.INFO_LINE)):
        dv = inspect.signature(cls.from_matchline).parameters["version"].default
        vattrs = sorted(a for a, (interp, fmt, ty) in tabs[dv].items() if ty is U.Version)
        out.append((cls.pattern, tuple(dv), vattrs))
    return out


def gen_parsers():
    L0, L1, U, B, IM = mods()
    L = ["(* GENERATED by harness/props/c07.py from the working tree -- do not edit *)",
         "From Coq Require Import ZArith List String.", "From PV Require Import Model.C07 Model.C07_Disp Model.C07_Up.",
         "Import ListNotations.", "Open Scope string_scope.", "Open Scope Z_scope.", ""]
    PL = parser_lists()
    names = []
    for ver, plist in sorted(PL.items()):
        rows = []
        for cname, steps, groups, kinds in plist:
            if not kinds:
                cod = "(PByAttr [])"
            elif len(kinds) == 1 and ":" not in kinds[0]:
                cod = "(PFixed %s)" % clist(group_codecs(kinds[0], ver, groups))
            else:
                cod = "(PByAttr %s)" % clist("(%s, %s)" % (cstr(k.partition(":")[2]), clist(group_codecs(k, ver, groups))) for k in kinds)
            rows.append("mk_lparser %s %s %s" % (cstr(cname), clist(c_step(s) for s in steps), cod))
        L.append("Definition parsers_%s : list lparser := [\n  %s\n]." % (vname(ver), ";\n  ".join(rows)))
        names.append((ver, "parsers_%s" % vname(ver)))
    L.append("Definition parser_table : list (version * list lparser) := %s." % clist("((%s, %s, %s), %s)" % (cz(v[0]), cz(v[1]), cz(v[2]), nm) for v, nm in names))
    a1, vp, _ = regex_items(U.version_pattern.pattern)
    a2, ovp, _ = regex_items(U.old_version_pattern.pattern)
    if not (a1 and a2):
        raise ValueError("the version patterns are no longer anchored at the start")
    L.append("Definition version_pat : rpat := %s." % c_rpat(vp))
    L.append("Definition old_version_pat : rpat := %s." % c_rpat(ovp))
    VI = version_infos()
    L.append("Definition version_infos : list (rpat * list string) := %s." % clist(
        "(%s, %s)" % (c_rpat(regex_items(p.pattern)[1]), clist(cstr(a) for a in va)) for p, dv, va in VI))
    V = U.Version(*V1)
    L.append("Definition up_tabs : uptabs := mk_uptabs %s %s %s %s." % (
        clist(cstr(a) for a in L1.INFO_LINE[V]), clist(cstr(a) for a in L1.SCOREPROP_LINE[V]),
        clist("(%s, %s)" % (cstr(a), cstr(b)) for a, b in sorted(L1.INFO_ATTRIBUTE_EQUIVALENCES.items())),
        clist("(%s, %s)" % (cstr(a), cstr(b)) for a, b in sorted(L1.SCOREPROP_ATTRIBUTE_EQUIVALENCES.items()))))
    L.append("(* the info and meta attributes of the versions before 1.0.0 *)")
    L.append("Definition old_info_attrs : list (version * list string) := %s." % clist(
        "(%s, %s)" % (c_version(v), clist(cstr(a) for a in L0.INFO_LINE[U.Version(*v)])) for v in V0S))
    L.append("Definition old_meta_attrs : list (version * list string) := %s." % clist(
        "(%s, %s)" % (c_version(v), clist(cstr(a) for a in L0.META_LINE.get(U.Version(*v), {}))) for v in V0S))
    core.write_gen("C07_Parsers", "\n".join(L) + "\n")
    return PL


# ----------------------------------------------------------------------------
# round j: the key-signature reader / writer as an algorithm (Model/C07_Key.v): MAJOR_KEYS, MINOR_KEYS and the three
# regular expressions it uses are reflected into Gen/C07_KeyCfg.v (fail closed: via the parse tree of Python's re)

_WS = " \t\n\r\x0b\x0c"


def _in_chars(av):
    import re._constants as RC
    chars = ""
    for op, a in av:
        if op is RC.LITERAL:
            chars += chr(a)
        elif op is RC.RANGE:
            chars += "".join(chr(c) for c in range(a[0], a[1] + 1))
        elif op is RC.CATEGORY and a is RC.CATEGORY_SPACE:
            chars += _WS
        else:
            raise ValueError("unsupported class member %r" % ((op, a),))
    return chars


def _rep_item(node):
    """(MAX_REPEAT (min, MAXREPEAT, [IN ..] | [LITERAL] | [ANY])) -> ("grp", kind, chars, min)"""
    import re._constants as RC
    op, av = node
    if op is not RC.MAX_REPEAT or av[1] is not RC.MAXREPEAT or av[0] not in (0, 1) or len(av[2]) != 1:
        raise ValueError("unsupported repetition %r" % (node,))
    bop, bav = av[2][0]
    if bop is RC.IN:
        if bav and bav[0][0] is RC.NEGATE:
            return ("grp", "not", _in_chars(bav[1:]), av[0])
        return ("grp", "in", _in_chars(bav), av[0])
    if bop is RC.LITERAL:
        return ("grp", "in", chr(bav), av[0])
    if bop is RC.ANY:
        return ("grp", "any", "", av[0])
    raise ValueError("unsupported repetition body %r" % (node,))


def first_then_reps(pat):
    """a pattern of the form (one character of a class, captured)(greedy repetitions, captured or not)*:
    (class chars, items, captured flags); anything else -> ValueError"""
    import re._parser as RP
    import re._constants as RC
    if pat.flags & ~re.UNICODE:
        raise ValueError("flags")
    tree = list(RP.parse(pat.pattern))
    op, av = tree[0]
    if op is not RC.SUBPATTERN or len(av[3]) != 1 or av[3][0][0] is not RC.IN:
        raise ValueError("the pattern does not start with one captured character of a class: %r" % pat.pattern)
    first = _in_chars(av[3][0][1])
    items, caps = [], []
    for op, av in tree[1:]:
        if op is RC.SUBPATTERN:
            if len(av[3]) != 1:
                raise ValueError("unsupported group %r" % (av,))
            items.append(_rep_item(av[3][0]))
            caps.append(True)
        else:
            items.append(_rep_item((op, av)))
            caps.append(False)
    return first, items, caps


def cstr_any(t):
    """a Coq string term for any text of 8-bit characters"""
    if all(32 <= ord(c) < 127 for c in t):
        return cstr(t)
    return "(str_of_codes %s)" % clist(str(ord(c)) + "%nat" for c in t)


def c_rpat_any(items):
    out = []
    for _, kind, chars, minlen in items:
        cl = "RAnyC" if kind == "any" else "(%s %s)" % ("RNot" if kind == "not" else "RIn", cstr_any(chars))
        out.append("RGrp %s %d" % (cl, minlen))
    return clist(out)


def gen_keycfg():
    L0, L1, U, B, IM = mods()
    from partitura.utils import music as M
    f1, t1, c1 = first_then_reps(U.key_signature_pattern)
    f2, t2, c2 = first_then_reps(U.pitch_class_pattern)
    if not all(c2) or len(t2) != 1 or sum(c1) != 5:
        raise ValueError("the groups of key_signature_pattern / pitch_class_pattern changed")
    anch, li, names = regex_items(U.attribute_list_pattern.pattern)
    if not anch or names != ["attributes"]:
        raise ValueError("attribute_list_pattern changed its form")
    L = ["(* GENERATED by harness/props/c07.py from the working tree -- do not edit *)",
         "From Coq Require Import ZArith List String.", "From PV Require Import Model.C07 Model.C07_Disp Model.C07_Key.",
         "Import ListNotations.", "Open Scope string_scope.", "Open Scope Z_scope.", ""]
    L.append("Definition key_cfg : keycfg := mk_keycfg\n  %s\n  %s\n  %s\n  %s\n  %s\n  %s\n  %s\n  %s." % (
        clist(cstr(k) for k in M.MAJOR_KEYS), clist(cstr(k) for k in M.MINOR_KEYS), cstr_any(f1), c_rpat_any(t1), clist(cbool(c) for c in c1),
        cstr_any(f2), c_rpat_any(t2), c_rpat(li)))
    core.write_gen("C07_KeyCfg", "\n".join(L) + "\n")


# ----------------------------------------------------------------------------
# round j stream: key signatures through the ALGORITHM model (Model/C07_Key.v).  Texts of every spelling as written, the same with
# blanks around the separators, other mode words / letter cases / accidental spellings of the older formats, lists of several
# keys, and short texts over the alphabet of the format that are no key at all (where the implementation raises the model must
# fail).  The implementation's answer to every text comes from interpret_as_key_signature, every written text from the formatter
# of the spelling; key_read_check / key_write_check evaluate the model on the same inputs inside Coq.

KEYFMT_FUNS = {0: ("format_key_signature_v0_1_0", False), 1: ("format_key_signature_v0_3_0", False),
               2: ("format_key_signature_v0_3_0_list", True), 3: ("format_key_signature_v1_0_0", False)}
KEY_GARBAGE = "ABCDEFGHabcdgmn#b/ ,[]xMij"


def key_obs(p):
    """(key1 term, [key1 terms]) of a parsed MatchKeySignature, Mismatch when a field is no int / mode word"""
    if not isinstance(p.fifths, int) or (p.fifths_alt is not None and not isinstance(p.fifths_alt, int)):
        raise Mismatch("fifths")
    comps = []
    for c in p.other_components:
        if not isinstance(c.fifths, int) or c.other_components:
            raise Mismatch("component")
        comps.append(c_key1(c))
    return "(%s, %s)" % (c_key1(p), clist(comps))


def key_variants(rng, U, k, fmt, text):
    """texts that should be read as the same key (kind of variant, text)"""
    out = []
    pad = lambda: rng.choice(["", " ", "  ", "\t"]) if rng.random() < 0.7 else ""
    if fmt == 3:
        out.append(("v1_blanks", pad() + (pad() + "/" + pad()).join(text.split("/")) + pad()))
        out.append(("v1_lower_case", text.lower()))
        out.append(("v1_in_brackets", "[" + text + "]"))
    elif fmt in (1, 2):
        t = text
        for a, bs in (("Maj", ["major", "Major", "MAJ", "maj", "Dur"]), ("min", ["minor", "Minor", "MIN", "Min", "m"])):
            if a in t and rng.random() < 0.8:
                t = t.replace(a, rng.choice(bs), 1 if rng.random() < 0.5 else -1)
        out.append(("old_mode_words", t))
        out.append(("old_blanks", text.replace(" ", rng.choice(["", "  ", " \t"])).replace("/", rng.choice([" /", "/ ", "//", " / "]))))
        if fmt == 2:
            out.append(("old_text_after_bracket", text + rng.choice(["x", " ", "]", ".", ",C Maj"])))
    else:
        name, _, mode = text[1:-1].partition(",")
        nm = rng.choice([name, name.upper(), name.replace("n", ""), name[0].upper() + name[1:], " " + name + " ", name + "n"])
        md = rng.choice([mode, mode.capitalize(), mode.upper(), mode[:3], mode[:3].capitalize(), " " + mode])
        out.append(("v01_spellings", "[%s,%s]" % (nm, md)))
        out.append(("v01_without_brackets", "%s,%s" % (nm, md)))
    return out


def run_keys_code(ctx):
    L0, L1, U, B, IM = mods()
    rng = ctx.rng
    quick = ctx.tier == "quick"
    wterms, wkept, rterms, rkept = [], [], [], []
    seen = set()

    def read_case(kind, text):
        if text in seen or any(not (32 <= ord(c) < 127 or c == "\t") for c in text):
            return None
        seen.add(text)
        ctx.evaluations += 1
        try:
            with contextlib.redirect_stdout(io.StringIO()):
                p = U.interpret_as_key_signature(text)
        except Exception as e:
            p = None
        try:
            obs = None if p is None else key_obs(p)
        except Mismatch:
            ctx.count("keys_code:read_result_outside_the_model(%s)" % kind)
            return p
        ctx.count("keys_code:read:%s" % kind)
        ctx.count("keys_code:read_%s" % ("raises_or_none" if p is None else
                                         "pair_with_components" if p.fifths_alt is not None and p.other_components else
                                         "pair" if p.fifths_alt is not None else "with_components" if p.other_components else "single"))
        rterms.append("(%s, %s)" % (cstr_any(text), "None" if obs is None else "(Some %s)" % obs))
        rkept.append({"kind": "key_code", "what": "read", "variant": kind, "text": text})
        ctx.nontrivial(("key_code", text))
        return p

    objs = []
    for fmt in (0, 1, 2, 3):
        for f in range(-7, 8):
            for mi in ("major", "minor"):
                objs.append((fmt, [f, mi, None, None], []))
        if fmt:
            for _ in range(40 if quick else 600):
                k = g_key1(rng, True)
                k = [k[0], "minor" if k[1] else "major", k[2] if k[2] is not None else rng.randint(-7, 7), "minor" if k[3] else "major"]
                comps = []
                if fmt == 2 and rng.random() < 0.5:
                    for _ in range(rng.randint(1, 2)):
                        c = g_key1(rng, True)
                        comps.append([c[0], "minor" if c[1] else "major", c[2], None if c[2] is None else ("minor" if c[3] else "major")])
                objs.append((fmt, k, comps))
    for fmt, k, comps in objs:
        fname, isl = KEYFMT_FUNS[fmt]
        mk = lambda: U.MatchKeySignature(k[0], k[1], k[2], k[3], other_components=[U.MatchKeySignature(*c) for c in comps])
        ctx.evaluations += 1
        try:
            text = getattr(U, fname)(mk())
        except Exception as e:
            text = None
        ctx.count("keys_code:write:spelling_%d%s%s" % (fmt, "_pair" if k[2] is not None else "", "_with_components" if comps else ""))
        wterms.append("(%s, %s, %s, %s, %s)" % (cz(fmt), cbool(isl), c_key1(mk()), clist(c_key1(U.MatchKeySignature(*c)) for c in comps), copt(text, cstr_any)))
        wkept.append({"kind": "key_code", "what": "write", "fmt": fmt, "key": k, "components": comps, "text": text})
        if text is None:
            ctx.violation("key signature %r cannot be written in spelling %d" % (k, fmt), wkept[-1])
            continue
        p = read_case("as_written_spelling_%d" % fmt, text)
        for kind, t in key_variants(rng, U, k, fmt, text):
            q = read_case(kind, t)
            if kind == "v1_blanks" and q is not None and p is not None:
                # direct oracle (theorem key_v1_text_fixpoint): blanks around plain 1.0.0 names change nothing
                try:
                    again = U.format_key_signature_v1_0_0(q)
                except Exception as e:
                    again = "<%r>" % (e,)
                if not (q == p and again == text):
                    ctx.count("keys_code:oracle_complaints")
                    if ctx.counts["keys_code:oracle_complaints"] <= 5:
                        ctx.violation("key signature text %r (the 1.0.0 names %r with blanks) is read as %s, written again as %r" % (
                            t, text, (q.fifths, q.mode, q.fifths_alt, q.mode_alt), again), {"kind": "key_code", "what": "read", "variant": kind, "text": t})
    for _ in range(250 if quick else 4000):
        n = rng.choice([0, 1, 1, 2, 2, 3, 3, 4, 5, 6, 8])
        read_case("short_text_over_the_alphabet", "".join(rng.choice(KEY_GARBAGE) for _ in range(n)))
    if not wterms:
        return
    imp = "From PV Require Import Model.C07 Model.C07_Disp Model.C07_Key Gen.C07_KeyCfg."
    failing = ctx.coq_failing("keyw", imp, "", wterms, "key_write_check key_cfg", shard=400, ty="Z * bool * key1 * list key1 * option string")
    ctx.obligation("correspondence: the key-signature writer of the model (Model/C07_Key.v key_str: key lists indexed by fifths + 7, the three spellings, "
                   "alternative key, list form with components) = the formatters of matchfile_utils on %d objects" % len(wterms), not failing, failing[:5])
    for i in failing[:5]:
        ctx.violation("model and implementation disagree on the text of key signature %r in spelling %d: %r" % (wkept[i]["key"], wkept[i]["fmt"], wkept[i]["text"]), wkept[i])
    failing = ctx.coq_failing("keyr", imp, "", rterms, "key_read_check key_cfg", shard=400, ty="string * option (key1 * list key1)")
    ctx.obligation("correspondence: the key-signature reader of the model (key_from_string: interpret_as_list, the 0.1.0 form, plain 1.0.0 names before the "
                   "regular expression of the older formats searched with backtracking before the upper-case fallback, key_name_to_fifths_mode) = "
                   "interpret_as_key_signature on %d texts (fields, alternative, components; raises where the model fails)" % len(rterms), not failing, failing[:5])
    # the statement speaks of the key names in every historical spelling: the texts as written and plain 1.0.0 names with blanks
    # (theorem key_v1_text_fixpoint).  On other mode words, letter cases, doubled separators and texts that are no key at all a
    # disagreement is model drift (failed obligation), not a violation of the property.
    for i in [i for i in failing if rkept[i]["variant"].startswith("as_written") or rkept[i]["variant"] == "v1_blanks"][:5]:
        ctx.violation("model and implementation disagree on what the key signature text %r is read as" % rkept[i]["text"], rkept[i])


def gen():
    core.setup_import_path()
    S = schemas()
    rows = tabulate_keys()
    L = ["(* GENERATED by harness/props/c07.py from the working tree -- do not edit *)",
         "From Coq Require Import ZArith List String.", "From PV Require Import Model.C07.",
         "Import ListNotations.", "Open Scope string_scope.", "Open Scope Z_scope.", ""]
    L.append("(* (format, fifths, minor, text written by MatchKeySignature, (fifths, minor) parsed back from the text) *)")
    L.append("Definition key_rows : list (Z * Z * bool * option string * option (Z * bool)) := [\n  %s\n]." % ";\n  ".join(
        ctuple([cz(fmt), cz(f), cbool(mi), copt(t, cstr), copt(p, lambda p: ctuple([cz(p[0]), cbool(p[1])]))]) for fmt, f, mi, t, p in rows))
    L.append("Definition key_tab : keytab := [\n  %s\n]." % ";\n  ".join(
        ctuple([cz(fmt), cz(f), cbool(mi), cstr(t)]) for fmt, f, mi, t, p in rows if t is not None))
    names = []
    for (kind, ver), (nm, elems, fields) in sorted(S.items()):
        L.append("Definition %s : schema := [\n  %s\n]." % (nm, ";\n  ".join(elems)))
        names.append(nm)
    L.append("Definition all_schemas : list (string * schema) := [\n  %s\n]." % ";\n  ".join("(%s, %s)" % (cstr(n), n) for n in names))
    core.write_gen("C07_Schemas", "\n".join(L) + "\n")
    global _PARSERS
    _PARSERS = gen_parsers()
    gen_keycfg()
    return S, rows


_PARSERS = None


# ----------------------------------------------------------------------------
# generators (schema driven: one value per reflected field, by codec and field name)

ATTRS = ["v1", "v2", "staff1", "staff2", "s", "stacc", "grace", "arp", "fermata", "leftOutTied", "trill", "diff_score_version"]
WORDS = ["lento", "ma", "non", "troppo", "allegro", "assai", "beat", "downbeat", "end", "fine", "volta", "repeat"]
ID_CHARS = string.ascii_letters + string.digits + "-_#."


# texts by which the parsers of the ordered lists recognise their kind of line, and other words of the
# format: inside an identifier they may not change what a line is read as
MARKERS = ["insertion-", "hammer_bounce-", "trailing_played_note-", "-deletion.", "-trailing_score_note.", "-no_played_note.",
           "note", "snote", "-note", "trill", "ornament", "sustain", "soft", "info", "meta", "stime", "ptime", "deletion"]


def g_marker_ident(rng, m=None):
    m = m or rng.choice(MARKERS)
    pre = rng.choice(["", "", "n", "x", str(rng.randint(1, 99))])
    post = rng.choice(["", "", str(rng.randint(1, 99)), "b"])
    if pre == "" and m[0] in "-":
        pre = rng.choice(["a", "n1", "7"])
    return pre + m + post


def g_ident(rng):
    r = rng.random()
    if r < 0.06:
        return g_marker_ident(rng)
    if r < 0.4:
        return "n%d" % rng.randint(0, 2000)
    if r < 0.55:
        return "%d-%d" % (rng.randint(1, 2000), rng.randint(1, 3))
    if r < 0.7:
        return str(rng.randint(0, 5000))
    return rng.choice(string.ascii_letters + string.digits) + "".join(rng.choice(ID_CHARS) for _ in range(rng.randint(0, 7)))


def g_text(rng, commas=True):
    ws = []
    for _ in range(rng.randint(1, 4)):
        w = rng.choice(["Etude", "Op.", "10", "No.", "3", "A.", "Human", "op10_3_1#18.mid", "/path/to/x.musicxml", "it's", "(live)", "a,b" if commas else "ab", "Pianist"])
        ws.append(w)
    return " ".join(ws)


def g_simple_frac(rng, small=False):
    r = rng.random()
    if small or r < 0.75:
        n = rng.choice([0, 1, 1, 1, 2, 3, 5, 7, rng.randint(0, 64)])
        d = rng.choice([1, 2, 4, 4, 8, 8, 16, 32, 64, 3, 6, 12, 24, 48, 96, 128, 5, 7, rng.randint(1, 130)])
    elif r < 0.92:
        n = rng.choice([1, rng.randint(1020, 1030), rng.randint(1, 64)])
        d = rng.choice([rng.randint(1020, 1030), 1024, rng.randint(1, 64)])
    else:
        n = rng.randint(1, 5000)
        d = rng.randint(1, 5000)
    td = None if rng.random() < 0.7 else rng.choice([2, 3, 5, 6, 7])
    if small and td is not None and d * td > 1024:
        td = None
    return [n, d, td]


def g_frac(rng, rat=False):
    if rng.random() < 0.7:
        return ["frac", g_simple_frac(rng)]
    while True:
        comps = []
        for _ in range(rng.choice([2, 2, 3])):
            c = g_simple_frac(rng, small=True)
            c[0] = max(1, c[0])
            comps.append(c)
        if not rat:
            return ["fracsum", comps]
        s = to_py(["fracsum", comps])
        if not (s.denominator == 1):
            return ["fracsum", comps]


def g_float_fix(rng, d):
    r = rng.random()
    scale = 10 ** d
    if r < 0.55:
        k = rng.choice([0, rng.randint(0, 4 * scale), rng.randint(0, 400 * scale), rng.randint(0, 10 ** 7) * 100])
        x, grid = k / scale, True
    elif r < 0.7:
        x, grid = rng.randint(0, 2000) / 4.0, True
    elif r < 0.85:  # decimal boundary x.xxxx5: not representable, lands just below or above
        x, grid = (2 * rng.randint(0, 400 * scale) + 1) / (2 * scale), False
    elif r < 0.95:  # exact binary ties
        x, grid = (2 * rng.randint(0, 4000) + 1) / 2.0 ** (d + 1), False
    else:
        x, grid = rng.random() * rng.choice([1, 100, 10000]), False
    if rng.random() < 0.2:
        x = -x
    if x == 0:
        x = 0.0
    return ["float", float(x).hex(), grid]


def g_float_tok(rng):
    r = rng.random()
    if r < 0.4:
        x = rng.randint(-8, 2000) / 4.0
    elif r < 0.6:
        x = rng.randint(-100, 100000) / 10000.0
    elif r < 0.8:
        x = rng.random() * rng.choice([1, 100, 10000])
    else:
        x = rng.choice([1 / 3, 1e-05, 2 / 3, 1234567.125, 34.0, -1.5, 0.1 + 0.2])
    return ["float", float(x if x != 0 else 0.0).hex(), True]


def g_key1(rng, alt_ok):
    f, mi = rng.randint(-7, 7), rng.random() < 0.5
    if alt_ok and rng.random() < 0.5:
        return [f, mi, rng.randint(-7, 7), rng.random() < 0.5]
    return [f, mi, None, None]


def g_field(rng, kind, fld, state):
    """Tagged value of one field."""
    c, n, owner = fld.codec, fld.name, fld.owner
    base, _, attr = kind.partition(":")
    pitch = state.setdefault(("pitch", owner), None)
    if pitch is None:
        is_snote = owner == "snote" or (owner is None and base == "snote")
        if is_snote and rng.random() < 0.12:
            pitch = ("R", None, None)
        else:
            alt = rng.choice([0, 0, 1, -1, 2, -2, None]) if not is_snote else rng.choice([0, 0, 1, -1, 2, -2])
            pitch = (rng.choice("ABCDEFG"), alt, rng.choice([-1, 0, 1, 2, 3, 4, 4, 5, 6, 7, 8, 9]))
        state[("pitch", owner)] = pitch
    if n == "Attribute":
        return ["str", attr]
    if c in ("CNoteUp", "CNoteLow"):
        return ["str", pitch[0]]
    if c == "CAcc":
        return ["none"] if pitch[1] is None else ["int", pitch[1]]
    if c == "COct":
        return ["none"] if pitch[2] is None else ["int", pitch[2]]
    if c == "CInt":
        if n == "Measure":
            return ["int", rng.choice([rng.randint(-1, 3), rng.randint(0, 400)])]
        if n == "Beat":
            return ["int", rng.randint(0, 16)]
        if n in ("Velocity", "MidiPitch") or (n == "Value" and base in ("sustain", "soft")):
            return ["int", rng.choice([0, 1, 63, 64, 127, rng.randint(0, 127)])]
        if n in ("Channel", "Track"):
            return ["int", rng.randint(0, 16)]
        return ["int", rng.choice([0, rng.randint(0, 1000), rng.randint(0, 10 ** 7), 10 ** rng.randint(1, 9)])]
    d = fix_digits(c)
    if d is not None:
        return g_float_fix(rng, d)
    if c == "CTok":
        return g_float_tok(rng)
    if c == "CStr":
        if isinstance_tempo(kind):
            return ["tempo", " ".join(rng.choice(WORDS) for _ in range(rng.randint(1, 4)))]
        if fld.kind == "any" and base == "info" and attr != "partSequence":
            return ["str", g_text(rng)]
        return ["str", g_ident(rng)]
    if c == "CStrOld":
        return ["str", g_text(rng)]
    if c in ("CList", "CListIn"):
        k = rng.choice([0, 1, 1, 2, 2, 3, 4, 5])
        if n == "Onsets" or attr == "tempoIndication":
            k = max(k, 1)  # an indication without words has no 1.0.0 form
        if fld.kind == "in":
            pool = [w for w in WORDS + ATTRS if all(ch in fld.chars for ch in w)]
        elif attr in ("beatSubDivision", "beatSubdivision"):
            pool = ["2", "3", "4", "6", "8"]
        elif base == "info" or attr == "directions":
            pool = WORDS + ["poco a poco", "2", "4"]
        else:
            pool = ATTRS + [g_ident(rng)]
        return ["list", [rng.choice(pool) for _ in range(k)]]
    if c in ("CListInt", "CListIntIn"):
        k = rng.choice([0, 1, 1, 2, 3, 5]) if n != "Onsets" else rng.choice([1, 1, 2, 3, 5])
        return ["listint", [rng.choice([rng.randint(0, 12), rng.randint(0, 10 ** 7)]) for _ in range(k)]]
    if c in ("CFrac", "CFracRat"):
        return g_frac(rng, rat=(c == "CFracRat"))
    if c.startswith("(CKey"):
        fmt, aslist = c[1:-1].split()[1:]
        others = [g_key1(rng, True) for _ in range(rng.choice([0, 0, 1, 2]))] if aslist == "true" else []
        return ["key", g_key1(rng, fmt != "0"), others]
    if c.startswith("(CTime"):
        others = [[rng.choice([2, 3, 4, 6]), rng.choice([2, 4, 8]), None] for _ in range(rng.choice([0, 0, 1, 3]))] if "true" in c else []
        n_ = rng.choice([2, 3, 4, 6, 9, 12, rng.randint(1, 64), rng.choice([1023, 1024])])
        return ["time", n_, rng.choice([1, 2, 4, 8, 16, 32, 64, 128]), others]
    if c == "CVersion":
        return ["version"] + list(state["ver"])
    if c == "CUnknown":
        # the formatter behaves like no codec of the model (already reported): still produce values by the
        # field's declared type so that the direct oracle can name a concrete line that does not survive
        t = getattr(fld, "ftype", None)
        ts = t if isinstance(t, tuple) else (t,)
        L0, L1, U, B, IM = mods()
        if float in ts:
            return ["float", float(rng.randint(0, 4000000) / 10000.0).hex(), True]
        if U.FractionalSymbolicDuration in ts:
            return g_frac(rng)
        if int in ts:
            return ["int", rng.randint(0, 1000)]
        if str in ts:
            return ["str", g_ident(rng)]
        if list in ts:
            return ["list", [rng.choice(ATTRS) for _ in range(rng.choice([0, 1, 2, 3]))]]
    raise ValueError("no generator for codec %s (field %s of %s)" % (c, n, kind))


def isinstance_tempo(kind):
    return kind == "scoreprop:tempoIndication"


def g_line(rng, kind, ver):
    nm, elems, fields = schemas()[(kind, ver)]
    state = {"ver": ver}
    return {"kind": kind, "ver": list(ver), "fields": [[f.owner, f.name, g_field(rng, kind, f, state)] for f in fields]}


# ----------------------------------------------------------------------------
# running one line: implementation, direct oracle, model case


def py_bound_risky(n, d):
    """Mirror of Model.C07.bound_risky: exact model and float64 bound_integers may disagree."""
    if n <= 1024 and d <= 1024:
        return False
    dens = [2, 3, 4, 5, 6, 7, 8, 9, 10, 12, 14, 16, 18, 20, 22, 24, 28, 32, 48, 64, 96, 128]
    val = Fraction(n, d)
    eps = Fraction(1, 10 ** 6)
    xs = [val * den for den in dens]
    if any(abs((x - math.floor(x)) - Fraction(1, 2)) <= eps for x in xs):
        return True

    def rhe(x):
        f = math.floor(x)
        r = x - f
        return f if r < Fraction(1, 2) else f + 1 if r > Fraction(1, 2) else (f if f % 2 == 0 else f + 1)
    dif = [abs(rhe(x) - x) if rhe(x) >= 1 else abs(1 - x) for x in xs]
    i = dif.index(min(dif))
    return any(j != i and abs(dif[j] - dif[i]) <= eps for j in range(len(dif)))


def frac_objs(v):
    L0, L1, U, B, IM = mods()
    if isinstance(v, U.FractionalSymbolicDuration):
        return [v]
    if isinstance(v, U.MatchTimeSignature):
        return list(v.other_components or [])
    return []


def sub_of(o, owner):
    return o if owner is None else getattr(o, owner)


def quiet_call(f, *a, **k):
    buf = io.StringIO()
    with contextlib.redirect_stdout(buf):
        return f(*a, **k)


def field_equal(a, b, fld, tagged):
    """The property's 'equal fields' on the implementation's objects."""
    d = fix_digits(fld.codec)
    try:
        if d is not None:
            if tagged[2]:
                return Fraction(float(b)) == Fraction(float(a))
            return float(b) == float("%.*f" % (d, a))
        if fld.codec == "CTok":
            return Fraction(float(b)) == Fraction(float(a))
        if fld.codec in ("CFrac", "CFracRat"):
            return bool(a == b) and not bool(a != b)
        if fld.codec == "CStr" and tagged[0] == "tempo":
            return type(a) is type(b) and a.value == b.value
        return bool(a == b)
    except Exception:
        return False


def run_line(ctx, spec, terms, kept):
    """Build, write, parse (class level and file level), write again; direct oracle; append the model case."""
    L0, L1, U, B, IM = mods()
    kind, ver = spec["kind"], tuple(spec["ver"])
    V = U.Version(*ver)
    nm, elems, fields = schemas()[(kind, ver)]
    vals = {(o, n): to_py(t) for o, n, t in spec["fields"]}
    tags = {(o, n): t for o, n, t in spec["fields"]}
    try:
        obj = construct(kind, ver, vals)
    except Exception as e:
        ctx.violation("cannot construct %s %s: %r" % (kind, ver, e), dict(spec, what="construct"))
        return None
    ctx.evaluations += 1
    try:
        text = obj.matchline
    except Exception as e:
        ctx.violation("%s %s cannot be written: %r" % (kind, ver, e), dict(spec, what="format"))
        return obj
    if not all(32 <= ord(ch) < 127 for ch in text):
        ctx.violation("%s %s writes non-ASCII text %r" % (kind, ver, text), dict(spec, what="format", text=text))
        return obj
    parsers = [("class", lambda: type(obj).from_matchline(text, version=V))]
    if kind.partition(":")[0] not in FILE_LEVEL_EXCLUDED:
        methods = IM.FROM_MATCHLINE_METHODSV1 if V >= U.Version(1, 0, 0) else IM.FROM_MATCHLINE_METHODSV0
        parsers.append(("file", lambda: IM.parse_matchline(text, methods, V)))
        if ":" not in kind or "marker" in spec or spec.get("nth", 0) % 4 == 0 or ctx.tier != "quick":
            dispatch_observation(ctx, ver, text, spec)  # (quick: every 4th line of an info / meta / scoreprop attribute)
    parsed = None
    for pname, pf in parsers:
        try:
            p = quiet_call(pf)
        except Exception as e:
            ctx.violation("%s %s: text %r is not parsed back (%s level): %r" % (kind, ver, text, pname, e), dict(spec, what="parse", text=text, level=pname))
            return obj
        if p is None or type(p) is not type(obj):
            ctx.violation("%s %s: text %r parses to %s (%s level), not to the same kind" % (kind, ver, text, type(p).__name__, pname),
                          dict(spec, what="kind", text=text, level=pname, got=type(p).__name__))
            return obj
        for f in fields:
            try:
                a, b = getattr(sub_of(obj, f.owner), f.name), getattr(sub_of(p, f.owner), f.name)
            except Exception as e:
                a, b = None, e
            if not field_equal(a, b, f, tags[(f.owner, f.name)]):
                ctx.violation("%s %s: field %s changes through text %r: %r -> %r (%s level)" % (kind, ver, f.name, text, str(a), str(b), pname),
                              dict(spec, what="field", field=f.name, text=text, level=pname, got=str(b)))
                return obj
        try:
            text2 = p.matchline
        except Exception as e:
            text2 = "<%r>" % (e,)
        if text2 != text:
            ctx.violation("%s %s: second-round text differs: %r then %r (%s level)" % (kind, ver, text, text2, pname),
                          dict(spec, what="fixpoint", text=text, text2=text2, level=pname))
            return obj
        parsed = p
    obj._c07_case = (None, parsed, text)
    if any(f.codec == "CUnknown" for f in fields):
        ctx.count("model:skipped_unknown_codec")
        return obj
    # model case
    risky = False
    for f in fields:
        for fo in frac_objs(getattr(sub_of(parsed, f.owner), f.name)) + frac_objs(getattr(sub_of(obj, f.owner), f.name)):
            if py_bound_risky(int(fo.numerator), int(fo.denominator)):
                risky = True
        t = tags[(f.owner, f.name)]
        if t[0] == "fracsum":  # the intermediate sums of the re-parse, in the library's own (unreduced) lcm form
            log = []
            ref_parse("+".join(ref_str3(*c) for c in t[1]), log)
            if any(e[0] == "hidden" or py_bound_risky(e[1], e[2]) for e in log):
                risky = True
        elif t[0] == "time":
            for c in t[3]:
                if py_bound_risky(c[0], c[1]):
                    risky = True
    if risky:
        ctx.count("model:skipped_bound_near_tie")
        return obj
    try:
        vin = [c_value(getattr(sub_of(obj, f.owner), f.name), f.codec, False) for f in fields]
        vout = [c_value(getattr(sub_of(parsed, f.owner), f.name), f.codec, True) for f in fields]
    except Mismatch as e:
        ctx.violation("%s %s: parsed field has the wrong shape: %s (text %r)" % (kind, ver, e, text), dict(spec, what="shape", text=text))
        return obj
    if "marker" in spec:  # these lines are about the dispatch (disp_check); the codec model sees the other lines
        return obj
    terms.append([nm, clist(vin), cstr(text), clist(vout), None])  # the texts after the read-only uses are filled in by run_uses
    kept.append(dict(spec, text=text))
    obj._c07_case = (terms[-1], parsed, text)
    return obj


# ----------------------------------------------------------------------------
# line dispatch and version detection (Model/C07_Disp.v)

DISP_TERMS, DISP_KEPT = [], []


def c_version(v):
    return "(%s, %s, %s)" % (cz(v[0]), cz(v[1]), cz(v[2]))


def observe_dispatch(ver, text):
    """What importmatch.parse_matchline does with a text: None, or (index of the method of the ordered
    list whose class the returned object has, the object)."""
    L0, L1, U, B, IM = mods()
    V = U.Version(*ver)
    methods = IM.FROM_MATCHLINE_METHODSV1 if V >= U.Version(1, 0, 0) else IM.FROM_MATCHLINE_METHODSV0
    p = quiet_call(IM.parse_matchline, text, methods, V)
    if p is None:
        return None
    classes = [m.__self__ for m in methods]
    return classes.index(type(p)), p


def dispatch_observation(ctx, ver, text, rep):
    """Append the Coq case (version, text, observed method index and field values in the order of the
    groups of that method's patterns) for disp_check."""
    try:
        obs = observe_dispatch(ver, text)
        if obs is None:
            term = "None"
        else:
            idx, p = obs
            cname, steps, groups, kinds = _PARSERS[ver][idx]
            k2 = kind_of_object(p, ver)
            if k2 is None:
                raise Mismatch("object of class %s is no line of %s" % (type(p).__name__, ver))
            cods = group_codecs(k2, ver, groups)
            for (o, n) in groups:  # float64 bound_integers near a tie: the exact-rational model is not applicable (as for check_case)
                for fo in frac_objs(getattr(sub_of(p, o), n)):
                    log = []
                    if fo.add_components is not None:
                        ref_parse(str(fo), log)
                    if py_bound_risky(int(fo.numerator), int(fo.denominator)) or any(e[0] == "hidden" or py_bound_risky(e[1], e[2]) for e in log):
                        raise Mismatch("bound near-tie")
            vals = [c_value(getattr(sub_of(p, o), n), c, True) for (o, n), c in zip(groups, cods)]
            term = "(Some (%s, %s))" % (cnat(idx), clist(vals))
    except Mismatch as e:
        ctx.count("dispatch:model_skipped(%s)" % ("bound near-tie" if "near-tie" in str(e) else "value of unexpected shape"))
        return
    except Exception as e:
        ctx.count("dispatch:observation_raises")
        ctx.violation("parse_matchline raises on %r: %r" % (text, e), dict(rep, what="dispatch", text=text))
        return
    DISP_TERMS.append("(%s, %s, %s)" % (c_version(ver), cstr(text), term))
    DISP_KEPT.append(dict(rep, what="dispatch_model", text=text))


def id_fields(kind, ver):
    nm, elems, fields = schemas()[(kind, ver)]
    return [(f.owner, f.name) for f in fields if f.codec == "CStr" and f.name in ("Anchor", "Id")]


def marker_specs(rng, thorough):
    """Small-scope sweep: every line kind x format version (file level) x every text by which SOME parser
    recognises its kind of line (and other words of the format), put inside an identifier of the line:
    one identifier field chosen at random (quick) or each of them in turn (thorough)."""
    out = []
    for kind, ver in sorted(schemas().keys()):
        if kind.partition(":")[0] in FILE_LEVEL_EXCLUDED:
            continue
        ids = id_fields(kind, ver)
        if not ids:
            continue
        for m in (MARKERS if thorough else MARKERS[:11]):
            for target in (ids if thorough else [rng.choice(ids)]):
                spec = g_line(rng, kind, ver)
                for fld in spec["fields"]:
                    if (fld[0], fld[1]) == target:
                        fld[2] = ["str", g_marker_ident(rng, m)]
                spec["marker"] = m
                out.append(spec)
    return out


def expected_lines(objs):
    """What load_matchfile keeps of a file: the first occurrence of every distinct non-empty line."""
    seen, out = set(), []
    for o in objs:
        if o is None:
            continue
        t = o.matchline
        if t not in seen:
            seen.add(t)
            out.append(o)
    return out


def run_files(ctx, good, n_per_version):
    """Whole files: a version line (0.1.0 also without), lines of every kind of that version with unique
    note ids, some lines twice, some empty lines; written with MatchFile.write, read with load_matchfile:
    version detected from the first line, every distinct line back in order with its kind and text."""
    import os
    import warnings
    L0, L1, U, B, IM = mods()
    rng = ctx.rng
    terms, kept = [], []
    by_ver = {}
    for spec in good:
        if spec["kind"].partition(":")[0] not in FILE_LEVEL_EXCLUDED and spec["kind"] != "info:matchFileVersion":
            by_ver.setdefault(tuple(spec["ver"]), []).append(spec)
    for ver in V0S + [V1]:
        pool = by_ver.get(ver, [])
        if not pool:
            continue
        V = U.Version(*ver)
        for fno in range(n_per_version):
            chosen = [rng.choice(pool) for _ in range(rng.randint(6, 18))]
            with_version_line = not (ver == (0, 1, 0) and fno % 2 == 1)
            specs = []
            if with_version_line:
                specs.append({"kind": "info:matchFileVersion", "ver": list(ver), "fields": [[None, "Attribute", ["str", "matchFileVersion"]], [None, "Value", ["version"] + list(ver)]]})
            elif rng.random() < 0.7:  # a file of the first version that starts with some other info line
                infos = [sp for sp in pool if sp["kind"].startswith("info:")]
                if infos:
                    specs.append(rng.choice(infos))
            for k, sp in enumerate(chosen):
                sp = json.loads(json.dumps(sp))
                for fld in sp["fields"]:
                    if fld[1] in ("Anchor", "Id") and fld[2][0] == "str":
                        fld[2][1] = "%su%d" % (fld[2][1], k)  # unique ids (duplicate ids are another matter: validate_match_ids)
                specs.append(sp)
            rep = {"kind": "file", "ver": list(ver), "lines": specs}
            try:
                objs = [construct(sp["kind"], tuple(sp["ver"]), {(o, n): to_py(t) for o, n, t in sp["fields"]}) for sp in specs]
                for _ in range(rng.choice([0, 1, 2])):  # the same line twice
                    objs.insert(rng.randint(1, len(objs)), rng.choice(objs))
                path = os.path.join(ctx.work, "c07_file_%s_%d.match" % (vname(ver), fno))
                B.MatchFile(objs).write(path)
                texts = open(path).read().split("\n")[:-1]
                layout = list(objs)
                for _ in range(rng.choice([0, 1, 3])):  # empty lines (never the first line)
                    k = rng.randint(1, len(texts))
                    texts.insert(k, "")
                    layout.insert(k, None)
                with open(path, "w") as f:
                    f.write("\n".join(texts) + "\n")
            except Exception as e:
                ctx.violation("a match file of version %s cannot be written: %r" % (ver, e), rep)
                continue
            ctx.evaluations += 1
            ctx.count("files:%s" % ".".join(map(str, ver)))
            ctx.count("files:lines", len(texts))
            if not with_version_line:
                ctx.count("files:0.1.0_without_version_line")
            ctx.nontrivial(("file", json.dumps(texts)))
            try:
                with warnings.catch_warnings():
                    warnings.simplefilter("ignore")
                    got_version = quiet_call(IM.get_version, texts[0])
                    mf = quiet_call(IM.load_matchfile, path)
                got = list(mf.lines)
            except Exception as e:
                ctx.violation("load_matchfile raises on a file of version %s written by MatchFile.write (first line %r): %r" % (ver, texts[0], e),
                              dict(rep, texts=texts))
                continue
            finally:
                try:
                    os.remove(path)
                except OSError:
                    pass
            want = expected_lines(layout)
            bad = None
            try:  # the order of the lines of a file is not what this property is about: compare line by line, whatever the order
                by_text = {}
                for g in got:
                    by_text.setdefault(g.matchline, []).append(g)
                got_sorted = [by_text[w.matchline].pop(0) if by_text.get(w.matchline) else None for w in want]
                extra = [g for gs in by_text.values() for g in gs]
            except Exception as e:
                got_sorted, extra = [None] * len(want), []
                bad = "a line object read from the file cannot be written: %r" % (e,)
            if bad:
                pass
            elif tuple(got_version) != ver:
                bad = "version detected from the first line %r is %s, the file has version %s" % (texts[0], tuple(got_version), ver)
            elif None in got_sorted or extra:
                k = got_sorted.index(None) if None in got_sorted else None
                bad = ("%d distinct lines written, %d line objects read; " % (len(want), len(got))) + (
                    "line %r is not read back with this text (it is dropped or comes back as another line)" % want[k].matchline if k is not None
                    else "line %r was not written" % extra[0].matchline)
            else:
                got = got_sorted
                for w, g in zip(want, got):
                    if type(g) is not type(w) or tuple(g.version) != ver:
                        bad = "line %r is read as %s of version %s, written as %s" % (w.matchline, type(g).__name__, tuple(g.version), type(w).__name__)
                        break
                    if g.matchline != w.matchline:
                        bad = "line %r is read and written again as %r" % (w.matchline, g.matchline)
                        break
            if bad:
                ctx.violation("match file of version %s: %s" % (".".join(map(str, ver)), bad), dict(rep, texts=texts))
                continue
            methods = IM.FROM_MATCHLINE_METHODSV1 if V >= U.Version(1, 0, 0) else IM.FROM_MATCHLINE_METHODSV0
            classes = [m.__self__ for m in methods]
            try:
                kinds = [classes.index(type(g)) for g in got]
            except ValueError:
                continue
            terms.append("(%s, %s, %s)" % (clist(cstr(t) for t in texts), c_version(got_version), clist(cnat(k) for k in kinds)))
            kept.append(dict(rep, texts=texts, what="file_model"))
    failing = [] if not terms else ctx.coq_failing("files", "From PV Require Import Model.C07 Model.C07_Disp Gen.C07_Schemas Gen.C07_Parsers.", "", terms,
                              "file_check key_tab version_pat old_version_pat version_infos parser_table", shard=40)
    ctx.obligation("correspondence: model load_lines (version from the first line, empty and repeated lines dropped, every line dispatched over the "
                   "ordered parser list of that version) = load_matchfile on %d written files" % len(terms), not failing, failing[:5])
    for i in failing[:3]:
        ctx.violation("model and implementation disagree on which lines of a file are read by which parser", kept[i])


VERSION_TEXTS = ["1.0.0", "0.5.0", "0.1.0", "5.0", "1.0", "0.3", "10.20.30", "1.2.3.4", "1.2.3x", "1.0.0)", "x1.2.3", " 1.2.3", "01.02.03", "1.2", "1", "",
                 "1..2", ".1.2", "1.2.", "1.2.x", "a.b.c", "1,2,3", "0.0.0", "12", "3.", "1.0.0 ", "2.0rc1"]


def run_versions(ctx, info_texts):
    """interpret_version on version texts; get_version on first lines (every generated info line, version lines
    of all shapes, lines that are no info lines)."""
    L0, L1, U, B, IM = mods()
    rng = ctx.rng
    texts = list(VERSION_TEXTS)
    for _ in range(60 if ctx.tier == "quick" else 1500):
        a, b, c = (rng.choice([0, 1, 2, 5, 10, rng.randint(0, 99), rng.randint(0, 10 ** 6)]) for _ in range(3))
        r = rng.random()
        texts.append("%d.%d.%d" % (a, b, c) if r < 0.5 else "%d.%d" % (b, c) if r < 0.7 else
                     "%d.%d.%d%s" % (a, b, c, rng.choice(["a", ".7", " ", "-rc", ")"])) if r < 0.85 else
                     "%s%d.%d" % (rng.choice(["v", " ", "."]), a, b))
    terms, kept = [], []
    for t in texts:
        try:
            v = U.interpret_version(t)
            obs = tuple(int(x) for x in v)
        except ValueError:
            obs = None
        except Exception as e:
            ctx.violation("interpret_version(%r) raises %r" % (t, e), {"kind": "version_text", "text": t})
            continue
        ctx.evaluations += 1
        m = re.fullmatch(r"(\d+)\.(\d+)\.(\d+)", t)
        m2 = re.fullmatch(r"(\d+)\.(\d+)", t)
        want = tuple(int(x) for x in m.groups()) if m else ((0,) + tuple(int(x) for x in m2.groups()) if m2 else "any")
        if want != "any" and obs != want:
            ctx.count("versions:oracle_complaints")
            if ctx.counts["versions:oracle_complaints"] <= 5:
                ctx.violation("interpret_version(%r) = %r, expected %r" % (t, obs, want), {"kind": "version_text", "text": t})
            continue
        if m and U.format_version(U.Version(*obs)) != "%d.%d.%d" % obs:
            ctx.violation("format_version(%r) = %r" % (obs, U.format_version(U.Version(*obs))), {"kind": "version_text", "text": t})
            continue
        ctx.nontrivial(("vtext", t))
        terms.append("(%s, %s)" % (cstr(t), copt(obs, c_version)))
        kept.append({"kind": "version_text", "text": t, "what": "model", "in_spec": want != "any"})
    failing = [] if not terms else ctx.coq_failing("iver", "From PV Require Import Model.C07 Model.C07_Disp Gen.C07_Parsers.", "", terms,
                              "interpret_version_check version_pat old_version_pat")
    ctx.obligation("correspondence: model interpret_version (the two reflected patterns, matched at the start, greedy digit groups) = "
                   "matchfile_utils.interpret_version on %d texts (canonical, pre-1.0 form, trailing text, malformed)" % len(terms), not failing, failing[:5])
    for i in failing[:3]:
        if kept[i]["in_spec"]:  # on malformed texts a disagreement is model drift (failed obligation), not a violation
            ctx.violation("model and implementation disagree on interpret_version(%r)" % kept[i]["text"], kept[i])
    # get_version
    firsts = []
    for ver in V0S + [V1]:
        firsts.append(("info(matchFileVersion,%d.%d.%d)." % ver, ver))
        firsts.append(("info(matchFileVersion,%d.%d)." % ver[1:], (0,) + ver[1:]))
    firsts += [("", (0, 1, 0))]
    firsts += [(t, None) for t in info_texts]
    terms, kept = [], []
    for t, want in firsts:
        try:
            got = tuple(int(x) for x in quiet_call(IM.get_version, t))
        except Exception as e:
            ctx.count("get_version:oracle_complaints")
            if ctx.counts["get_version:oracle_complaints"] <= 5:
                ctx.violation("get_version(%r) raises %r (a first line that is no version line means version 0.1.0)" % (t, e), {"kind": "first_line", "text": t})
            continue
        ctx.evaluations += 1
        if want is None:
            m = re.fullmatch(r"info\(matchFileVersion,(\d+)\.(\d+)\.(\d+)\)\.", t)
            want = tuple(int(x) for x in m.groups()) if m else (0, 1, 0)
        if got != want:
            ctx.count("get_version:oracle_complaints")
            if ctx.counts["get_version:oracle_complaints"] <= 5:
                ctx.violation("get_version(%r) = %s, expected %s" % (t, got, want), {"kind": "first_line", "text": t})
            continue
        ctx.nontrivial(("first", t))
        ctx.count("get_version:version_line" if "matchFileVersion" in t else "get_version:other_first_line")
        terms.append("(%s, %s)" % (cstr(t), c_version(got)))
        kept.append({"kind": "first_line", "text": t, "what": "model"})
    failing = [] if not terms else ctx.coq_failing("getver", "From PV Require Import Model.C07 Model.C07_Disp Gen.C07_Parsers.", "", terms,
                              "get_version_check version_pat old_version_pat version_infos", shard=1500)
    ctx.obligation("correspondence: model get_version = importmatch.get_version on %d first lines (version lines of every version and shape, every "
                   "generated info line, other lines)" % len(terms), not failing, failing[:5])
    for i in failing[:3]:
        ctx.violation("model and implementation disagree on get_version(%r)" % kept[i]["text"], kept[i])


# ----------------------------------------------------------------------------
# O3: to_v1 keeps kind and musical content

BASE_PC = {"C": 0, "D": 2, "E": 4, "F": 5, "G": 7, "A": 9, "B": 11}
V1_KIND = {"snote_note": "MatchSnoteNote", "deletion": "MatchSnoteDeletion", "trailing_score": "MatchSnoteDeletion",
           "no_played": "MatchSnoteDeletion", "insertion": "MatchInsertionNote", "hammer_bounce": "MatchInsertionNote",
           "trailing_played": "MatchInsertionNote", "trill": "MatchOrnamentNote", "sustain": "MatchSustainPedal",
           "soft": "MatchSoftPedal", "meta": "MatchScoreProp"}
SNOTE_CONTENT = ["Anchor", "NoteName", "Modifier", "Octave", "Measure", "Beat", "Offset", "Duration", "OnsetInBeats",
                 "OffsetInBeats", "ScoreAttributesList"]


TO_V1_MODEL = {"snote_note": ("KSnoteNote", "snote_note"), "deletion": ("KSnoteOnly", "deletion"), "trailing_score": ("KSnoteOnly", "deletion"),
               "no_played": ("KSnoteOnly", "deletion"), "insertion": ("KNoteOnly", "insertion"), "hammer_bounce": ("KNoteOnly", "insertion"),
               "trailing_played": ("KNoteOnly", "insertion"), "trill": ("KTrill", "ornament"), "sustain": ("KPedal", "sustain"), "soft": ("KPedal", "soft")}


def c_plain(v):
    """Coq `value` of a field value by its Python type (independent of how a version writes it)."""
    L0, L1, U, B, IM = mods()
    if v is None:
        return "VNone"
    if isinstance(v, bool):
        raise Mismatch("a bool: %r" % (v,))
    if isinstance(v, int) or (hasattr(v, "dtype") and int(v) == v and "int" in str(v.dtype)):
        return "(VInt %s)" % cz(int(v))
    if isinstance(v, float):
        if v != v or v in (float("inf"), float("-inf")):
            raise Mismatch("non-finite float")
        return "(VQ %s %s)" % (cbool(math.copysign(1.0, v) < 0), cq(abs(Fraction(v))))
    if isinstance(v, str):
        return "(VStr %s)" % cstr(v)
    if isinstance(v, list) and all(isinstance(x, str) for x in v):
        return "(VList %s)" % clist([cstr(x) for x in v])
    if isinstance(v, U.FractionalSymbolicDuration):
        return "(VFrac %s)" % c_frac(v)
    raise Mismatch("no plain value for %r" % (v,))


UP_TERMS, UP_KEPT = [], []


def c_any(v):
    """Coq `value` of a field value of an info / meta / scoreprop line by its Python type (a float as the
    unconstrained formatter of the old versions writes it)."""
    L0, L1, U, B, IM = mods()
    if isinstance(v, U.MatchTempoIndication):
        return "(VStr %s)" % cstr(v.value)
    if isinstance(v, U.Version):
        return "(VVersion %s %s %s)" % (cz(v[0]), cz(v[1]), cz(v[2]))
    if isinstance(v, U.MatchKeySignature):
        return "(VKey %s %s)" % (c_key1(v), clist([c_key1(o) for o in v.other_components]))
    if isinstance(v, U.MatchTimeSignature):
        return "(VTime %s %s %s)" % (cz(int(v.numerator)), cz(int(v.denominator)), clist([c_frac(o) for o in (v.other_components or [])]))
    if isinstance(v, float):
        if v != v or v in (float("inf"), float("-inf")):
            raise Mismatch("non-finite float")
        return "(VStr %s)" % cstr(repr(v))
    if isinstance(v, list) and v and all(isinstance(x, int) and not isinstance(x, bool) for x in v):
        return "(VListInt %s)" % clist([cz(x) for x in v])
    return c_plain(v)


def up_observation(ctx, spec, obj, q):
    """Coq case for check_up: the old info / meta line and what to_v1 made of it (q None: it raised)."""
    base, _, attr = spec["kind"].partition(":")
    try:
        if q is None:
            obs = "None"
        elif type(q).__name__ == "MatchInfo":
            obs = "(Some (L1Info %s (Some %s)))" % (cstr(q.Attribute), c_any(q.Value))
        else:
            obs = "(Some (L1ScoreProp %s (Some %s) %s %s %s %s))" % (cstr(q.Attribute), c_any(q.Value), cz(int(q.Measure)), cz(int(q.Beat)),
                                                                   c_frac(q.Offset), c_any(q.TimeInBeats))
        meta = base == "meta"
        term = "(%s, %s, %s, (%s, %s), %s)" % (cbool(meta), cstr(obj.Attribute), c_any(obj.Value),
                                               cz(int(obj.Measure)) if meta else "0", c_any(obj.TimeInBeats) if meta else "VNone", obs)
    except (Mismatch, AttributeError, TypeError, ValueError) as e:
        ctx.count("to_v1:info_meta_model_skipped(value of unexpected shape)")
        return
    UP_TERMS.append(term)
    UP_KEPT.append(dict(spec, what="to_v1_model"))


def run_to_v1(ctx, spec, obj, pitch_terms, pitch_kept):
    L0, L1, U, B, IM = mods()
    kind = spec["kind"]
    base, _, attr = kind.partition(":")
    if base in ("snote", "note"):
        return
    V = U.Version(1, 0, 0)
    expect = V1_KIND.get(base)
    if base == "info":
        a1 = L1.INFO_ATTRIBUTE_EQUIVALENCES.get(attr, attr)
        a2 = L1.SCOREPROP_ATTRIBUTE_EQUIVALENCES.get(attr, attr)
        expect = "MatchInfo" if a1 in L1.INFO_LINE[V] else "MatchScoreProp" if a2 in L1.SCOREPROP_LINE[V] else None
    rep = dict(spec, what="to_v1")
    try:
        q = quiet_call(L1.to_v1, obj)
        if base in ("info", "meta"):
            up_observation(ctx, spec, obj, q)
    except B.MatchError as e:
        if base in ("info", "meta"):
            up_observation(ctx, spec, obj, None)
        if expect is None:
            ctx.count("to_v1:no_equivalent_in_1.0.0")
            return
        ctx.violation("to_v1(%s %s) raises %r" % (kind, spec["ver"], e), rep)
        return
    except Exception as e:
        ctx.violation("to_v1(%s %s) raises %r" % (kind, spec["ver"], e), rep)
        return
    ctx.evaluations += 1
    ctx.count("to_v1:" + base)
    if expect is None or type(q).__name__ != expect or type(q).__module__ != L1.__name__ or q.version != V:
        ctx.violation("to_v1(%s %s) gives %s.%s, expected the 1.0.0 %s" % (kind, spec["ver"], type(q).__module__, type(q).__name__, expect), rep)
        return
    bad = []

    def same(what, a, b):
        try:
            ok = bool(a == b)
        except Exception:
            ok = False
        if not ok:
            bad.append("%s: %s -> %s" % (what, a, b))

    if hasattr(obj, "snote"):
        for fn in SNOTE_CONTENT:
            same("snote." + fn, getattr(obj.snote, fn), getattr(q.snote, fn))
        same("snote.MidiPitch", obj.snote.MidiPitch, q.snote.MidiPitch)
    if hasattr(obj, "note"):
        n0, n1 = obj.note, q.note
        same("note.Id", n0.Id, n1.Id)
        same("note.Velocity", n0.Velocity, n1.Velocity)
        exp_pitch = 12 * (n0.Octave + 1) + BASE_PC[n0.NoteName] + (n0.Modifier or 0)
        same("note.MidiPitch", exp_pitch, n1.MidiPitch)
        pitch_terms.append("(%s, %s, %s, %s)" % (cstr(n0.NoteName), cz(n0.Modifier or 0), cz(n0.Octave), cz(int(n1.MidiPitch))))
        pitch_kept.append(rep)
        for fn in ("Onset", "Offset"):
            a, b = Fraction(getattr(n0, fn)), getattr(n1, fn)
            if not (isinstance(b, int) and abs(Fraction(b) - a) <= Fraction(1, 2) and (a.denominator != 1 or b == a)):
                bad.append("note.%s: %s -> %s (not the nearest tick)" % (fn, getattr(n0, fn), b))
    if base in ("trill",):
        same("Anchor", obj.Anchor, q.Anchor)
        same("OrnamentType", ["trill"], q.OrnamentType)
    if base in ("sustain", "soft"):
        same("Time", obj.Time, q.Time)
        same("Value", obj.Value, q.Value)
    if base == "meta":
        same("Value", obj.Value, q.Value)
        same("Measure", obj.Measure, q.Measure)
        same("TimeInBeats", obj.TimeInBeats, q.TimeInBeats)
    if base in ("info", "meta"):  # independent of the equivalence tables: the two documented renamings change letter case only
        same("Attribute (up to letter case)", attr.lower(), str(q.Attribute).lower())
    if base == "info":
        if expect == "MatchInfo":
            same("Attribute", L1.INFO_ATTRIBUTE_EQUIVALENCES.get(attr, attr), q.Attribute)
            if attr != "subtitle":
                same("Value", obj.Value, q.Value)
        else:
            same("Attribute", L1.SCOREPROP_ATTRIBUTE_EQUIVALENCES.get(attr, attr), q.Attribute)
            if attr == "tempoIndication":
                same("Value", " ".join(obj.Value), getattr(q.Value, "value", None))
            elif attr in ("beatSubDivision", "beatSubdivision"):
                same("Value", [str(x) for x in obj.Value], [str(x) for x in q.Value])
            else:
                same("Value", obj.Value, q.Value)
    # model of the conversion on the flat field values (note pairs, deletions, insertions, trills, pedals)
    if base in TO_V1_MODEL:
        kcode, k1 = TO_V1_MODEL[base]
        f0, f1 = schemas()[(kind, tuple(spec["ver"]))][2], schemas()[(k1, V1)][2]
        try:
            vs0 = [c_plain(getattr(sub_of(obj, f.owner), f.name)) for f in f0]
            vs1 = [c_plain(getattr(sub_of(q, f.owner), f.name)) for f in f1]
            pitch_terms.append(("v1", "(%s, %s, %s)" % (kcode, clist(vs0), clist(vs1)), rep))
        except Mismatch as e:
            bad.append("converted line holds a value of unexpected shape: %s" % e)
    # the converted line is a writable, re-readable 1.0.0 line
    try:
        t = q.matchline
        p = quiet_call(IM.parse_matchline, t, IM.FROM_MATCHLINE_METHODSV1, V)
        if p is None or type(p) is not type(q) or p.matchline != t:
            bad.append("converted line %r re-reads as %s / %r" % (t, type(p).__name__, getattr(p, "matchline", None)))
    except Exception as e:
        bad.append("converted line cannot be written/read: %r" % (e,))
    if bad:
        ctx.violation("to_v1(%s %s) changes content: %s" % (kind, spec["ver"], "; ".join(bad[:4])), rep)
        return None
    return q


# ----------------------------------------------------------------------------
# O2 with a history: read-only uses of a line's fields may not change what the line writes


def line_fracs(L, fields):
    """[(label, duration object)] of a line object (time-signature components included)."""
    out = []
    for f in fields:
        try:
            v = getattr(sub_of(L, f.owner), f.name)
        except AttributeError:
            continue
        for k, x in enumerate(frac_objs(v)):
            out.append(("%s%s%s" % ((f.owner + ".") if f.owner else "", f.name, "[%d]" % k if not hasattr(v, "numerator") else ""), x))
    return out


def field_uses(L, fields, parsed):
    """The read-only uses, one thunk each: [(description, thunk)]."""
    L0, L1, U, B, IM = mods()
    uses = []
    fr = line_fracs(L, fields)
    for na, a in fr:
        for nb, b in fr:
            uses.append(("%s + %s" % (na, nb), lambda a=a, b=b: a + b))
            uses.append(("sum([%s, %s])" % (na, nb), lambda a=a, b=b: sum([a, b])))
            uses.append(("%s == %s" % (na, nb), lambda a=a, b=b: ((a == b), (a != b))))
        uses.append(("%s + 1" % na, lambda a=a: a + 1))
        uses.append(("2 + %s" % na, lambda a=a: 2 + a))
        uses.append(("float/str/format of %s" % na, lambda a=a: (float(a), str(a), U.format_fractional(a), U.format_fractional_rational(a))))
    for f in fields:
        try:
            v = getattr(sub_of(L, f.owner), f.name)
        except AttributeError:
            continue
        if isinstance(v, list):
            uses.append(("reading the list %s" % f.name, lambda v=v: (sorted(map(str, v)), v + ["x"], len(v), ("grace" in v))))
        elif isinstance(v, (U.MatchKeySignature, U.MatchTimeSignature)):
            uses.append(("str/== of %s" % f.name, lambda v=v: (str(v), (v == v), [str(o) for o in (v.other_components or [])])))
    uses.append(("str/repr/==/check_types of the line", lambda: (str(L), repr(L), (L == parsed), quiet_call(L.check_types))))
    return uses


def run_uses(ctx, spec, obj, converted=None, pinpoint=False):
    """After the line was written and parsed: use the fields of the generated object and of the parsed
    one the way client code does without assigning anything (sums of durations, comparisons,
    formatting, conversion to 1.0.0) and write both again.  pinpoint: write after every single use
    and return the first use that changes a text."""
    L0, L1, U, B, IM = mods()
    case, parsed, text = obj._c07_case
    kind, ver = spec["kind"], tuple(spec["ver"])
    nm, elems, fields = schemas()[(kind, ver)]
    rep = dict(spec, what="history", text=text)
    lines = [["generated", obj, text], ["parsed", parsed, text]]
    if converted is not None:
        try:
            lines.append(["converted", converted, converted.matchline])
        except Exception:
            pass

    def changed():
        for name, L, want in lines:
            try:
                t = L.matchline
            except Exception as e:
                t = "<%r>" % (e,)
            if t != want:
                return name, want, t
        return None

    nsums = 0
    for name, L, want in list(lines):
        if name == "converted":  # the 1.0.0 line made by to_v1 may share field objects with the old line
            flds = [Field(o, fn, None, None, None, None) for o in (None, "snote", "note", "stime", "ptime")
                    if o is None or hasattr(L, o) for fn in getattr(sub_of(L, o), "field_names", ())]
        else:
            flds = fields
        uses = field_uses(L, flds, parsed)
        if name != "converted" and ver != V1 and kind.partition(":")[0] not in ("snote", "note"):
            uses.append(("to_v1 of the line and writing the result", lambda L=L: (lambda q: (q.matchline, str(q)))(quiet_call(L1.to_v1, L))))
        for what, thunk in uses:
            try:
                thunk()
            except Exception as e:
                if " + " in what or what.startswith("sum("):
                    if pinpoint:
                        return "%s on the %s line raises %r" % (what, name, e)
                    ctx.violation("%s %s: %s on the %s line raises %r" % (kind, spec["ver"], what, name, e), rep)
                    return None
                continue  # whether str()/to_v1 work at all is not this clause's business (run_to_v1 judges to_v1)
            nsums += (" + " in what)
            if pinpoint:
                c = changed()
                if c:
                    return "%s on the %s line: the %s line wrote %r, now writes %r" % (what, name, c[0], c[1], c[2])
    if pinpoint:
        return None
    ctx.evaluations += 1
    if nsums:
        ctx.count("history:lines_with_duration_sums")
    c = changed()
    if c:
        ctx.count("history:text_changed")
        if ctx.counts["history:text_changed"] <= 3:
            why = None
            try:  # name the first use that does it, on fresh objects
                o2 = construct(kind, ver, {(o, n): to_py(t) for o, n, t in spec["fields"]})
                o2._c07_case = (None, type(o2).from_matchline(o2.matchline, version=U.Version(*ver)), o2.matchline)
                why = run_uses(ctx, spec, o2, None, pinpoint=True)
            except Exception:
                pass
            ctx.violation("%s %s: the text of a line changes through a read-only use of its fields: %s"
                          % (kind, spec["ver"], why or "the %s line wrote %r, after sums of its durations / comparisons / formatting / to_v1 it writes %r" % c),
                          dict(rep, line=c[0], after=c[2]))
        return None
    if case is not None:
        case[4] = clist([cstr(text), cstr(text)])
    return None


# ----------------------------------------------------------------------------
# O4: durations: strings and addition


def run_fracs(ctx, n):
    L0, L1, U, B, IM = mods()
    F = U.FractionalSymbolicDuration
    rng = ctx.rng
    terms, kept = [], []

    def val(f):
        return Fraction(int(f.numerator), int(f.denominator) * int(f.tuple_div or 1))

    for i in range(n):
        k = rng.choice([2, 2, 3])
        comps = [g_simple_frac(rng, small=rng.random() < 0.8) for _ in range(k)]
        if rng.random() < 0.15:
            comps[rng.randrange(k)][0] = 0
        rep = {"kind": "frac_add", "comps": comps}
        try:
            parts = [F(*c) for c in comps]
            s = parts[0]
            within = True
            exact = val(parts[0])
            for p in parts[1:]:
                s = s + p
                exact += val(p)
                within = within and exact.numerator <= 1024  # checked on the library's own lcm form below
            ctx.evaluations += 1
        except Exception as e:
            ctx.violation("adding durations %r raises %r" % (comps, e), rep)
            continue
        # components rule: concatenation, zero numerators dropped
        exp_comps = [(int(p.numerator), int(p.denominator), None if p.tuple_div is None else int(p.tuple_div)) for p in parts if int(p.numerator) != 0]
        got = [(int(a), int(b), None if c is None else int(c)) for a, b, c in (s.add_components or [])]
        if got != exp_comps:
            ctx.violation("components of the sum of %r are %r, expected %r" % (comps, got, exp_comps), rep)
            continue
        # exactness below the bound: every operand and every partial sum (in the library's lcm form) within 1024
        okb = True
        acc_n, acc_d = int(parts[0].numerator), int(parts[0].denominator) * int(parts[0].tuple_div or 1)
        okb = okb and max(comps[0][0], comps[0][1]) <= 1024
        for p, c in zip(parts[1:], comps[1:]):
            okb = okb and max(c[0], c[1]) <= 1024
            d2 = int(p.denominator) * int(p.tuple_div or 1)
            nd = acc_d * d2 // math.gcd(acc_d, d2)
            acc_n, acc_d = (nd // acc_d) * acc_n + (nd // d2) * int(p.numerator), nd
            okb = okb and acc_n <= 1024 and acc_d <= 1024
        if okb:
            ctx.count("frac_add:within_bound")
            if val(s) != exact or (int(s.numerator), int(s.denominator)) != (acc_n, acc_d):
                ctx.violation("sum of %r has value %s/%s, exact value is %s" % (comps, s.numerator, s.denominator, exact), rep)
                continue
            if abs(Fraction(float(s)) - exact) > abs(exact) * Fraction(1, 10 ** 12):
                ctx.violation("float(sum of %r) = %r, exact value %s" % (comps, float(s), exact), rep)
                continue
        else:
            ctx.count("frac_add:above_bound(value only approximated; frac_add_inexact_above_bound)")
        # string round trip of the sum: value and text always; equal fields when canonical (>= 2 components, all within the bound)
        try:
            t = str(s) if got else None
            if t is not None:
                p = U.interpret_as_fractional(t)
                if str(p) != t:
                    ctx.violation("duration text %r re-reads and prints as %r" % (t, str(p)), rep)
                    continue
                small = all(c[1] * (c[2] or 1) <= 1024 for c in comps)
                if okb and small and len(got) >= 2 and len(got) == len(comps) and not (p == s):
                    ctx.violation("duration %r re-reads with other fields: %s/%s %r" % (t, p.numerator, p.denominator, p.add_components), rep)
                    continue
                if okb and small and val(p) != val(s):
                    ctx.violation("duration %r re-reads with another value" % (t,), rep)
                    continue
        except Exception as e:
            ctx.violation("duration sum of %r cannot be written and read: %r" % (comps, e), rep)
            continue
        ctx.nontrivial(("fracadd", json.dumps(comps)))
        # model: fold frac_add over the operands' exact states
        risky = False
        acc = None
        for c in comps:
            if py_bound_risky(c[0], c[1]):
                risky = True
            cur = Fraction(c[0], c[1] * (c[2] or 1)) if c[1] else Fraction(0)
        a_n, a_d = int(parts[0].numerator), int(parts[0].denominator) * int(parts[0].tuple_div or 1)
        for p in parts[1:]:
            d2 = int(p.denominator) * int(p.tuple_div or 1)
            nd = a_d * d2 // math.gcd(a_d, d2)
            a_n, a_d = (nd // a_d) * a_n + (nd // d2) * int(p.numerator), nd
            if py_bound_risky(a_n, a_d):
                risky = True
            # after bounding the library continues with the bounded pair: follow the implementation's state
        if risky or len(parts) > 2 and not okb:
            ctx.count("model:skipped_bound_near_tie_or_chained_above_bound")
            continue
        terms.append("(%s, %s)" % (clist([c_frac(p) for p in parts]), c_frac(s)))
        kept.append(rep)
    failing = [] if not terms else ctx.coq_failing("fracadd", "From PV Require Import Model.C07.", "", terms,
                              "fun c => match fst c with [] => false | p :: ps => frac_eqb (fold_left frac_add ps p) (snd c) end")
    ctx.obligation("correspondence: model frac_add = FractionalSymbolicDuration.__add__ on %d sums (incl. above the bound)" % len(terms), not failing, failing[:5])
    for i in failing[:5]:
        ctx.violation("model/implementation disagree on duration addition", kept[i])


# ----------------------------------------------------------------------------
# O4 with a history: programs of operations on SHARED duration objects.  After every step every
# live object is looked at again (state, text, text -> parse -> text, value); an addition may not
# change its operands.

BOUND = 1024
MUSICAL_DENS = [1, 2, 4, 4, 8, 8, 16, 16, 32, 64, 3, 6, 12, 24]


def fsd_state(x):
    """Exact state (numerator, denominator, tuple_div, components) of an implementation object."""
    n, d = x.numerator, x.denominator
    if int(n) != n or int(d) != d:
        raise Mismatch("non-integral fraction %r/%r" % (n, d))
    td = None if x.tuple_div is None else int(x.tuple_div)
    cs = None if x.add_components is None else [(int(a), int(b), None if c is None else int(c)) for a, b, c in x.add_components]
    return (int(n), int(d), td, cs)


def ref_str3(n, d, td):
    if td is None:
        return str(n) if d == 1 else "%d/%d" % (n, d)
    return "%d/%d/%d" % (n, d, td)


class Ref:
    """Independent description of a duration object: its fields as the statement of the property fixes
    them (n is None: numerator/denominator are left to bound_integers and taken from the implementation;
    cu: so are the components), the exact value it stands for, and whether that value is claimed
    (ok: every lcm form on the way stayed within the bound)."""

    def __init__(self, n, d, td, comps, exact, ok, cu=False):
        self.n, self.d, self.td, self.comps, self.exact, self.ok, self.cu = n, d, td, comps, exact, ok, cu

    def triples(self):
        if self.cu:
            return None
        if self.comps is not None:
            return list(self.comps)
        return None if self.n is None else [(self.n, self.d, self.td)]

    def fields(self):
        return (self.n, self.d, self.td, self.comps)

    def text(self):
        return ref_str3(self.n, self.d, self.td) if self.comps is None else "+".join(ref_str3(*c) for c in self.comps)


def ref_new(n, d, td, log=None):
    exact = Fraction(n, d * (td or 1))
    if n <= BOUND and d <= BOUND:
        return Ref(n, d, td, None, exact, True)
    if log is not None:
        log.append(("raw", n, d))
    return Ref(None, None, td, None, exact, False)


def ref_add(a, b, log=None):
    ta, tb = a.triples(), b.triples()
    cu = ta is None or tb is None
    comps = None if cu else [c for c in ta + tb if c[0] != 0]
    if a.n is None or b.n is None:  # an operand bounded out of sight (inside sum() / from_string)
        if log is not None:
            log.append(("hidden",))
        return Ref(None, None, None, comps, a.exact + b.exact, False, cu)
    d1, d2 = a.d * (a.td or 1), b.d * (b.td or 1)
    nd = d1 * d2 // math.gcd(d1, d2)
    nn = (nd // d1) * a.n + (nd // d2) * b.n
    if nn <= BOUND and nd <= BOUND:
        return Ref(nn, nd, None, comps, a.exact + b.exact, a.ok and b.ok, cu)
    if log is not None:
        log.append(("raw", nn, nd))
    return Ref(None, None, None, comps, a.exact + b.exact, False, cu)


def ref_sum(parts, log=None):
    acc = ref_add(parts[0], ref_new(0, 1, None), log)
    for p in parts[1:]:
        acc = ref_add(acc, p, log)
    return acc


def ref_parse(text, log=None):
    def simple(t):
        xs = [int(x) for x in t.split("/")]
        return ref_new(xs[0], xs[1] if len(xs) > 1 else 1, xs[2] if len(xs) > 2 else None, log)
    parts = text.split("+")
    return simple(parts[0]) if len(parts) == 1 else ref_sum([simple(p) for p in parts], log)


def g_prog_triple(rng, mode):
    if mode == "small":
        n = rng.choice([0, 1, 1, 1, 2, 3, 3, 5, 7])
        d = rng.choice(MUSICAL_DENS)
        td = None if rng.random() < 0.7 else rng.choice([3, 3, 5, 6, 7])
        return n, d, td
    n, d, td = g_simple_frac(rng, small=(mode == "mid"))
    return n, max(1, d), td


def g_frac_prog(rng):
    """A program: 2-4 objects built from text or numbers, then 4-9 operations re-using earlier
    operands and results on either side."""
    r = rng.random()
    mode = "small" if r < 0.6 else ("mid" if r < 0.8 else "wild")
    steps, ids, with_comps = [], [], []

    def fresh():
        ids.append("o%d" % len(ids))
        return ids[-1]

    for _ in range(rng.choice([2, 2, 3, 4])):
        if rng.random() < 0.65:
            k = rng.choice([1, 2, 2, 3])
            ts = []
            for _ in range(k):
                n, d, td = g_prog_triple(rng, mode)
                ts.append(ref_str3(max(n, 1) if k > 1 and rng.random() < 0.9 else n, d, td))
            i = fresh()
            steps.append(["parse", i, "+".join(ts)])
            if k > 1:
                with_comps.append(i)
        else:
            steps.append(["new", fresh()] + list(g_prog_triple(rng, mode)))
    for _ in range(rng.randint(4, 9)):
        r = rng.random()

        def pick(left=False):
            if left and with_comps and rng.random() < 0.6:  # an operand that already has components, on the left
                return rng.choice(with_comps)
            return rng.choice(ids)
        if r < 0.45:
            a, b = pick(True), pick()
            if rng.random() < 0.3:
                a, b = b, a
            i = fresh()
            steps.append(["add", i, a, b])
        elif r < 0.55:
            a = pick(True)
            i = fresh()
            steps.append(["addint", i, a, rng.choice([0, 0, 1, 2, 3])])
        elif r < 0.63:
            a = pick(True)
            i = fresh()
            steps.append(["raddint", i, rng.choice([0, 1, 2]), a])
        elif r < 0.75:
            ops = [pick(True)] + [pick() for _ in range(rng.choice([1, 1, 2]))]
            i = fresh()
            steps.append(["sum", i, ops])
        else:
            steps.append(["use", rng.choice(["eq", "ne", "float", "str", "fmt", "fmtrat"]), pick(), pick()])
            continue
        with_comps.append(i)
    return steps


def prog_valid(steps):
    seen = set()
    for s in steps:
        refs = {"parse": [], "new": [], "add": s[2:4], "addint": s[2:3], "raddint": s[3:4], "sum": s[2] if s[0] == "sum" else [], "use": s[2:4]}[s[0]]
        if any(r not in seen for r in refs):
            return False
        if s[0] != "use":
            if s[1] in seen:
                return False
            seen.add(s[1])
    return True


def exec_frac_prog(steps, trace=None):
    """Run a program on the implementation, checking the statement of the property after every step.
    Returns None or a text saying what went wrong.  trace (a list) receives, per step, the Coq step
    term, the text of every live object and the fields of the created object; a final 'skip' when the
    exact-rational model is not applicable (near-tie of bound_integers, or bound_integers applied out
    of sight inside sum() to something that is added to again)."""
    L0, L1, U, B, IM = mods()
    F = U.FractionalSymbolicDuration
    objs, ref, snap, order, log = {}, {}, {}, [], []
    first_bad = None

    def value(st):
        return Fraction(st[0], st[1] * (st[2] or 1))

    def look(i, when):
        """fields, text, text -> parse -> text and value of live object i; None or a complaint"""
        x, r = objs[i], ref[i]
        try:
            st = fsd_state(x)
            text = str(x)
        except Exception as e:
            return "%s: duration %s cannot be inspected: %r" % (when, i, e)
        if i in snap:
            st0, text0 = snap[i]
            if text != text0:
                return "%s: duration %s, created as %r, now prints as %r (its value is still %s)" % (when, i, text0, text, value(st))
            if st != st0:
                return "%s: duration %s (%r) changed its fields from %r to %r" % (when, i, text0, st0, st)
        else:
            if r.n is None:  # numerator/denominator left to bound_integers
                r.n, r.d = st[0], st[1]
            if r.cu:
                r.comps, r.cu = st[3], False
            if st != r.fields():
                return "%s: duration %s has fields %r, expected %r" % (when, i, st, r.fields())
            if text != r.text():
                return "%s: duration %s with fields %r prints as %r, expected %r" % (when, i, st, text, r.text())
            if r.ok:
                if value(st) != r.exact:
                    return "%s: duration %s has value %s, exact value %s" % (when, i, value(st), r.exact)
                if abs(Fraction(float(x)) - r.exact) > abs(r.exact) * Fraction(1, 10 ** 12):
                    return "%s: float(%s) = %r, exact value %s" % (when, text, float(x), r.exact)
            snap[i] = (st, text)
        if text == "":
            return None  # a sum whose components all vanished (0 + 0): counted by the caller
        try:
            p = quiet_call(U.interpret_as_fractional, text)
            pst, ptext = fsd_state(p), str(p)
        except Exception as e:
            return "%s: text %r of duration %s is not read back: %r" % (when, text, i, e)
        if ptext != text:
            return "%s: text %r of duration %s is read back and printed as %r" % (when, text, i, ptext)
        pr = ref_parse(text)
        if pr.ok and r.ok and value(pst) != r.exact:
            return "%s: text %r of duration %s (value %s) is read back with value %s" % (when, text, i, r.exact, value(pst))
        if pr.n is not None and not pr.cu and pst != pr.fields():
            return "%s: text %r is read as %r, expected %r" % (when, text, pst, pr.fields())
        return None

    for k, s in enumerate(steps):
        op = s[0]
        when = "step %d %s" % (k, json.dumps(s))
        new, r, cterm, operands = None, None, "SNop", []
        try:
            if op == "parse":
                new, r, cterm = quiet_call(U.interpret_as_fractional, s[2]), ref_parse(s[2], log), "(SParse %s)" % cstr(s[2])
            elif op == "new":
                new, r = F(s[2], s[3], s[4]), ref_new(s[2], s[3], s[4], log)
                cterm = "(SNew %s %s %s)" % (cz(s[2]), cz(s[3]), copt(s[4], cz))
            elif op == "add":
                operands = [s[2], s[3]]
                new, r = objs[s[2]] + objs[s[3]], ref_add(ref[s[2]], ref[s[3]], log)
                cterm = "(SAdd %s %s)" % (cnat(order.index(s[2])), cnat(order.index(s[3])))
            elif op == "addint":
                operands = [s[2]]
                new, r = objs[s[2]] + s[3], ref_add(ref[s[2]], ref_new(s[3], 1, None), log)
                cterm = "(SAddInt %s %s)" % (cnat(order.index(s[2])), cz(s[3]))
            elif op == "raddint":
                operands = [s[3]]
                new, r = s[2] + objs[s[3]], ref_add(ref[s[3]], ref_new(s[2], 1, None), log)
                cterm = "(SRAddInt %s %s)" % (cz(s[2]), cnat(order.index(s[3])))
            elif op == "sum":
                operands = list(s[2])
                new, r = sum([objs[i] for i in s[2]]), ref_sum([ref[i] for i in s[2]], log)
                cterm = "(SSum %s)" % clist([cnat(order.index(i)) for i in s[2]])
            else:
                a, b = objs[s[2]], objs[s[3]]
                operands = [s[2], s[3]]
                same_fields = snap[s[2]][0] == snap[s[3]][0]
                if s[1] == "eq":
                    e = bool(a == b)
                    if same_fields and not e:
                        return "%s: durations with equal fields %r compare unequal" % (when, snap[s[2]][0])
                    if ref[s[2]].ok and ref[s[3]].ok and ref[s[2]].exact != ref[s[3]].exact and e:
                        return "%s: durations of different value (%s, %s) compare equal" % (when, ref[s[2]].exact, ref[s[3]].exact)
                elif s[1] == "ne":
                    if bool(a != b) and same_fields:
                        return "%s: durations with equal fields %r compare different" % (when, snap[s[2]][0])
                elif s[1] == "float":
                    float(a), float(b)
                elif s[1] == "str":
                    str(a), repr(b)
                elif s[1] == "fmt":
                    U.format_fractional(a), U.format_fractional([a, b])
                else:
                    U.format_fractional_rational(a)
        except Mismatch as e:
            return "%s: %s" % (when, e)
        except Exception as e:
            return "%s raises %r" % (when, e)
        bad = None
        for i in operands:  # an operation may not change its operands
            bad = bad or look(i, when + ": operand afterwards")
        if new is not None:
            i = s[1]
            objs[i], ref[i] = new, r
            order.append(i)
            bad = bad or look(i, when + ": result")
        for i in order:  # every live object, again
            bad = bad or look(i, when + ": afterwards")
        if bad and trace is None:
            return bad
        first_bad = first_bad or bad
        if trace is not None:  # what the implementation shows NOW (not the snapshots), for the model
            try:
                trace.append((cterm, [str(objs[i]) for i in order], fsd_state(new) if new is not None else None))
            except Exception as e:
                return first_bad or "%s: %r" % (when, e)
    if trace is not None and any(e[0] == "hidden" or py_bound_risky(e[1], e[2]) for e in log):
        trace.append("skip")
    return first_bad


def c_state(st):
    n, d, td, cs = st
    return "(mkfrac %s %s %s %s)" % (cz(n), cz(d), copt(td, cz), copt(cs, lambda l: clist([c_triple(c) for c in l])))


CORPUS_PROGS = [
    # a tied duration used in two sums, compared and summed with itself (the scenario of seeded/C07/b_*)
    [["parse", "o0", "1/4+1/16"], ["new", "o1", 1, 32, None], ["add", "o2", "o0", "o1"], ["new", "o3", 1, 8, 3], ["add", "o4", "o0", "o3"],
     ["use", "eq", "o2", "o4"], ["sum", "o5", ["o0", "o0"]], ["raddint", "o6", 0, "o0"], ["addint", "o7", "o0", 2], ["add", "o8", "o0", "o0"],
     ["use", "float", "o0", "o8"], ["add", "o9", "o1", "o0"]],
    # zero durations: C07-K1
    [["new", "o0", 0, 4, None], ["new", "o1", 0, 8, None], ["add", "o2", "o0", "o1"]],
    [["parse", "o0", "3/8"], ["parse", "o1", "0/4"], ["add", "o2", "o0", "o1"], ["add", "o3", "o1", "o0"], ["sum", "o4", ["o1", "o0", "o1"]]],
    # around the bound
    [["new", "o0", 1023, 1024, None], ["new", "o1", 1, 1024, None], ["add", "o2", "o0", "o1"], ["add", "o3", "o2", "o1"], ["add", "o4", "o0", "o0"]],
]


def run_frac_programs(ctx, n):
    rng = ctx.rng
    terms, kept = [], []
    for k in range(n + len(CORPUS_PROGS)):
        steps = CORPUS_PROGS[k] if k < len(CORPUS_PROGS) else g_frac_prog(rng)
        trace = []
        bad = exec_frac_prog(steps, trace)
        ctx.evaluations += len(steps)
        ctx.count("frac_prog:steps", len(steps))
        ctx.nontrivial(("fracprog", json.dumps(steps)))
        if bad:
            ctx.count("frac_prog:oracle_complaints")
            if ctx.counts["frac_prog:oracle_complaints"] <= 3:
                small = core.ddmin(steps, lambda sub: prog_valid(sub) and exec_frac_prog(sub) is not None)
                small = small if prog_valid(small) and exec_frac_prog(small) else steps
                ctx.violation("duration history: " + (exec_frac_prog(small) or bad), {"kind": "frac_prog", "steps": small})
            if len(trace) < len(steps) or ctx.counts["frac_prog:oracle_complaints"] > 40:
                continue  # the run broke off; nothing to show the model
        if trace and trace[-1] == "skip":
            ctx.count("frac_prog:model_skipped(bound near-tie or bound inside sum)")
            continue
        if any(t == "" for e in trace if e != "skip" for t in e[1]):
            ctx.count("frac_prog:with_empty_text(all components vanished)")
            if ctx.counts["frac_prog:with_empty_text(all components vanished)"] == 1:
                k = next(i for i, e in enumerate(trace) if e != "skip" and "" in e[1])
                ctx.violation("a sum of durations whose components all have numerator 0 prints as the empty text, which is not read back "
                              "(value 0 does not survive the string round trip)", {"kind": "frac_prog", "what": "empty_text", "steps": steps[:k + 1]})
        terms.append(clist(["(%s, (%s, %s))" % (c, clist([cstr(t) for t in texts]), copt(st, c_state)) for c, texts, st in trace]))
        kept.append({"kind": "frac_prog", "steps": steps})
    for k in kept[:1]:
        ctx.sample(k)
    failing = [] if not terms else ctx.coq_failing("fracprog", "From PV Require Import Model.C07.", "", terms, "prog_check []", shard=60)
    ctx.obligation("correspondence: after EVERY step of %d duration programs (shared operands, +, int +, radd, sum, parse) every live "
                   "object's text and fields = the model's pure value (prog_check)" % len(terms), not failing, failing[:5])
    for i in failing[:5]:
        ctx.violation("model and implementation disagree on a duration history", dict(kept[i], what="model"))


# ----------------------------------------------------------------------------


def key_oracle(ctx, rows):
    """Direct oracle on the T2 key table and on all alternative-key combinations."""
    L0, L1, U, B, IM = mods()
    for fmt, f, mi, text, parsed in rows:
        ctx.evaluations += 1
        if text is None or parsed != (f, mi):
            ctx.violation("key signature fifths=%d %s in spelling %d: written %r, read back %r" % (f, "minor" if mi else "major", fmt, text, parsed),
                          {"kind": "key", "fmt": fmt, "fifths": f, "minor": mi, "text": text, "parsed": parsed})
        else:
            ctx.nontrivial(("key", fmt, f, mi))
    funs = {1: U.format_key_signature_v0_3_0, 2: U.format_key_signature_v0_3_0_list, 3: U.format_key_signature_v1_0_0}
    n = 0
    for fmt, fun in sorted(funs.items()):
        for f in range(-7, 8):
            for mi in ("major", "minor"):
                for f2 in range(-7, 8):
                    for mi2 in ("major", "minor"):
                        k = U.MatchKeySignature(f, mi, f2, mi2)
                        n += 1
                        try:
                            t = fun(k)
                            p = U.interpret_as_key_signature(t)
                            ok = (p == k) and fun(p) == t
                        except Exception as e:
                            ok, t = False, repr(e)
                        if not ok:
                            ctx.violation("key signature %d %s / %d %s in spelling %d does not survive text %r" % (f, mi, f2, mi2, fmt, t),
                                          {"kind": "key_alt", "fmt": fmt, "key": [f, mi, f2, mi2], "text": t})
                            return
    ctx.evaluations += n
    ctx.count("keys:alt_combinations", n)


# ----------------------------------------------------------------------------
# parse histories: the parsed fields are a function of the text and of the version only.
# call -> edit one parsed line in place -> call again; every live object is judged after EVERY step from
# its own text and the edits made to IT alone (a fresh object built by the constructors from the generated
# values -- never by a parser -- with the same edits applied), and the same history runs through the
# pure machine of Model/C07_Hist.v (hist_check).

HIST_OWNERS = (None, "snote", "note", "stime", "ptime")
HIST_TERMS, HIST_KEPT = [], []


def mutable_codec(c):
    return c in ("CList", "CListIn", "CListInt", "CListIntIn", "CFrac", "CFracRat") or c.startswith("(CKey") or c.startswith("(CTime")


def g_edit(rng, v, ints=False):
    """An in-place edit of the mutable object v held by a field (chosen by its Python type), or None."""
    L0, L1, U, B, IM = mods()
    if isinstance(v, list):
        if v and all(isinstance(x, U.FractionalSymbolicDuration) for x in v):
            return None
        ints = ints or (bool(v) and all(not isinstance(x, str) for x in v))
        x = (lambda: rng.choice([0, 7, rng.randint(0, 5000)])) if ints else (lambda: rng.choice(ATTRS + WORDS))
        op = rng.choice(["append", "append", "append", "insert0", "pop", "reverse", "clear", "sort", "set0", "iadd", "remove0"])
        if op in ("append", "insert0", "set0"):
            return [op, x()]
        if op == "iadd":
            return [op, [x(), x()]]
        return [op]
    if isinstance(v, U.FractionalSymbolicDuration):
        r = rng.random()
        if r < 0.3:
            return ["attr", "numerator", rng.choice([1, 3, 5, 7, rng.randint(1, 64)])]
        if r < 0.55:
            return ["attr", "denominator", rng.choice([2, 4, 8, 16, 32, 3, 12])]
        if r < 0.7:
            return ["attr", "tuple_div", rng.choice([None, 3, 5, 7])]
        return ["comp_append", [rng.choice([1, 3]), rng.choice([8, 16, 32, 64]), rng.choice([None, None, 3])]]
    if isinstance(v, U.MatchKeySignature):
        if rng.random() < 0.6:
            return ["attr", "fifths", rng.randint(-7, 7)]
        return ["attr", "mode", rng.choice(["major", "minor"])]
    if isinstance(v, U.MatchTimeSignature):
        r = rng.random()
        if v.other_components and r < 0.3:
            return ["other_append", [rng.choice([2, 3]), rng.choice([4, 8]), None]]
        if v.other_components and r < 0.5:
            return ["other_attr", rng.randrange(len(v.other_components)), "numerator", rng.choice([5, 7, 9])]
        if r < 0.8:
            return ["attr", "numerator", rng.choice([2, 3, 5, 6, 7, 9, 12])]
        return ["attr", "denominator", rng.choice([2, 4, 8, 16])]
    if isinstance(v, U.MatchTempoIndication):
        return ["attr", "value", " ".join(rng.choice(WORDS) for _ in range(rng.randint(1, 3)))]
    return None


def apply_edit(line, owner, fname, op):
    """Carry out one edit on a line object (of the implementation under test or of the oracle's fresh copy)."""
    L0, L1, U, B, IM = mods()
    sub = sub_of(line, owner)
    if op[0] == "set":  # a new value for the field of THIS line object
        setattr(sub, fname, to_py(op[1]))
        return
    v = getattr(sub, fname)
    k = op[0]
    if k == "append":
        v.append(op[1])
    elif k == "insert0":
        v.insert(0, op[1])
    elif k == "iadd":
        v += list(op[1])
    elif k == "reverse":
        v.reverse()
    elif k == "clear":
        del v[:]
    elif k == "sort":
        v.sort(key=str)
    elif k == "pop":
        if v:
            v.pop()
    elif k == "remove0":
        if v:
            del v[0]
    elif k == "set0":
        if v:
            v[0] = op[1]
    elif k == "attr":
        setattr(v, op[1], op[2])
    elif k == "comp_append":
        c = tuple(op[1])
        if v.add_components is None:
            v.add_components = [(int(v.numerator), int(v.denominator), None if v.tuple_div is None else int(v.tuple_div)), c]
        else:
            v.add_components.append(c)
    elif k == "other_append":
        v.other_components.append(U.FractionalSymbolicDuration(*op[1]))
    elif k == "other_attr":
        if op[1] < len(v.other_components or []):
            setattr(v.other_components[op[1]], op[2], op[3])
    else:
        raise ValueError(op)


def describe_edit(owner, fname, op):
    f = "%s%s" % ((owner + ".") if owner else "", fname)
    if op[0] == "set":
        return "%s = %r" % (f, to_py(op[1]) if op[1][0] in ("int", "str", "list", "listint", "none") else op[1])
    if op[0] == "attr":
        return "%s.%s = %r" % (f, op[1], op[2])
    if op[0] == "comp_append":
        return "%s.add_components.append(%r)" % (f, tuple(op[1]))
    if op[0] == "other_append":
        return "%s.other_components.append(FractionalSymbolicDuration%r)" % (f, tuple(op[1]))
    if op[0] == "other_attr":
        return "%s.other_components[%d].%s = %r" % (f, op[1], op[2], op[3])
    return "%s.%s(%s)" % (f, {"insert0": "insert 0,", "iadd": "+=", "clear": "clear", "set0": "[0] =", "remove0": "del [0]"}.get(op[0], op[0]),
                          ", ".join(repr(x) for x in op[1:]))


def hist_fresh(case, which, edits):
    """The line `which` of the case as a FRESH object (constructors only, no parser) with the given edits."""
    spec = case["lines"][which]
    E = construct(spec["kind"], tuple(spec["ver"]), {(o, n): to_py(t) for o, n, t in spec["fields"]})
    for f in schemas()[(spec["kind"], tuple(spec["ver"]))][2]:  # a d-decimal field holds, after the text, the d-decimal rounding of the generated float
        d = fix_digits(f.codec)
        if d is not None:
            setattr(sub_of(E, f.owner), f.name, float("%.*f" % (d, getattr(sub_of(E, f.owner), f.name))))
    for owner, fname, op in edits:
        apply_edit(E, owner, fname, op)
    return E


def hist_text(case, which):
    return hist_fresh(case, which, []).matchline


def hist_parse(case, which, level):
    L0, L1, U, B, IM = mods()
    spec = case["lines"][which]
    V = U.Version(*spec["ver"])
    text = hist_text(case, which)
    if level == "file":
        methods = IM.FROM_MATCHLINE_METHODSV1 if V >= U.Version(1, 0, 0) else IM.FROM_MATCHLINE_METHODSV0
        return quiet_call(IM.parse_matchline, text, methods, V), text
    cls = type(hist_fresh(case, which, []))
    return quiet_call(cls.from_matchline, text, version=V), text


def hist_fields(line):
    """[(owner, field name, value)] of any line object, by inspection (for lines made by to_v1)."""
    out = []
    for o in HIST_OWNERS:
        if o is None or hasattr(line, o):
            s = sub_of(line, o)
            for fn in getattr(s, "field_names", ()):
                if fn in getattr(s, "__dict__", {}):
                    out.append((o, fn, getattr(s, fn)))
    return out


def safe_text(line):
    try:
        return line.matchline
    except Exception as e:
        return e


def exec_parse_hist(case, observe=None):
    """Run the steps on the implementation; after every step judge every live line object.  Returns None or the
    complaint.  observe: list that receives, per step, what the Coq machine needs (None when a value has a shape the
    model has no term for)."""
    L0, L1, U, B, IM = mods()
    env = {}      # name -> dict(obj, which, edits, step, text | conv (name of the converted line, edits at that time), group, tainted)
    order = []
    done = []

    conv_text = {}   # (line, edits of the converted object at that time) -> text of the first conversion

    def expected(e):
        if "conv" in e:  # the 1.0.0 line as it was when to_v1 returned it (an independent copy) with its own edits
            q = copy.deepcopy(e["snapshot"])
            for owner, fname, op in e["edits"]:
                apply_edit(q, owner, fname, op)
            return q
        return hist_fresh(case, e["which"], e["edits"])

    def judge(upto):
        for name in order:
            e = env[name]
            if e["tainted"]:
                continue
            X = e["obj"]
            spec = case["lines"][e["which"]]
            try:
                E = expected(e)
            except Exception:
                continue  # the edited state cannot be built / converted by the constructors either: nothing to compare with
            origin = "%s = %s" % (name, ("to_v1(%s)" % e["of"]) if "conv" in e else "the line parsed from %r at step %d" % (e["text"], e["step"]))
            if "conv" not in e:
                nm, elems, fields = schemas()[(spec["kind"], tuple(spec["ver"]))]
                tags = {(o, n): t for o, n, t in spec["fields"]}
                for f in fields:
                    try:
                        a, b = getattr(sub_of(E, f.owner), f.name), getattr(sub_of(X, f.owner), f.name)
                    except Exception as ex:
                        a, b = None, ex
                    if not field_equal(a, b, f, tags[(f.owner, f.name)]):
                        own = "; ".join(describe_edit(*ed) for ed in e["edits"]) or "nothing"
                        return ("after step %d (%s): %s holds %s = %s, but its text and what was done to this object alone (%s) give %s"
                                % (upto, done[-1], origin, f.name, str(b), own, str(a)))
            tE, tX = safe_text(E), safe_text(X)
            if isinstance(tE, str) and tX != tE:
                own = "; ".join(describe_edit(*ed) for ed in e["edits"]) or "nothing"
                return ("after step %d (%s): %s writes %r, but its text and what was done to this object alone (%s) give %r"
                        % (upto, done[-1], origin, tX if isinstance(tX, str) else "<%r>" % (tX,), own, tE))
        return None

    for k, st in enumerate(case["steps"]):
        op = st[0]
        try:
            if op == "parse":
                _, name, which, level = st
                if name in env or which not in case["lines"]:
                    return None
                p, text = hist_parse(case, which, level)
                done.append("%s = parse %r (%s level)" % (name, text, level))
                want = type(hist_fresh(case, which, []))
                if p is None or type(p) is not want:
                    return "after step %d (%s): the text is read as %s, not as %s" % (k, done[-1], type(p).__name__, want.__name__)
                env[name] = dict(obj=p, which=which, edits=[], step=k, text=text, group=name, tainted=False)
                order.append(name)
            elif op == "probe":
                # directed search: if two slots of live parsed lines hold ONE mutable object (or one component list), edit it in
                # place through the first slot -- judged, as every edit, by what the other slot shows afterwards
                found = hist_shared_slot(case, env, order)
                if found is None:
                    done.append("(no object shared between two fields)")
                    if observe is not None:
                        observe.append(("nop",))
                    continue
                st = ["edit"] + found
                op = "edit"
            if op == "edit":
                _, name, owner, fname, eop = st
                if name not in env:
                    return None
                e = env[name]
                try:
                    apply_edit(e["obj"], owner, fname, eop)
                except (AttributeError, IndexError, TypeError):
                    return None  # (only after shrinking removed the step that made the field this shape)
                e["edits"].append((owner, fname, eop))
                done.append("%s.%s" % (name, describe_edit(owner, fname, eop)))
                for n2 in order:  # to_v1 hands the field objects of the old line to the new one: not judged after such an edit
                    if n2 != name and env[n2]["group"] == e["group"]:
                        env[n2]["tainted"] = True
            elif op == "to_v1":
                _, qname, name = st
                if name not in env or qname in env or "conv" in env[name]:
                    return None
                e = env[name]
                q = quiet_call(L1.to_v1, e["obj"])
                done.append("%s = to_v1(%s)" % (qname, name))
                env[qname] = dict(obj=q, which=e["which"], edits=[], step=k, conv=list(e["edits"]), of=name, group=e["group"], tainted=e["tainted"],
                                  snapshot=copy.deepcopy(q))
                order.append(qname)
                if not e["tainted"]:
                    # converting equal lines gives equal 1.0.0 lines: the same line converted earlier in this history, and the
                    # line built by the constructors (no parser) with the same edits
                    tq = safe_text(q)
                    key = (e["which"], json.dumps(e["edits"], sort_keys=True, default=str))
                    refs = [("the first conversion of an equal line in this history", conv_text.get(key))]
                    try:
                        q0 = quiet_call(L1.to_v1, hist_fresh(case, e["which"], e["edits"]))
                        if q0 is not q:
                            refs.append(("to_v1 of the equal line built by the constructors", safe_text(q0)))
                    except Exception:
                        pass
                    for why, t0 in refs:
                        if isinstance(t0, str) and tq != t0:
                            return ("after step %d (%s): the converted line writes %r, but %s wrote %r"
                                    % (k, done[-1], tq if isinstance(tq, str) else "<%r>" % (tq,), why, t0))
                    if isinstance(tq, str):
                        conv_text.setdefault(key, tq)
            elif op != "parse":
                return None
        except Exception as ex:
            if op == "parse":
                return "after step %d: parsing %r (%s level) raises %r" % (k, hist_text(case, st[2]), st[3], ex)
            if op == "to_v1":
                return None  # whether a line can be converted is run_to_v1's business
            raise
        bad = judge(k)
        if bad:
            return bad
        if observe is not None:
            observe.append(hist_observation(case, env, order, st))
    if observe is not None:
        observe.append(("final", [hist_values(case, env[n]) if ("conv" not in env[n] and not env[n]["tainted"]) else None
                                  for n in order if "conv" not in env[n]]))
    return None


def hist_shared_slot(case, env, order):
    """[name, owner, field, edit] for the first mutable object (a list, a duration, a key / time signature, a tempo indication, the
    component list of a duration or of a time signature) that two fields of live parsed lines hold in common, else None.  Lines made
    by to_v1 and their sources share field objects in the unchanged tree and are left out."""
    L0, L1, U, B, IM = mods()
    seen = {}
    for name in order:
        e = env[name]
        if "conv" in e or e["tainted"] or any(env[n]["group"] == e["group"] for n in order if n != name):
            continue
        spec = case["lines"][e["which"]]
        for f in schemas()[(spec["kind"], tuple(spec["ver"]))][2]:  # the fields the line is written from (some classes keep copies elsewhere)
            o, fn = f.owner, f.name
            v = getattr(sub_of(e["obj"], o), fn, None)
            cands = []
            if isinstance(v, list):
                ints = bool(v) and all(not isinstance(x, str) for x in v)
                cands.append((id(v), ["append", 7 if ints else "x"]))
            elif isinstance(v, U.FractionalSymbolicDuration):
                cands.append((id(v), ["attr", "numerator", int(v.numerator) + 1]))
                if v.add_components is not None:
                    cands.append((id(v.add_components), ["comp_append", [1, 64, None]]))
            elif isinstance(v, U.MatchKeySignature):
                cands.append((id(v), ["attr", "fifths", (int(v.fifths) + 8) % 15 - 7]))
            elif isinstance(v, U.MatchTimeSignature):
                cands.append((id(v), ["attr", "numerator", int(v.numerator) + 1]))
                if isinstance(v.other_components, list):
                    cands.append((id(v.other_components), ["other_append", [2, 4, None]]))
            elif isinstance(v, U.MatchTempoIndication):
                cands.append((id(v), ["attr", "value", str(v.value) + " x"]))
            for key, eop in cands:
                if key in seen and seen[key][:3] != [name, o, fn]:
                    return seen[key]
                seen.setdefault(key, [name, o, fn, eop])
    return None


def hist_values(case, e, line=None):
    """Coq terms of all fields of a parsed line (or of the oracle's fresh copy)."""
    spec = case["lines"][e["which"]]
    nm, elems, fields = schemas()[(spec["kind"], tuple(spec["ver"]))]
    X = e["obj"] if line is None else line
    return [c_value(getattr(sub_of(X, f.owner), f.name), f.codec, True) for f in fields]


def hist_observation(case, env, order, st):
    """One step for the Coq machine: ("parse", which, values of the new object) | ("edit", object index, field index,
    new value of the field on the oracle's fresh copy) | ("nop",)."""
    parsed = [n for n in order if "conv" not in env[n]]
    if st[0] == "parse":
        return ("parse", st[2], hist_values(case, env[st[1]]))
    if st[0] == "edit" and "conv" not in env[st[1]]:
        e = env[st[1]]
        spec = case["lines"][e["which"]]
        nm, elems, fields = schemas()[(spec["kind"], tuple(spec["ver"]))]
        fi = [(f.owner, f.name) for f in fields].index((st[2], st[3]))
        E = hist_fresh(case, e["which"], e["edits"])
        return ("edit", parsed.index(st[1]), fi, c_value(getattr(sub_of(E, st[2]), st[3]), fields[fi].codec, True), st[4][0] == "set")
    return ("nop",)


def exec_parse_hist_full(case, observe=None):
    """The histories that ran earlier in the same process (state at module level outlives a history), then the case."""
    for pc in case.get("prelude", ()):
        try:
            exec_parse_hist(pc)
        except Exception:
            pass
    return exec_parse_hist(case, observe)


def _hist_shrink_main():
    """Runs in a FRESH interpreter (so that nothing an earlier history left at module level is there): reads a case
    with its prelude from stdin, evaluates every candidate of the shrinking in a forked child of the still untouched
    process, prints {"reproduced", "case", "complaint"}."""
    import os
    import sys
    case = json.load(sys.stdin)
    core.setup_import_path()
    schemas()

    def complaint(c):
        r, w = os.pipe()
        pid = os.fork()
        if pid == 0:
            os.close(r)
            out = ""
            try:
                out = exec_parse_hist_full(c) or ""
            except BaseException as e:
                out = ""
            try:
                os.write(w, out.encode("utf-8", "replace")[:60000])
            finally:
                os._exit(0)
        os.close(w)
        buf = b""
        while True:
            chunk = os.read(r, 65536)
            if not chunk:
                break
            buf += chunk
        os.close(r)
        os.waitpid(pid, 0)
        return buf.decode("utf-8", "replace")

    pre = case.get("prelude", [])
    if complaint(dict(case, prelude=[])):
        case = dict(case, prelude=[])
    elif pre and complaint(case):
        keep = core.ddmin(pre, lambda sub: bool(complaint(dict(case, prelude=sub))))
        case = dict(case, prelude=keep)
        if len(keep) == 1:  # fewer steps of the one earlier history that matters
            st = core.ddmin(keep[0]["steps"], lambda sub: bool(complaint(dict(case, prelude=[dict(keep[0], steps=sub)]))))
            case = dict(case, prelude=[dict(keep[0], steps=st)])
    else:
        print(json.dumps({"reproduced": False}))
        return
    st = core.ddmin(case["steps"], lambda sub: bool(complaint(dict(case, steps=sub))))
    if complaint(dict(case, steps=st)):
        case = dict(case, steps=st)
    print(json.dumps({"reproduced": True, "case": case, "complaint": complaint(case)}))


def hist_shrink(case):
    """Shrink a failing history in a fresh process under a CPU-time limit; None if that process does not show it."""
    import os
    import resource
    import subprocess
    import sys
    here = os.path.dirname(os.path.abspath(__file__))
    code = ("import sys; sys.path[:0] = [%r, %r]; import core; core.setup_import_path(); from props import c07; c07._hist_shrink_main()"
            % (os.path.dirname(here), here))

    def limit():
        resource.setrlimit(resource.RLIMIT_CPU, (120, 130))
    try:
        r = subprocess.run([sys.executable, "-c", code], input=json.dumps(case), capture_output=True, text=True, preexec_fn=limit)
        line = [l for l in r.stdout.splitlines() if l.startswith("{")]
        return json.loads(line[-1]) if line else None
    except Exception:
        return None


def g_parse_hist(rng, by_kind, keys_mut, keys_all):
    """One history: two lines A, B sharing field texts; parses before and after in-place edits; to_v1 copies."""
    L0, L1, U, B, IM = mods()
    S = schemas()
    pool = keys_mut if rng.random() < 0.85 else keys_all
    base_a = rng.choice(sorted(set(k[0].partition(":")[0] for k in pool)))  # every kind of line equally often (two thirds of the schemas are info attributes)
    ka = rng.choice([k for k in pool if k[0].partition(":")[0] == base_a])
    A = json.loads(json.dumps(rng.choice(by_kind[ka])))
    fa = S[ka][2]
    force = None
    if rng.random() < 0.2:  # both lines with an EMPTY list in the same field (a default / constant object standing for "no attributes"), grown in place
        le = [f for f in fa if f.codec in ("CList", "CListIn", "CListInt", "CListIntIn") and f.minlen == 0 and f.name != "Onsets" and "tempoIndication" not in ka[0]]
        if le:
            f = rng.choice(le)
            for row in A["fields"]:
                if (row[0], row[1]) == (f.owner, f.name):
                    row[2] = [row[2][0], []]
            force = (f.owner, f.name, "Int" in f.codec)
    mut_a = [(f.owner, f.name, f.codec) for f in fa if mutable_codec(f.codec) or (f.codec == "CStr" and isinstance_tempo(ka[0]))]
    r = rng.random()
    cands = [ka]
    if mut_a and r >= 0.5:
        sig = set((n, c) for o, n, c in mut_a)
        cands = [k for k in keys_all if k != ka and (r >= 0.75 or k[1] == ka[1]) and any((f.name, f.codec) in sig and f.chars == g.chars for f in S[k][2] for g in fa if g.name == f.name and g.codec == f.codec)] or [ka]
    kb = rng.choice(cands)
    Bs = json.loads(json.dumps(rng.choice(by_kind[kb])))
    shared = []
    for row in Bs["fields"]:
        fb = next(f for f in S[kb][2] if (f.owner, f.name) == (row[0], row[1]))
        if not (mutable_codec(fb.codec) or row[2][0] == "tempo"):
            continue
        src = [ra for ra in A["fields"] for g in fa if (g.owner, g.name) == (ra[0], ra[1]) and g.name == fb.name and g.codec == fb.codec and g.chars == fb.chars
               and (ka != kb or g.owner == fb.owner)]
        if src and (rng.random() < 0.8 or (force and row[1] == force[1])):
            pick = [ra for ra in src if force and ra[1] == force[1] and ra[0] == force[0]] or src
            row[2] = json.loads(json.dumps(rng.choice(pick)[2]))
            shared.append((row[0], row[1]))
    for sp in (A, Bs):
        for k in ("text", "nth", "marker"):
            sp.pop(k, None)
    case = {"kind": "parse_hist", "lines": {"A": A, "B": Bs}, "steps": []}
    steps = case["steps"]
    live = {}   # name -> (which, edits)
    cnt = [0]

    def level(which):
        k = case["lines"][which]["kind"].partition(":")[0]
        return "file" if k not in FILE_LEVEL_EXCLUDED and rng.random() < 0.5 else "class"

    def parse(which):
        name = "%s%d" % (which.lower(), cnt[0])
        cnt[0] += 1
        steps.append(["parse", name, which, level(which)])
        live[name] = (which, [])
        return name

    def edit(name, line=None, conv=False):
        which, edits = live[name]
        if force and not conv and which == "A" and not any(st[0] == "edit" for st in steps):
            x = (lambda: rng.choice([0, 7, rng.randint(0, 5000)])) if force[2] else (lambda: rng.choice(ATTRS + WORDS))
            op = rng.choice([["append", x()], ["append", x()], ["insert0", x()], ["iadd", [x(), x()]]])
            steps.append(["edit", name, force[0], force[1], op])
            edits.append((force[0], force[1], op))
            return True
        key = (case["lines"][which]["kind"], tuple(case["lines"][which]["ver"]))
        E = line if line is not None else hist_fresh(case, which, edits)
        if conv:
            cand = [(o, fn, None) for o, fn, v in hist_fields(E) if g_edit(rng, v) is not None]
        else:
            flds = S[key][2]
            cand = [(f.owner, f.name, f) for f in flds if mutable_codec(f.codec) or
                    isinstance(getattr(sub_of(E, f.owner), f.name, None), U.MatchTempoIndication)]
            pref = [c for c in cand if (c[0], c[1]) in shared or which == "A"]
            if pref and rng.random() < 0.75:
                cand = pref
            if not cand or rng.random() < 0.2:  # a new value for a field of this line object
                setc = [f for f in flds if f.name != "Attribute" and (f.codec == "CInt" or (f.codec == "CStr" and f.name in ("Anchor", "Id")) or f.codec in ("CList", "CListIn", "CListInt", "CListIntIn", "CFrac"))]
                if setc:
                    f = rng.choice(setc)
                    t = g_field(rng, key[0], f, {"ver": key[1]})
                    if t[0] in ("frac", "fracsum") and any(c[0] > 64 or c[1] > 130 for c in ([t[1]] if t[0] == "frac" else t[1])):
                        t = ["frac", [1, 8, None]]
                    op = ["set", t]
                    steps.append(["edit", name, f.owner, f.name, op])
                    edits.append((f.owner, f.name, op))
                    return True
        if not cand:
            return False
        o, fn, f = rng.choice(cand)
        op = g_edit(rng, getattr(sub_of(E, o), fn), ints=bool(f is not None and "Int" in f.codec))
        if op is None:
            return False
        steps.append(["edit", name, o, fn, op])
        if not conv:
            edits.append((o, fn, op))
        return True

    if rng.random() < 0.35:  # both orders: what the first text leaves behind meets the second
        parse("B")
        parse("A")
    else:
        parse("A")
        if rng.random() < 0.6:
            parse("B")
    for _ in range(rng.randint(1, 3)):
        names = sorted(live)
        pa = [n for n in names if live[n][0] == "A"]
        edit(rng.choice(pa if (rng.random() < 0.6 or force) else names))
        parse(rng.choice(["A", "B", "B"]))
        if rng.random() < 0.4:
            parse(rng.choice(["A", "B"]))
    base = case["lines"]["A"]["kind"].partition(":")[0]
    if tuple(case["lines"]["A"]["ver"]) != V1 and base not in ("snote", "note") and rng.random() < 0.5:
        src = rng.choice([n for n in sorted(live) if live[n][0] == "A"])
        try:
            q = quiet_call(L1.to_v1, hist_fresh(case, "A", live[src][1]))
        except Exception:
            q = None
        if q is not None:
            steps.append(["to_v1", "q", src])
            live["q"] = ("A", [])
            if edit("q", line=q, conv=True):
                a2 = parse("A")
                parse("B")
                steps.append(["to_v1", "q2", a2])  # the same text converted again: a fresh 1.0.0 line
            del live["q"]
    steps.append(["probe"])
    return case


def c_hist_term(case, obs):
    """Coq term of one observed history for hist_check."""
    whichs = sorted(case["lines"])
    ls = []
    for w in whichs:
        sp = case["lines"][w]
        ls.append("(%s, %s)" % (sname(sp["kind"], tuple(sp["ver"])), cstr(hist_text(case, w))))
    steps, final = [], None
    for o in obs:
        if o[0] == "parse":
            steps.append("(HParse %s, Some %s)" % (cnat(whichs.index(o[1])), clist(o[2])))
        elif o[0] == "edit":
            steps.append("(%s %s %s %s, None)" % ("HSet" if o[4] else "HEdit", cnat(o[1]), cnat(o[2]), o[3]))
        elif o[0] == "nop":
            steps.append("(HNop, None)")
        else:
            final = clist([copt(v, clist) for v in o[1]])
    return "(%s, %s, %s)" % (clist(ls), clist(steps), final)


def run_parse_histories(ctx, kept, n):
    L0, L1, U, B, IM = mods()
    S = schemas()
    by_kind = {}
    for sp in kept:
        if "marker" not in sp:
            by_kind.setdefault((sp["kind"], tuple(sp["ver"])), []).append(sp)
    keys_all = sorted(by_kind)
    keys_mut = [k for k in keys_all if any(mutable_codec(f.codec) for f in S[k][2]) or isinstance_tempo(k[0])]
    del HIST_TERMS[:], HIST_KEPT[:]
    if not keys_mut:
        return
    nbad = 0
    earlier = []
    for i in range(n):
        case = g_parse_hist(ctx.rng, by_kind, keys_mut, keys_all)
        ctx.evaluations += 1
        ctx.nontrivial(json.dumps(case, sort_keys=True))
        for st in case["steps"]:
            if st[0] == "edit":
                ctx.count("parse_history:edit_%s%s" % (st[4][0], "(%s)" % st[4][1] if st[4][0] == "attr" else ""))
            else:
                ctx.count("parse_history:step_%s%s" % (st[0], ("_" + st[3]) if st[0] == "parse" else ""))
        if any(st[0] == "edit" and st[4][0] in ("append", "insert0", "iadd") and any(r[0] == st[2] and r[1] == st[3] and r[2][1] == [] for r in case["lines"]["A"]["fields"] if r[2][0] in ("list", "listint")) for st in case["steps"]):
            ctx.count("parse_history:empty_list_grown_in_place")
        ctx.count("parse_history:kind_%s" % case["lines"]["A"]["kind"].partition(":")[0])
        ctx.count("parse_history:lines_%s" % ("of_the_same_kind_and_version" if case["lines"]["A"]["kind"] == case["lines"]["B"]["kind"] and case["lines"]["A"]["ver"] == case["lines"]["B"]["ver"]
                                              else "of_different_kinds_or_versions"))
        obs = []
        try:
            bad = exec_parse_hist(case, obs)
        except Exception as e:
            bad = "the history raises %r" % (e,)
        if bad:
            nbad += 1
            ctx.count("parse_history:failing")
            if nbad <= 2:
                # what an earlier history left behind at module level is part of the input: shrink in a fresh process
                res = hist_shrink(dict(case, prelude=[c for c in earlier if any(st[0] == "edit" for st in c["steps"])]))
                if res and res.get("reproduced"):
                    ctx.violation("parse history (the parsed fields are a function of the text and the version only): " + (res["complaint"] or bad), dict(res["case"], what="parse_history"))
                else:
                    ctx.violation("parse history (the parsed fields are a function of the text and the version only; seen only after the lines the other streams of this "
                                  "run parsed before in the same process): " + bad, dict(case, what="parse_history"))
            earlier.append(case)
            continue
        earlier.append(case)
        try:
            HIST_TERMS.append(c_hist_term(case, obs))
            HIST_KEPT.append(dict(case, what="parse_history_model"))
        except Mismatch:
            ctx.count("parse_history:model_skipped(value of unexpected shape)")
        if i < 2:
            ctx.sample(case)


def exec_file_hist(case, work):
    """load_matchfile is a function of the CONTENT of the file: load, edit the loaded lines in place, load the unchanged file
    again, write other lines to the same path, load again.  Returns None or the complaint."""
    import os
    import warnings
    L0, L1, U, B, IM = mods()
    path = os.path.join(work, "c07_file_history_%d.match" % os.getpid())

    def load(texts):
        with warnings.catch_warnings():
            warnings.simplefilter("ignore")
            return quiet_call(IM.load_matchfile, path)

    def put(texts):
        with open(path, "w") as f:
            f.write("\n".join(texts) + "\n")

    def shown(mf):
        return sorted(set(l.matchline for l in mf.lines))
    X, Y = case["texts_x"], case["texts_y"]
    want_x, want_y = sorted(set(t for t in X if t)), sorted(set(t for t in Y if t))
    vx, vy = tuple(case["ver"]), tuple(case.get("ver_y", case["ver"]))

    def check(mf, texts, want, ver, what):
        got_v = sorted(set(tuple(l.version) for l in mf.lines))
        if got_v != [ver]:
            return ("%s: a file of version %s%s gives line objects of version(s) %s" % (what, ".".join(map(str, ver)),
                    "" if any("matchFileVersion" in t for t in texts) else " without a version line (documented default 0.1.0)", got_v))
        got = shown(mf)
        if got != want:
            d = [t for t in got if t not in want] or ["(%d lines instead of %d)" % (len(got), len(want))]
            return "%s: load_matchfile gives %r, which the file does not hold (it holds %r)" % (what, d[0], ([t for t in want if t not in got] or ["..."])[0])
        return None
    try:
        put(X)
        mf1 = load(X)
        if check(mf1, X, want_x, vx, ""):
            return None  # a plain file that is not read back: run_files reports that
        for line in list(mf1.lines)[:case.get("edit_lines", 4)]:
            for o, fn, v in hist_fields(line):
                if isinstance(v, list) and (not v or isinstance(v[0], str)):
                    v.append("x")
                elif isinstance(v, U.FractionalSymbolicDuration):
                    v.numerator = int(v.numerator) + 1
                elif isinstance(v, (U.MatchKeySignature,)):
                    v.fifths = (int(v.fifths) + 8) % 15 - 7
                elif isinstance(v, int) and not isinstance(v, bool) and fn in ("Velocity", "Measure", "Time", "Onset"):
                    setattr(sub_of(line, o), fn, v + 1)
        bad = check(load(X), X, want_x, vx, "the file was not touched, the line objects of the first load were edited in place, second load")
        if bad:
            return bad
        put(Y)
        bad = check(load(Y), Y, want_y, vy, "other lines were written to the same path")
        if bad:
            return bad
        put(X)
        bad = check(load(X), X, want_x, vx, "the first lines were written to the path again")
        if bad:
            return bad
    finally:
        try:
            os.remove(path)
        except OSError:
            pass
    return None


def run_file_histories(ctx, good, n_per_version):
    L0, L1, U, B, IM = mods()
    rng = ctx.rng
    by_ver = {}
    for spec in good:
        if spec["kind"].partition(":")[0] not in FILE_LEVEL_EXCLUDED and spec["kind"] != "info:matchFileVersion":
            by_ver.setdefault(tuple(spec["ver"]), []).append(spec)

    def file_texts(ver, pool, tag):
        objs = [construct("info:matchFileVersion", ver, {(None, "Attribute"): "matchFileVersion", (None, "Value"): U.Version(*ver)})]
        for k, sp in enumerate(rng.choice(pool) for _ in range(rng.randint(5, 10))):
            sp = json.loads(json.dumps(sp))
            for fld in sp["fields"]:
                if fld[1] in ("Anchor", "Id") and fld[2][0] == "str":
                    fld[2][1] = "%s%s%d" % (fld[2][1], tag, k)
            objs.append(construct(sp["kind"], tuple(sp["ver"]), {(o, n): to_py(t) for o, n, t in sp["fields"]}))
        return [o.matchline for o in objs]
    nbad = 0
    for ver in V0S + [V1]:
        pool = by_ver.get(ver, [])
        mut = [sp for sp in pool if any(t[0] in ("list", "frac", "key") for o, n_, t in sp["fields"])]
        if not pool:
            continue
        for fno in range(n_per_version):
            try:
                case = {"kind": "file_hist", "ver": list(ver), "texts_x": file_texts(ver, mut or pool, "u"), "texts_y": file_texts(ver, pool, "w")}
            except Exception:
                continue
            ctx.evaluations += 1
            ctx.count("file_history:%s" % ".".join(map(str, ver)))
            ctx.nontrivial(("file_hist", json.dumps(case, sort_keys=True)))
            try:
                bad = exec_file_hist(case, ctx.work)
            except Exception as e:
                bad = None
                ctx.count("file_history:raises")
            if bad:
                nbad += 1
                if nbad <= 2:
                    ctx.violation("match file of version %s, history load / edit / load / rewrite / load: %s" % (".".join(map(str, ver)), bad), dict(case, what="file_history"))
    # what the last file left behind meets a file WITHOUT version line (documented default: 0.1.0)
    if by_ver.get(V1) and by_ver.get((0, 1, 0)):
        for fno in range(n_per_version):
            try:
                case = {"kind": "file_hist", "ver": list(V1), "ver_y": [0, 1, 0], "texts_x": file_texts(V1, by_ver[V1], "u"),
                        "texts_y": file_texts((0, 1, 0), [sp for sp in by_ver[(0, 1, 0)] if not sp["kind"].startswith("info:")] or by_ver[(0, 1, 0)], "w")[1:]}
            except Exception:
                continue
            ctx.evaluations += 1
            ctx.count("file_history:1.0.0_then_0.1.0_without_version_line")
            try:
                bad = exec_file_hist(case, ctx.work)
            except Exception as e:
                bad = None
                ctx.count("file_history:raises")
            if bad and nbad < 2:
                nbad += 1
                ctx.violation("match files of version 1.0.0 and 0.1.0 (no version line), history load / edit / load / rewrite / load: %s" % bad, dict(case, what="file_history"))


def run(ctx):
    ctx.rule = ("Schema-driven generation: for every reflected line class x format version (info/scoreprop/meta once per attribute; "
                "219 schemas) N random objects, one value per field chosen by the field's codec (identifiers without separators, all "
                "accidentals incl. none, octaves -1..9 and '-', rests, measures/beats, durations a, a/b, a/b/c and 2-3 additive "
                "components, numerators/denominators around 1024, 4/5/2-decimal times on the grid, at decimal boundaries x.xxxx5 and "
                "at exact binary ties, attribute lists of length 0-5, keys -7..7 x mode x alternative key, time signatures, ticks, "
                "controller values).  Every distinct generated line counts as non-trivial (each one is written, parsed at class and "
                "file level, compared field by field, written again, and written once more after read-only uses of its fields: sums of its "
                "durations in both orders, int +, sum(), comparisons, formatting, to_v1); plus every row of the key table, every distinct "
                "sum of durations and every distinct duration program (2-4 durations from text a, a/b, a/b/c with 1-3 additive components or "
                "from numbers, then 4-9 operations + / int + / radd / sum / ==, float, str re-using earlier operands and results on either "
                "side, x + x included; 60% musical values within the bound, 20% general small values whose lcm forms often leave the bound, 20% with numerators/denominators 1020..1030 and up to 5000; after every step every live object "
                "is inspected).  Dispatch: every generated line that is a line of a file is also read by importmatch.parse_matchline over the ordered "
                "parser list of its version, plus a small-scope sweep: every kind x version x every text by which some parser recognises its kind "
                "(insertion-, hammer_bounce-, trailing_played_note-, -deletion., -trailing_score_note., -no_played_note.) and other words of the format "
                "(note, snote, -note, trill, ornament, ...) put inside an identifier of the line; 6% of all identifiers hold such a word.  Files: per "
                "version 2 (quick) / 30 files written with MatchFile.write and read with load_matchfile (version line; 0.1.0 every second file "
                "without; unique ids; repeated and empty lines).  Versions: interpret_version on canonical, pre-1.0 and malformed texts, "
                "get_version on version lines of every version in both spellings, on every generated info line and on the empty line.  "
                "Parse histories (state carried between calls): two lines whose lists / durations / key and time signatures hold the same values (same kind 50%, "
                "another kind or version 50%; every kind of line equally often; 20% with an empty list in both) are parsed at class and file level in either order, "
                "one parsed object is edited in place (list methods, components of durations and signatures) or a field is assigned, the lines are parsed again, "
                "pre-1.0 lines are converted, the copy edited, the text parsed and converted again, a closing probe edits any object two fields hold in common; "
                "after every step every live object is judged from its own text and its own edits (each distinct history counts as non-trivial).  File histories: "
                "load, edit the loaded lines, load again, other lines to the same path, load; 1.0.0 then 0.1.0 without version line.  "
                "Key signatures through the algorithm model: all 30 keys x the four formatters + random pairs (list form 50% with 1-2 components) written; "
                "every written text and per text variants (blanks / tabs around parts and separators, lower case, brackets, other mode words, doubled "
                "separators, text after the bracket, 0.1.0 with other letter cases / without n / short mode words / without brackets) and 250 (quick) short "
                "texts over the alphabet of the format that are mostly no key are read; every distinct text counts as non-trivial.")
    ctx.trusted = ["Coq 8.16.1 kernel incl. vm_compute", "reflector + generators + Python<->Coq value printers in harness/props/c07.py",
                   "Python re / str.format (the model's scanner is validated against them on generated lines only)",
                   "determinism of the tabulated key-signature functions",
                   "the fail-closed reader of the regular expressions (regex_items) and the hand-written structure in which every from_matchline "
                   "method combines its patterns (parser_spec); both validated by the dispatch correspondence only",
                   "the reader of key_signature_pattern / pitch_class_pattern through the parse tree of Python's re module (first_then_reps, fail closed)"]
    ctx.assumptions = ["field texts are ASCII; strings are non-empty, stripped and free of the separators of their field (fields_ok)",
                       "floats of fixed-point fields are fed as the double nearest to a d-decimal number when 'equal fields' is demanded; "
                       "other floats (decimal boundaries, binary ties) are checked for the rounded value and the fixpoint only",
                       "bound_integers is modelled with exact rationals; cases within 1e-6 of a rounding/argmin tie are counted and not compared with the model",
                       "negative durations are outside the format (digits only)",
                       "histories: a line made by to_v1 and its source share field objects in the unchanged tree (not forbidden by the statement): after an in-place "
                       "edit of one of the two the other is not judged; everything else is judged against fresh constructor-built objects with the same edits",
                       "identifiers hold no separators (comma, parentheses, brackets) and info strings hold no complete line of another kind; the order of "
                       "the lines of a file is not compared; only the six format versions of the tables are claimed"]
    ctx.matchers["C07-K1"] = lambda r: isinstance(r, dict) and r.get("kind") == "frac_prog" and r.get("what") == "empty_text"
    S, rows = gen()
    for (kind, ver), (nm, elems, fields) in sorted(S.items()):
        unk = [f.name for f in fields if f.codec == "CUnknown"]
        if unk:
            ctx.violation("formatter of field(s) %s of %s %s behaves like no codec of the model" % (unk, kind, ver),
                          {"kind": kind, "ver": list(ver), "what": "reflect", "fields": unk}, no_input=True)
    for kind, ver in expected_catalogue():
        if (kind, ver) not in S:
            ctx.violation("the line kind %s of format version %s is gone from the tables of the library" % (kind, ".".join(map(str, ver))),
                          {"kind": kind, "ver": list(ver), "what": "catalogue"}, no_input=True)
    ctx.log("reflection done")
    ok, why = ctx.coq_props(expect_min=87)
    ctx.log("proofs checked")
    key_oracle(ctx, rows)
    rng = ctx.rng
    per = 12 if ctx.tier == "quick" else 260
    specs = []
    cat = sorted(S.keys())
    for kind, ver in cat:
        for nth in range(per):
            try:
                specs.append(dict(g_line(rng, kind, ver), nth=nth))
            except ValueError as e:
                ctx.count("generator:no_values_for_schema %s %s" % (kind, ver))
                break
    for spec in specs:  # distribution of the corner cases the quantifier names
        for o, n_, t in spec["fields"]:
            if t[0] in ("list", "listint"):
                ctx.count("gen:list_length_%d" % len(t[1]))
            elif t[0] == "float":
                ctx.count("gen:float_on_decimal_grid" if t[2] else "gen:float_at_x.xxxx5_boundary_or_binary_tie_or_random")
            elif t[0] in ("frac", "fracsum"):
                trs = [t[1]] if t[0] == "frac" else t[1]
                ctx.count("gen:duration_with_%d_components" % len(trs))
                if any(c[2] is not None for c in trs):
                    ctx.count("gen:duration_with_tuple_divisor")
                if any(1020 <= c[0] <= 1030 or 1020 <= c[1] <= 1030 for c in trs):
                    ctx.count("gen:duration_numerator_or_denominator_1020..1030")
                if any(c[0] > 1030 or c[1] > 1030 for c in trs):
                    ctx.count("gen:duration_above_1030")
            elif t[0] == "none":
                ctx.count("gen:none(%s)" % n_)
    terms, kept, pterms, pkept = [], [], [], []
    del DISP_TERMS[:], DISP_KEPT[:], UP_TERMS[:], UP_KEPT[:]
    nviol0 = len(ctx.violations)
    mspecs = marker_specs(rng, ctx.tier != "quick")
    good = []
    for spec in specs + mspecs:
        base = spec["kind"].partition(":")[0]
        if "marker" in spec:
            ctx.count("marker_in_identifier:%s" % spec["marker"])
        else:
            ctx.count("%s@%s" % (base, ".".join(map(str, spec["ver"]))))
        before = len(ctx.violations) + sum(ctx.known_hits.values())
        obj = run_line(ctx, spec, terms, kept)
        ctx.nontrivial(json.dumps(spec, sort_keys=True))
        if len(ctx.violations) - nviol0 > 25:
            break
        clean = lambda: before == len(ctx.violations) + sum(ctx.known_hits.values())
        q = None
        if obj is not None and tuple(spec["ver"]) != V1 and clean():
            q = run_to_v1(ctx, spec, obj, pterms, pkept)
        if obj is not None and clean() and getattr(obj, "_c07_case", None) is not None and "marker" not in spec:
            run_uses(ctx, spec, obj, q)
        if obj is not None and clean():
            good.append(spec)
    for s in kept[:3]:
        ctx.sample(s)
    ctx.log("lines run on the implementation: %d (+ %d with markers)" % (len(specs), len(mspecs)))
    nhist = 160 if ctx.tier == "quick" else 3000
    if not ok:
        run_parse_histories(ctx, kept, nhist)
        if len(ctx.violations) == nviol0:
            ctx.violation("proof obligations of Props/C07.v no longer check: " + why, {"theorem_or_build": why}, no_input=True)
        return
    terms = ["(%s, %s, %s, %s, %s)" % (a, b, c, d, e if e is not None else "(@nil string)") for a, b, c, d, e in terms]
    failing = [] if not terms else ctx.coq_failing("lines", "From PV Require Import Model.C07 Gen.C07_Schemas.", "", terms, "check_case_hist key_tab", shard=300)
    ctx.obligation("correspondence: model format_line / parse_line / round trip / fields_ok / second text / text after read-only uses of the fields "
                   "= implementation on %d generated lines of %d schemas" % (len(terms), len(S)), not failing, failing[:5])
    for i in failing[:5]:
        ctx.violation("model and implementation disagree on line %r" % kept[i]["text"], dict(kept[i], what="model"))
    ctx.log("check_case_hist done")
    v1terms = [t for t in pterms if isinstance(t, tuple)]
    pterms = [t for t in pterms if not isinstance(t, tuple)]
    failing = [] if not v1terms else ctx.coq_failing("tov1", "From PV Require Import Model.C07.", "", [t[1] for t in v1terms], "check_to_v1")
    ctx.obligation("correspondence: to_v1 field values = model line_to_v1 on %d converted lines (note pairs, deletions, insertions and variants, "
                   "trills, sustain and soft pedal of 0.1.0-0.5.0)" % len(v1terms), not failing, failing[:5])
    for i in failing[:5]:
        ctx.violation("to_v1 differs from the model line_to_v1 (a field of the converted line is not the carried-over / converted value)", v1terms[i][2])
    failing = [] if not pterms else ctx.coq_failing("pitch", "From PV Require Import Model.C07.", "", pterms,
                              "fun c => match c with (s, a, o, m) => match midi_pitch s a o with Some x => Z.eqb x m | None => false end end")
    ctx.obligation("correspondence: to_v1 MIDI pitch = model midi_pitch on %d converted notes" % len(pterms), not failing, failing[:5])
    for i in failing[:5]:
        ctx.violation("to_v1 pitch differs from the model", pkept[i])
    failing = [] if not UP_TERMS else ctx.coq_failing("up", "From PV Require Import Model.C07 Model.C07_Up Gen.C07_Parsers.", "", UP_TERMS, "check_up up_tabs", shard=1200)
    ctx.obligation("correspondence: to_v1 of %d info and meta lines of 0.1.0-0.5.0 = model info_to_v1 / meta_to_v1 (kind, attribute after renaming, "
                   "value, measure, beat, offset, time; lines without an equivalent in 1.0.0 raise)" % len(UP_TERMS), not failing, failing[:5])
    for i in failing[:5]:
        ctx.violation("to_v1 of an info / meta line differs from the model (kind, attribute or a carried-over value)", UP_KEPT[i])
    ctx.log("to_v1 correspondences done")
    failing = [] if not DISP_TERMS else ctx.coq_failing("disp", "From PV Require Import Model.C07 Model.C07_Disp Gen.C07_Schemas Gen.C07_Parsers.", "", DISP_TERMS,
                              "disp_check key_tab parser_table", shard=600)
    ctx.obligation("correspondence: model dispatch (re.search of every pattern as written, independent searches for the parts of a line, the ordered "
                   "parser list of the version, decoders) chooses the same method and the same field values as importmatch.parse_matchline on %d "
                   "lines (incl. %d with a kind identifier or another word of the format inside an identifier)" % (len(DISP_TERMS), len(mspecs)), not failing, failing[:5])
    for i in failing[:5]:
        ctx.violation("model and implementation disagree on which parser of the ordered list reads line %r" % DISP_KEPT[i]["text"], DISP_KEPT[i])
    ctx.log("line correspondences done")
    run_files(ctx, good, 2 if ctx.tier == "quick" else 30)
    run_versions(ctx, sorted(set(k["text"] for k in kept if k["kind"].startswith("info:")))[:400 if ctx.tier == "quick" else 4000])
    ctx.log("files and versions done")
    run_fracs(ctx, 600 if ctx.tier == "quick" else 12000)
    ctx.log("duration sums done")
    run_frac_programs(ctx, 300 if ctx.tier == "quick" else 6000)
    run_keys_code(ctx)
    ctx.log("key signatures through the algorithm model done")
    run_file_histories(ctx, good, 1 if ctx.tier == "quick" else 12)
    # last, because these histories EDIT parsed lines: whatever a defective parser keeps at module level must not reach the other streams
    run_parse_histories(ctx, kept, nhist)
    ctx.log("parse histories run on the implementation: %d for the model" % len(HIST_TERMS))
    failing = [] if not HIST_TERMS else ctx.coq_failing("hist", "From PV Require Import Model.C07 Model.C07_Hist Gen.C07_Schemas.", "", HIST_TERMS, "hist_check key_tab", shard=40)
    ctx.obligation("correspondence: pure history machine of the model (every parse = parse_line of the text, an edit changes the edited object only) = "
                   "implementation on %d histories (parse, edit a parsed line in place, parse again; two lines sharing field texts)" % len(HIST_TERMS), not failing, failing[:5])
    for i in failing[:5]:
        ctx.violation("model and implementation disagree on a history of parses and in-place edits (a parsed line depends on more than its text and its own edits)", HIST_KEPT[i])
    ctx.extra["class_x_version_coverage"] = {k: v for k, v in sorted(ctx.counts.items()) if "@" in k}
    ctx.extra["schemas_reflected"] = len(S)


def replay(obj):
    core.setup_import_path()
    r = obj.get("replay", obj)
    print(json.dumps(r, indent=1, default=str)[:4000])
    L0, L1, U, B, IM = mods()
    if "fields" in r and "kind" in r and isinstance(r["fields"], list) and r["fields"] and isinstance(r["fields"][0], list):
        ver = tuple(r["ver"])
        vals = {(o, n): to_py(t) for o, n, t in r["fields"]}
        o = construct(r["kind"], ver, vals)
        print("object :", type(o).__module__, type(o).__name__)
        t = o.matchline
        print("text   :", t)
        V = U.Version(*ver)
        try:
            p = type(o).from_matchline(t, version=V)
            print("parsed :", type(p).__name__, {fn: str(getattr(p, fn, None)) for fn in p.field_names})
            print("text 2 :", p.matchline)
        except Exception as e:
            print("parse failed:", repr(e))
        if r["kind"].partition(":")[0] not in FILE_LEVEL_EXCLUDED:
            try:
                obs = observe_dispatch(ver, t)
                print("file level (parse_matchline over the ordered list):", "None" if obs is None else "%s (method %d) -> %s" % (type(obs[1]).__name__, obs[0], obs[1].matchline))
            except Exception as e:
                print("parse_matchline raises:", repr(e))
        if ver != V1:
            try:
                print("to_v1  :", L1.to_v1(o).matchline)
            except Exception as e:
                print("to_v1 failed:", repr(e))
        if r.get("what") == "history":
            p = type(o).from_matchline(t, version=V)
            for L in (o, p):
                fr = [x for fn in L.field_names for x in frac_objs(getattr(L, fn, None))]
                for sub in ("snote", "stime"):
                    if hasattr(L, sub):
                        fr += [x for fn in getattr(L, sub).field_names for x in frac_objs(getattr(getattr(L, sub), fn, None))]
                for a in fr:
                    for b in fr:
                        a + b
            print("after sums of the durations: generated object writes", o.matchline)
            print("                             parsed object writes   ", p.matchline)
    elif r.get("kind") == "file":
        import os
        import tempfile
        import warnings
        texts = r.get("texts")
        if texts is None:
            texts = [construct(sp["kind"], tuple(sp["ver"]), {(o, n): to_py(t) for o, n, t in sp["fields"]}).matchline for sp in r["lines"]]
        d = tempfile.mkdtemp(prefix="c07_replay_", dir=os.environ.get("VERIF_WORK", "/verif/.work"))
        path = os.path.join(d, "replay.match")
        with open(path, "w") as f:
            f.write("\n".join(texts) + "\n")
        print("file of version %s, %d lines; first line: %r" % (r["ver"], len(texts), texts[0]))
        try:
            print("get_version(first line):", tuple(IM.get_version(texts[0])))
            with warnings.catch_warnings():
                warnings.simplefilter("ignore")
                mf = IM.load_matchfile(path)
            got = {}
            for g in mf.lines:
                got.setdefault(g.matchline, []).append(type(g).__name__)
            for t in dict.fromkeys(x for x in texts if x):
                print("  %-28s %s" % (",".join(got.get(t, ["-- NOT READ BACK WITH THIS TEXT --"])), t))
        except Exception as e:
            print("load_matchfile raises:", repr(e))
        finally:
            os.remove(path)
            os.rmdir(d)
    elif r.get("kind") == "key_code":
        if r.get("what") == "write":
            k, comps = r["key"], r.get("components", [])
            o = U.MatchKeySignature(k[0], k[1], k[2], k[3], other_components=[U.MatchKeySignature(*c) for c in comps])
            try:
                print("%s(%r, components %r) = %r" % (KEYFMT_FUNS[r["fmt"]][0], k, comps, getattr(U, KEYFMT_FUNS[r["fmt"]][0])(o)))
            except Exception as e:
                print("%s(%r) raises %r" % (KEYFMT_FUNS[r["fmt"]][0], k, e))
        else:
            try:
                q = U.interpret_as_key_signature(r["text"])
                print("interpret_as_key_signature(%r) = %s" % (r["text"], None if q is None else (
                    q.fifths, q.mode, q.fifths_alt, q.mode_alt, [(c.fifths, c.mode, c.fifths_alt, c.mode_alt) for c in q.other_components])))
                if q is not None:
                    print("written again in the 1.0.0 spelling: %r" % U.format_key_signature_v1_0_0(q))
            except Exception as e:
                print("interpret_as_key_signature(%r) raises %r" % (r["text"], e))
    elif r.get("kind") == "first_line":
        try:
            print("get_version(%r) = %s" % (r["text"], tuple(IM.get_version(r["text"]))))
        except Exception as e:
            print("get_version(%r) raises %r" % (r["text"], e))
    elif r.get("kind") == "version_text":
        try:
            print("interpret_version(%r) = %s" % (r["text"], tuple(U.interpret_version(r["text"]))))
        except Exception as e:
            print("interpret_version(%r) raises %r" % (r["text"], e))
    elif r.get("kind") == "file_hist":
        print("file X:\n  " + "\n  ".join(r["texts_x"]))
        print("file Y:\n  " + "\n  ".join(r["texts_y"]))
        print("load X, edit the loaded lines in place, load X again, write Y to the same path, load, write X again, load")
        print("oracle :", exec_file_hist(r, os.environ.get("VERIF_WORK", "/verif/.work")) or "no complaint")
    elif r.get("kind") == "parse_hist":
        for w in sorted(r["lines"]):
            print("line %s (%s %s): %s" % (w, r["lines"][w]["kind"], ".".join(map(str, r["lines"][w]["ver"])), hist_text(r, w)))
        for k, st in enumerate(r["steps"]):
            print("step %d: %s" % (k, st[1] + " = parse line " + st[2] + " (%s level)" % st[3] if st[0] == "parse" else
                                   st[1] + " = to_v1(" + st[2] + ")" if st[0] == "to_v1" else
                                   "edit in place, through one of them, an object that two fields hold in common (if there is one)" if st[0] == "probe" else
                                   st[1] + "." + describe_edit(st[2], st[3], st[4])))
        for pc in r.get("prelude", ()):
            print("before, in the same process: lines", [hist_text(pc, w) for w in sorted(pc["lines"])], "steps", json.dumps(pc["steps"]))
        print("oracle :", exec_parse_hist_full(r) or "no complaint")
    elif r.get("kind") == "frac_prog":
        F = U.FractionalSymbolicDuration
        env = {}
        for st in r["steps"]:
            op = st[0]
            if op == "parse":
                env[st[1]] = U.interpret_as_fractional(st[2])
            elif op == "new":
                env[st[1]] = F(st[2], st[3], st[4])
            elif op == "add":
                env[st[1]] = env[st[2]] + env[st[3]]
            elif op == "addint":
                env[st[1]] = env[st[2]] + st[3]
            elif op == "raddint":
                env[st[1]] = st[2] + env[st[3]]
            elif op == "sum":
                env[st[1]] = sum([env[i] for i in st[2]])
            print("after", json.dumps(st), ":", {k: "%s (= %s/%s)" % (str(v), v.numerator, v.denominator * (v.tuple_div or 1)) for k, v in env.items()})
        print("oracle :", exec_frac_prog(r["steps"]) or "no complaint")
    elif r.get("kind") == "frac_add":
        F = U.FractionalSymbolicDuration
        parts = [F(*c) for c in r["comps"]]
        s = parts[0]
        for p in parts[1:]:
            s = s + p
        print("sum:", s.numerator, s.denominator, s.add_components, "text", str(s), "float", float(s))
    return 0
