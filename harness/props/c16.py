"""C16 -- transposition moves every note by the interval and leaves the input alone.

Tie to the source
* T2: the real ``_transpose_note_inplace`` (on real ``score.Note`` objects) is executed on the
  whole domain of the property -- 7 steps x alterations -2..2 x octaves 0..8 x 39 interval
  classes x 2 directions = 24570 rows -- and the graph is written to Gen/C16_T*.v; the real
  ``transpose_note`` on 7 steps x 5 alterations x 39 classes x 2 directions (2730 rows, None =
  assertion) to Gen/C16_TN.v; INTERVALCLASSES / INTERVAL_TO_SEMITONES / Interval.semitones to
  Gen/C16_Tab.v.  Proofs/C16_tab.v re-proves in the kernel that every row equals the model.
* C: driver correspondence -- generated scores and parts (ties, chords, grace notes, rests,
  unpitched notes, slurs, measures, signatures; Score and Part arguments) are flattened before
  and after ``transpose`` and the Coq model ``transpose_elems`` is evaluated on the same input.
* direct oracle in Python (independent of the model): diatonic spec per note, fingerprints of
  everything else, argument fingerprint before/after, up-then-down restores the spelling.
"""
import copy
import hashlib
import json
from concurrent.futures import ThreadPoolExecutor

import core
import t1
from core import cz, cbool, clist, ctuple

STEPS7 = ["C", "D", "E", "F", "G", "A", "B"]
STEP_IDX = {s: i for i, s in enumerate(STEPS7)}
QUALS = ["dd", "d", "m", "M", "P", "A", "AA"]
BASE = [0, 2, 4, 5, 7, 9, 11]
NSHARDS = 13  # 78 groups, 6 per shard


# ----------------------------------------------------------------------------
# Python-side diatonic specification (direct oracle; independent of the Coq model)

def spec_semitones(n, q):
    """Defined size of interval class q+n, None if it is not one of the 39 classes."""
    if not 1 <= n <= 7:
        return None
    if n in (1, 4, 5):
        off = {"dd": -2, "d": -1, "P": 0, "A": 1, "AA": 2}.get(q)
    else:
        off = {"dd": -3, "d": -2, "m": -1, "M": 0, "A": 1, "AA": 2}.get(q)
    return None if off is None else BASE[n - 1] + off


def midi_of(i, a, o):
    return 12 * (o + 1) + BASE[i] + a


def spec_transpose(i, a, o, n, sem, up):
    """step index +-(n-1), octave by floor division of the diatonic index, alter such that MIDI moves by +-sem."""
    D = 7 * o + i + (n - 1 if up else -(n - 1))
    i2, o2 = D % 7, D // 7
    m2 = midi_of(i, a, o) + (sem if up else -sem)
    return (i2, m2 - midi_of(i2, 0, o2), o2)


def classes_model_order():
    return [(n, qi) for n in range(1, 8) for qi in range(7) if spec_semitones(n, QUALS[qi]) is not None]


def enc_pitch(step, alter, octave):
    """Observed (step, alter, octave) of a note -> integer triple; alter None reads as 0."""
    i = STEP_IDX.get(step, 99) if isinstance(step, str) else 99
    a = 0 if alter is None else (int(alter) if isinstance(alter, int) or hasattr(alter, "__index__") else 999)
    o = int(octave) if isinstance(octave, int) or hasattr(octave, "__index__") else 999
    return (i, a, o)


# ----------------------------------------------------------------------------
# T2 tabulation

def parse_class(name):
    """'dd2' -> (2, 0)"""
    k = 0
    while k < len(name) and not name[k].isdigit():
        k += 1
    return int(name[k:]), QUALS.index(name[:k])


def tabulate():
    import partitura.score as S
    import partitura.utils.music as M
    import partitura.utils.globals as G

    T = {}
    # interval table, in the order of the implementation's class list sorted by (number, quality)
    ivs = []
    impl_classes = sorted(parse_class(c) for c in G.INTERVALCLASSES)
    T["n_classes_raw"] = len(G.INTERVALCLASSES)
    for n, qi in impl_classes:
        name = QUALS[qi] + str(n)
        sems = []
        for d in ("up", "down"):
            try:
                sems.append(int(S.Interval(n, QUALS[qi], d).semitones))
            except Exception:
                sems.append(None)
        ivs.append((n, qi, int(G.INTERVAL_TO_SEMITONES[name]), sems[0], sems[1]))
    T["ivs"] = ivs
    # _transpose_note_inplace on the whole domain, real Note objects
    groups = []
    for n, qi in impl_classes:
        for up in (True, False):
            iv = S.Interval(n, QUALS[qi], "up" if up else "down")
            rows = []
            for i in range(7):
                for a in range(-2, 3):
                    for o in range(0, 9):
                        note = S.Note(STEPS7[i], o, a)
                        try:
                            M._transpose_note_inplace(note, iv)
                            out = enc_pitch(note.step, note.alter, note.octave)
                        except Exception:
                            out = (99, 0, 0)
                        rows.append(((i, a, o), out))
            groups.append((n, qi, up, rows))
    T["groups"] = groups
    # alter None is read as 0 (direct oracle only)
    none_rows = []
    for n, qi in impl_classes:
        for up in (True, False):
            iv = S.Interval(n, QUALS[qi], "up" if up else "down")
            for i in range(7):
                note = S.Note(STEPS7[i], 4, None)
                try:
                    M._transpose_note_inplace(note, iv)
                    out = enc_pitch(note.step, note.alter, note.octave)
                except Exception:
                    out = (99, 0, 0)
                none_rows.append(((n, qi, up, i), out))
    T["none_rows"] = none_rows
    # transpose_note (octave free; "up" only, alterations -2..2 in and out, else AssertionError)
    tn = []
    for n, qi in impl_classes:
        for up in (True, False):
            iv = S.Interval(n, QUALS[qi], "up" if up else "down")
            for i in range(7):
                for a in range(-2, 3):
                    try:
                        st, al = M.transpose_note(STEPS7[i], a, iv)
                        res = (STEP_IDX.get(st, 99), int(al))
                    except AssertionError:
                        res = None
                    except Exception:
                        res = (99, 0)
                    tn.append(((n, qi, up, i, a), res))
    T["tn"] = tn
    # step2pc
    T["step2pc"] = [((i, a), int(M.step2pc(STEPS7[i], a))) for i in range(7) for a in range(-3, 4)]
    return T


def zt(n):
    """integer literal inside a file that has Z_scope open (tables: no %Z suffix, faster to parse)"""
    n = int(n)
    return "(%d)" % n if n < 0 else "%d" % n


def cpitch(p):
    return "(%s,%s,%s)" % (zt(p[0]), zt(p[1]), zt(p[2]))


HDR = ("(* GENERATED by harness/props/c16.py from the working tree -- do not edit *)\n"
       "From Coq Require Import ZArith List.\nImport ListNotations.\nOpen Scope Z_scope.\n\n")


def gen(T=None):
    core.setup_import_path()
    if T is None:
        T = tabulate()
    groups = T["groups"]
    per = (len(groups) + NSHARDS - 1) // NSHARDS if groups else 1
    for k in range(NSHARDS):
        part = groups[k * per:(k + 1) * per]
        L = [HDR]
        names = []
        for j, (n, qi, up, rows) in enumerate(part):
            nm = "g_%d_%d" % (k, j)
            names.append((nm, n, qi, up))
            L.append("Definition %s : list ((Z*Z*Z)*(Z*Z*Z)) := [\n%s].\n" %
                     (nm, ";\n".join("(%s,%s)" % (cpitch(a), cpitch(b)) for a, b in rows)))
        L.append("Definition tab_%d : list (Z*Z*bool*list ((Z*Z*Z)*(Z*Z*Z))) := [%s].\n" %
                 (k, "; ".join("(%s,%s,%s,%s)" % (zt(n), zt(qi), cbool(up), nm) for nm, n, qi, up in names)))
        core.write_gen("C16_T%d" % k, "".join(L))
    L = [HDR]
    L.append("Definition tab_tn : list (Z*Z*bool*Z*Z*option (Z*Z)) := [\n%s].\n" % ";\n".join(
        "(%s,%s,%s,%s,%s,%s)" % (zt(n), zt(qi), cbool(up), zt(i), zt(a),
                                 "None" if r is None else "(Some (%s,%s))" % (zt(r[0]), zt(r[1])))
        for (n, qi, up, i, a), r in T["tn"]))
    L.append("Definition tab_step2pc : list (Z*Z*Z) := [%s].\n" % "; ".join(
        "(%s,%s,%s)" % (zt(i), zt(a), zt(v)) for (i, a), v in T["step2pc"]))
    core.write_gen("C16_TN", "".join(L))
    L = ["(* GENERATED by harness/props/c16.py from the working tree -- do not edit *)\n",
         "From PV Require Import %s.\n" % " ".join("Gen.C16_T%d" % k for k in range(NSHARDS)),
         "From Coq Require Import ZArith List.\nImport ListNotations.\nOpen Scope Z_scope.\n\n"]
    L.append("Definition tab_transpose : list (Z*Z*bool*list ((Z*Z*Z)*(Z*Z*Z))) :=\n  %s.\n" %
             " ++ ".join("tab_%d" % k for k in range(NSHARDS)))
    L.append("Definition tab_intervals : list (Z*Z*Z*option Z*option Z) := [\n%s].\n" % ";\n".join(
        "(%s,%s,%s,%s,%s)" % (zt(n), zt(qi), zt(s), core.copt(su, zt), core.copt(sd, zt)) for n, qi, s, su, sd in T["ivs"]))
    core.write_gen("C16_Tab", "".join(L))
    t1.gen()   # T1: Gen/T1_music.v, Gen/T1_score.v -- definitions translated from the current source text
    return T


def prebuild_gen(ctx):
    """Compile the table shards in parallel (coq_make is sequential; each call locks its own file)."""
    targets = ["Gen/C16_T%d.vo" % k for k in range(NSHARDS)] + ["Gen/C16_TN.vo"]
    with ThreadPoolExecutor(max_workers=core.NJOBS) as ex:
        res = list(ex.map(lambda t: core.coq_make([t]), targets))
    bad = [(t, log[-800:]) for t, (ok, log) in zip(targets, res) if not ok]
    return bad


def oracle_tables(T):
    """Rows of the tables that violate the diatonic specification: list of (what, replay_obj)."""
    bad = []
    model_classes = classes_model_order()
    got_classes = [(n, qi) for n, qi, _, _, _ in T["ivs"]]
    if got_classes != model_classes or T["n_classes_raw"] != 39:
        bad.append(("INTERVALCLASSES is not the 39 interval classes: symmetric difference %r"
                    % sorted(set(got_classes) ^ set(model_classes)),
                    {"kind": "classes", "got": got_classes}))
    for n, qi, s, su, sd in T["ivs"]:
        e = spec_semitones(n, QUALS[qi])
        if e is not None and (s != e or su != e or sd != e):
            bad.append(("Interval(%d, %r).semitones = %r/%r (table %r), expected %r" % (n, QUALS[qi], su, sd, s, e),
                        {"kind": "interval", "number": n, "quality": QUALS[qi], "got": [s, su, sd], "expected": e}))
    for n, qi, up, rows in T["groups"]:
        sem = spec_semitones(n, QUALS[qi])
        if sem is None:
            continue
        for (i, a, o), out in rows:
            exp = spec_transpose(i, a, o, n, sem, up)
            if out != exp:
                bad.append(("_transpose_note_inplace(%s alter %d octave %d, %s%d %s) -> %r, expected (step index, alter, octave) %r"
                            % (STEPS7[i], a, o, QUALS[qi], n, "up" if up else "down", out, exp),
                            {"kind": "note", "step": STEPS7[i], "alter": a, "octave": o, "number": n,
                             "quality": QUALS[qi], "direction": "up" if up else "down", "got": list(out), "expected": list(exp)}))
    for (n, qi, up, i), out in T["none_rows"]:
        sem = spec_semitones(n, QUALS[qi])
        if sem is None:
            continue
        exp = spec_transpose(i, 0, 4, n, sem, up)
        if out != exp:
            bad.append(("_transpose_note_inplace(%s alter None octave 4, %s%d %s) -> %r, expected %r"
                        % (STEPS7[i], QUALS[qi], n, "up" if up else "down", out, exp),
                        {"kind": "note", "step": STEPS7[i], "alter": None, "octave": 4, "number": n,
                         "quality": QUALS[qi], "direction": "up" if up else "down", "got": list(out), "expected": list(exp)}))
    for (n, qi, up, i, a), res in T["tn"]:
        sem = spec_semitones(n, QUALS[qi])
        if sem is None:
            continue
        if up:
            e = spec_transpose(i, a, 4, n, sem, True)
            exp = (e[0], e[1]) if -2 <= e[1] <= 2 else None
        else:
            exp = None  # documented: only "up" is supported (assertion)
        if res != exp:
            bad.append(("transpose_note(%s, %d, %s%d %s) -> %r, expected %r (diatonic arithmetic; None = rejected)"
                        % (STEPS7[i], a, QUALS[qi], n, "up" if up else "down", res, exp),
                        {"kind": "tn", "step": STEPS7[i], "alter": a, "number": n, "quality": QUALS[qi],
                         "direction": "up" if up else "down", "got": res, "expected": exp}))
    for (i, a), v in T["step2pc"]:
        if v != (BASE[i] + a) % 12:
            bad.append(("step2pc(%s, %d) = %r, expected %d" % (STEPS7[i], a, v, (BASE[i] + a) % 12),
                        {"kind": "step2pc", "step": STEPS7[i], "alter": a, "got": v}))
    return bad


# ----------------------------------------------------------------------------
# driver: score generator (JSON spec -> partitura objects), fingerprints, oracle

def rand_pitch(rng):
    r = rng.random()
    if r < 0.15:  # around the octave boundary: B / C with accidentals
        st = rng.choice(["B", "C"])
    else:
        st = rng.choice(STEPS7)
    al = rng.choice([None, 0, 0, 1, -1, 2, -2, 1, -1])
    return [st, al, rng.randint(0, 8)]


def gen_part_spec(rng, pid, size):
    divs = rng.choice([1, 2, 4, 6, 12])
    nvoices = rng.choice([1, 1, 2])
    events = []
    for v in range(1, nvoices + 1):
        t = rng.choice([0, 0, divs])
        for _ in range(rng.randint(1, size)):
            d = rng.choice([1, 1, 2, 3, 4]) * rng.choice([1, divs])
            r = rng.random()
            staff = rng.choice([None, 1, 2])
            if r < 0.25:
                events.append({"k": "note", "t": t, "d": d, "ps": [rand_pitch(rng)], "v": v, "st": staff})
            elif r < 0.40:
                events.append({"k": "note", "t": t, "d": d, "ps": [rand_pitch(rng) for _ in range(rng.randint(2, 4))], "v": v, "st": staff})
            elif r < 0.65:
                k = rng.randint(2, 4)
                ds = [rng.choice([1, 2, 3]) * rng.choice([1, divs]) for _ in range(k)]
                events.append({"k": "tie", "t": t, "ds": ds, "ps": [rand_pitch(rng) for _ in range(rng.choice([1, 1, 2]))], "v": v, "st": staff})
                d = sum(ds)
            elif r < 0.85:
                events.append({"k": "grace", "t": t, "d": d, "gs": [rand_pitch(rng) for _ in range(rng.randint(1, 3))],
                               "gt": rng.choice(["grace", "acciaccatura", "appoggiatura"]),
                               "ps": [rand_pitch(rng)], "v": v, "st": staff})
            elif r < 0.93:
                events.append({"k": "rest", "t": t, "d": d, "v": v, "st": staff})
            else:
                events.append({"k": "unp", "t": t, "d": d, "p": [rng.choice(STEPS7), rng.randint(2, 6)], "v": v, "st": staff})
            t += d
    return {"id": pid, "divs": divs, "events": events, "fifths": rng.randint(-7, 7),
            "slur": rng.random() < 0.4, "words": rng.random() < 0.3, "measures": rng.random() < 0.8}


def gen_case_spec(rng, size):
    arg = rng.choice(["part", "score", "score"])
    nparts = 1 if arg == "part" else rng.choice([1, 2, 2, 3])
    parts = [gen_part_spec(rng, "P%d" % k, size) for k in range(nparts)]
    return {"arg": arg, "parts": parts, "group": arg == "score" and nparts >= 2 and rng.random() < 0.4}


def build(spec):
    """JSON spec -> Score or Part (fresh objects)."""
    import partitura.score as S

    parts = []
    for ps in spec["parts"]:
        divs = ps["divs"]
        p = S.Part(ps["id"], part_name="name " + ps["id"], quarter_duration=divs)
        p.add(S.TimeSignature(4, 4), 0)
        p.add(S.KeySignature(ps.get("fifths", 0), "major"), 0)
        p.add(S.Clef(1, "G", 2, 0), 0)
        nid = [0]
        firstlast = []

        def mk(cls, *a, **k):
            nid[0] += 1
            return cls(*a, id="%s_n%d" % (ps["id"], nid[0]), **k)

        tmax = 0
        for ev in ps["events"]:
            t, v, st = ev["t"], ev.get("v", 1), ev.get("st")
            if ev["k"] == "note":
                for (s_, a_, o_) in ev["ps"]:
                    n = mk(S.Note, s_, o_, a_, voice=v, staff=st)
                    p.add(n, t, t + ev["d"])
                    firstlast.append(n)
                tmax = max(tmax, t + ev["d"])
            elif ev["k"] == "tie":
                for (s_, a_, o_) in ev["ps"]:
                    prev, tt = None, t
                    for d in ev["ds"]:
                        n = mk(S.Note, s_, o_, a_, voice=v, staff=st)
                        p.add(n, tt, tt + d)
                        if prev is not None:
                            prev.tie_next = n
                            n.tie_prev = prev
                        prev, tt = n, tt + d
                    firstlast.append(prev)
                tmax = max(tmax, t + sum(ev["ds"]))
            elif ev["k"] == "grace":
                main = None
                for (s_, a_, o_) in ev["ps"]:
                    main = mk(S.Note, s_, o_, a_, voice=v, staff=st)
                    p.add(main, t, t + ev["d"])
                prev = None
                gl = []
                for (s_, a_, o_) in ev["gs"]:
                    g = mk(S.GraceNote, ev.get("gt", "grace"), s_, o_, a_, voice=v, staff=st)
                    p.add(g, t, t)
                    if prev is not None:
                        prev.grace_next = g
                        g.grace_prev = prev
                    prev = g
                    gl.append(g)
                if prev is not None and main is not None:
                    prev.grace_next = main
                tmax = max(tmax, t + ev["d"])
            elif ev["k"] == "rest":
                p.add(mk(S.Rest, voice=v, staff=st), t, t + ev["d"])
                tmax = max(tmax, t + ev["d"])
            elif ev["k"] == "unp":
                p.add(mk(S.UnpitchedNote, ev["p"][0], ev["p"][1], voice=v, staff=st), t, t + ev["d"])
                tmax = max(tmax, t + ev["d"])
        if ps.get("slur") and len(firstlast) >= 2:
            a, b = firstlast[0], firstlast[-1]
            if a.start.t <= b.start.t and a is not b:
                sl = S.Slur(a, b)
                p.add(sl, a.start.t, b.end.t)
        if ps.get("words"):
            p.add(S.Words("dolce"), 0)
        if ps.get("measures") and tmax > 0:
            m, k = 0, 1
            while m < tmax:
                p.add(S.Measure(number=k), m, min(m + 4 * divs, tmax) if m + 4 * divs < tmax else tmax)
                m += 4 * divs
                k += 1
        parts.append(p)
    if spec["arg"] == "part":
        return parts[0]
    if spec.get("group") and len(parts) >= 2:
        g = S.PartGroup(group_symbol="bracket", group_name="grp", id="G1")
        g.children = parts[:2]
        for c in parts[:2]:
            c.parent = g
        return S.Score([g] + parts[2:], id="sc", title="generated")
    return S.Score(parts, id="sc", title="generated")


def _canon(v):
    import numpy as np
    import partitura.score as S

    if v is None or isinstance(v, (bool, int, float, str)):
        return repr(v)
    if isinstance(v, np.generic):
        return repr(v.item())
    if isinstance(v, S.TimePoint):
        return "T%d" % v.t
    if isinstance(v, S.TimedObject):
        return "R(%s,%s,%s)" % (type(v).__name__, getattr(v, "id", None), v.start.t if v.start is not None else None)
    if isinstance(v, (S.Part, S.PartGroup)):
        return "P(%s)" % v.id
    if isinstance(v, (list, tuple)):
        return "[" + ",".join(_canon(x) for x in v) + "]"
    if isinstance(v, dict):
        return "{" + ",".join(sorted(_canon(k) + ":" + _canon(x) for k, x in v.items())) + "}"
    return "<" + type(v).__name__ + ">"


def _objects(part):
    """All objects starting at some time point of the part.  (Part.iter_all() without a class walks every
    subclass of `object` through the defaultdicts of every TimePoint and thereby inserts thousands of empty
    entries into the argument, which makes later deep copies very slow -- read the dicts directly.)"""
    out = []
    for tp in part._points:
        for cls in list(tp.starting_objects.keys()):
            out.extend(tp.starting_objects[cls])
    return out


def flatten(obj):
    """Score or Part -> sorted list of (key, fingerprint of everything but the pitch, raw pitch or None).
    Pitch = (step, alter, octave) of Note / GraceNote objects exactly as stored."""
    import partitura.score as S

    if isinstance(obj, S.Score):
        parts = list(obj.parts)
        top = "Score{" + ",".join("%s=%s" % (k, _canon(v)) for k, v in sorted(vars(obj).items())) + "}"
    else:
        parts = [obj]
        top = "Part"
    out = [(("", -1, "", ""), type(obj).__name__ + ":" + top, None)]
    for pi, p in enumerate(parts):
        pv = {k: v for k, v in vars(p).items() if k not in ("_points",)}
        pfp = "Part{" + ",".join("%s=%s" % (k, _canon(v)) for k, v in sorted(pv.items())) + "}" + \
              "points=" + _canon([tp.t for tp in p._points])
        out.append(((pi, -1, "", ""), pfp, None))
        for o in _objects(p):
            d = dict(vars(o))
            d.pop("_ref_attrs", None)
            pitch = None
            if isinstance(o, S.Note):
                pitch = (d.pop("step", None), d.pop("alter", None), d.pop("octave", None))
            fp = type(o).__name__ + "{" + ",".join("%s=%s" % (k, _canon(v)) for k, v in sorted(d.items())) + "}"
            key = (pi, o.start.t if o.start is not None else -1, type(o).__name__, str(getattr(o, "id", None)) + "|" + fp)
            out.append((key, fp, pitch))
    out.sort(key=lambda r: (str(r[0][0]), r[0][1], r[0][2], r[0][3]))
    return out


def objects_of(obj):
    import partitura.score as S
    parts = list(obj.parts) if isinstance(obj, S.Score) else [obj]
    ids = {id(obj)}
    for p in parts:
        ids.add(id(p))
        for o in _objects(p):
            ids.add(id(o))
    return ids


def h48(key, fp):
    return int(hashlib.sha1((repr(key) + "#" + fp).encode()).hexdigest()[:12], 16)


def run_driver_case(spec, iv):
    """Run the implementation.  Returns dict with flattened before/result/after/back and identity facts."""
    import partitura.score as S
    from partitura.utils.music import transpose

    n, q, d = iv
    arg = build(spec)
    before = flatten(arg)
    res = transpose(arg, S.Interval(n, q, d))
    after = flatten(arg)
    result = flatten(res)
    shared = len((objects_of(arg) & objects_of(res))) if isinstance(res, (S.Score, S.Part)) else -1
    back_obj = transpose(res, S.Interval(n, q, "down" if d == "up" else "up"))
    back = flatten(back_obj)
    return {"before": before, "result": result, "after": after, "back": back,
            "same_type": type(res) is type(arg), "shared": shared}


def canon_pitch(p):
    return None if p is None else enc_pitch(*p)


def driver_oracle(r, iv):
    """Direct oracle on one driver run: list of failure descriptions (empty = property holds)."""
    n, q, d = iv
    up = d == "up"
    sem = spec_semitones(n, q)
    msgs = []
    if not r["same_type"]:
        msgs.append("result is not of the argument's type")
    if r["shared"] != 0:
        msgs.append("result shares %d objects with the argument (not a new score/part)" % r["shared"])
    if [(k, f, p) for k, f, p in r["before"]] != [(k, f, p) for k, f, p in r["after"]]:
        diff = [(a[0], a[2], b[2]) for a, b in zip(r["before"], r["after"]) if a != b][:3]
        msgs.append("the argument was modified by transpose: %r" % (diff,))
    if [(k, f) for k, f, _ in r["before"]] != [(k, f) for k, f, _ in r["result"]]:
        msgs.append("onsets/durations/voices/ties/other elements of the result differ from the argument")
    else:
        for (k, f, p0), (_, _, p1) in zip(r["before"], r["result"]):
            if p0 is None:
                if p1 is not None:
                    msgs.append("unpitched element %r got a pitch" % (k,))
                continue
            exp = spec_transpose(*canon_pitch(p0), n, sem, up)
            if canon_pitch(p1) != exp:
                msgs.append("note %s (%s at %s): %r -> %r, expected %r (step index, alter, octave)"
                            % (k[3].split("|")[0], k[2], k[1], p0, p1, exp))
                break
    if [(k, f, canon_pitch(p)) for k, f, p in r["back"]] != [(k, f, canon_pitch(p)) for k, f, p in r["before"]]:
        msgs.append("transposing the result back by the same interval does not restore the original spelling")
    return msgs


def celems(flat):
    return clist(["(%s,%s)" % (zt(h48(k, f)), "None" if p is None else "(Some %s)" % cpitch(canon_pitch(p)))
                  for k, f, p in flat])


def case_features(spec):
    ks = set()
    for p in spec["parts"]:
        for e in p["events"]:
            ks.add(e["k"])
            if e["k"] == "note" and len(e["ps"]) > 1:
                ks.add("chord")
    return ks


def shrink(spec, iv):
    """ddmin over the events of all parts; keeps failing (oracle non-empty or exception)."""
    items = [(pi, ei) for pi, p in enumerate(spec["parts"]) for ei in range(len(p["events"]))]

    def mk(sub):
        s2 = copy.deepcopy(spec)
        keep = set(sub)
        for pi, p in enumerate(s2["parts"]):
            p["events"] = [e for ei, e in enumerate(p["events"]) if (pi, ei) in keep]
        return s2

    def fails(sub):
        try:
            return bool(driver_oracle(run_driver_case(mk(sub), iv), iv))
        except Exception:
            return True

    try:
        if not fails(items):
            return spec
        return mk(core.ddmin(items, fails))
    except Exception:
        return spec


FIXED_SPEC = {"arg": "part", "group": False, "parts": [{"id": "P0", "divs": 4, "fifths": 0, "slur": True, "words": True, "measures": True,
              "events": [{"k": "tie", "t": 0, "ds": [4, 4, 2], "ps": [["C", 1, 4], ["B", None, 3]], "v": 1, "st": 1},
                         {"k": "grace", "t": 10, "d": 2, "gs": [["B", 0, 4], ["C", -1, 5]], "gt": "acciaccatura", "ps": [["F", 2, 0]], "v": 1, "st": 1},
                         {"k": "note", "t": 12, "d": 4, "ps": [["C", 0, 0], ["E", -2, 8], ["B", 2, 8]], "v": 1, "st": None},
                         {"k": "rest", "t": 16, "d": 4, "v": 1, "st": 1},
                         {"k": "unp", "t": 20, "d": 4, "p": ["E", 4], "v": 1, "st": 1}]}]}


def run_driver(ctx):
    rng = ctx.rng
    nscores, nivs, size = (120, 4, 6) if ctx.tier == "quick" else (1200, 4, 8)
    all_ivs = [(n, QUALS[qi], d) for n, qi in classes_model_order() for d in ("up", "down")]
    weighted = all_ivs + [iv for iv in all_ivs if iv[2] == "down"] + [iv for iv in all_ivs if iv[0] == 1] * 2
    jobs = []
    # small-scope exhaustive: the fixed corpus part (ties, grace notes, chord, octave boundaries)
    # under every interval class and direction, as a Part and inside a Score
    for arg in ("part", "score"):
        spec = dict(FIXED_SPEC, arg=arg)
        for iv in all_ivs:
            jobs.append((spec, iv))
    for _ in range(nscores):
        spec = gen_case_spec(rng, size)
        for iv in rng.sample(weighted, nivs):
            jobs.append((spec, iv))
    terms, kept = [], []
    nviol = 0
    for spec, iv in jobs:
        ctx.evaluations += 1
        replay_obj = {"kind": "driver", "spec": spec, "interval": list(iv)}
        try:
            r = run_driver_case(spec, iv)
            msgs = driver_oracle(r, iv)
        except Exception as e:  # transpose must be total on these inputs
            r, msgs = None, ["transpose raised %s: %s" % (type(e).__name__, e)]
        feats = case_features(spec)
        ctx.count("arg:" + spec["arg"])
        ctx.count("dir:" + iv[2])
        for f in sorted(feats):
            ctx.count("has:" + f)
        if msgs:
            nviol += 1
            if nviol <= 5:
                small = shrink(spec, iv)
                try:
                    m2 = driver_oracle(run_driver_case(small, iv), iv) or msgs
                except Exception as e:
                    m2 = ["transpose raised %s: %s" % (type(e).__name__, e)]
                ctx.violation("transpose(%s, %s%d %s): %s" % (spec["arg"], iv[1], iv[0], iv[2], "; ".join(m2)[:600]),
                              {"kind": "driver", "spec": small, "interval": list(iv), "failures": m2})
            continue
        if (feats & {"tie", "grace"}) and not (iv[0] == 1 and iv[1] == "P"):
            ctx.nontrivial(("driver", json.dumps(spec, sort_keys=True), iv))
        n, q, d = iv
        cb = [(k, f, canon_pitch(p)) for k, f, p in r["before"]]
        same_after = [(k, f, canon_pitch(p)) for k, f, p in r["after"]] == cb
        same_back = [(k, f, canon_pitch(p)) for k, f, p in r["back"]] == cb
        terms.append("(%s,%s,%s,%s,%s,%s,%s)" % (zt(n), zt(QUALS.index(q)), cbool(d == "up"), celems(r["before"]), celems(r["result"]),
                                                 "same" if same_after else "(Some %s)" % celems(r["after"]),
                                                 "same" if same_back else "(Some %s)" % celems(r["back"])))
        kept.append(replay_obj)
        if len(ctx.samples) < 4 and feats >= {"tie", "grace"}:
            ctx.sample({"driver_case": {"arg": spec["arg"], "interval": list(iv), "parts": len(spec["parts"]),
                                        "elements": len(r["before"]),
                                        "first_notes": [[list(p0), list(p1)] for (_, _, p0), (_, _, p1) in zip(r["before"], r["result"]) if p0][:4]}})
    ctx.log('driver: %d runs done, %d cases to Coq' % (len(jobs), len(terms)))
    if not terms:
        ctx.obligation("correspondence: Coq model transpose_elems = transpose()", False, "every driver case already failed the direct oracle")
        return
    try:
        failing = ctx.coq_failing("driver", "From PV Require Import Model.C16.", "", terms, "driver_ok", shard=150)
        detail = failing[:5]
    except RuntimeError as e:
        failing, detail = [-1], str(e)[-1500:]
    ctx.obligation("correspondence: Coq model transpose_elems = transpose() on %d generated (score|part, interval) cases "
                   "(result, argument after the call, result transposed back)" % len(terms), not failing, detail)
    for i in failing[:5]:
        if i < 0:
            ctx.violation("driver correspondence could not be evaluated in Coq: " + str(detail)[-600:], {"kind": "coq", "error": detail}, no_input=True)
        else:
            ctx.violation("Coq driver model and transpose() disagree (the Python oracle accepted the case)", kept[i])


def run(ctx):
    ctx.rule = ("T2: _transpose_note_inplace executed on all 7 steps x 5 alterations x 9 octaves x 39 classes x 2 directions "
                "(24570 rows) and transpose_note on 7 x 5 x 39 x 2 (2730 rows), graphs re-proved in the kernel; driver cases = "
                "generated Score/Part arguments (ties, chords, grace notes, rests, unpitched notes, 1-3 parts, part groups) x "
                "sampled interval classes weighted towards 'down' and unison classes, plus one fixed part under all 78 "
                "interval/direction pairs as Part and as Score.  Non-trivial = table rows with alter<>0 or a step that "
                "crosses the octave boundary; driver cases containing a tie chain or grace note with an interval other than P1.  "
                "HISTORY stream (state carried on the Interval argument between calls; shared with C12): ONE real score.Interval "
                "per history (all 39 classes x 2 directions twice + 60 + 60 compound inits), 5-9 generated operations + closing "
                "sweep: transpose(part of 1-3 notes incl. tie chains and grace notes, iv) 18%, transpose_note 14%, .semitones 16%, "
                "change_quality 22%, quality:= 8%, number:= 8%, direction:= 6%, validate 5%, str 3%; after EVERY step the result "
                "(step, alter, octave of every note; the argument part untouched) is judged by the diatonic specification at the "
                "table size of the object's CURRENT fields and against a freshly constructed Interval of those fields.")
    ctx.trusted = ["Coq 8.16.1 kernel incl. vm_compute",
                   "T2 tabulator and flattening/fingerprint code in harness/props/c16.py (runs the real functions, prints Coq literals; "
                   "step letters are interned C=0..B=6, alter None is read as 0)",
                   "Python-side diatonic oracle used to name the failing input", "determinism of the tabulated pure functions",
                   "fingerprints of non-pitch attributes are compared as 48-bit SHA-1 prefixes inside Coq (full strings in Python)",
                   "history stream: the operation runner / field reader of harness/props/c12.py (run_iv_history) and the printing of "
                   "observed histories as Coq terms"]
    ctx.assumptions = ["interval numbers 1..7 (the 39 classes of INTERVALCLASSES); compound intervals are outside the property",
                       "alter None and alter 0 denote the same spelling"]
    T = gen()
    nrows = sum(len(g[3]) for g in T["groups"]) + len(T["tn"]) + len(T["ivs"]) + len(T["none_rows"]) + len(T["step2pc"])
    ctx.evaluations += nrows
    ctx.count("rows:transpose_note_inplace", sum(len(g[3]) for g in T["groups"]))
    ctx.count("rows:transpose_note", len(T["tn"]))
    ctx.count("rows:intervals", len(T["ivs"]))
    for n, qi, up, rows in T["groups"]:
        for (i, a, o), out in rows:
            if a != 0 or out[2] != o:
                ctx.nontrivial(("row", n, qi, up, i, a, o))
    g0 = T["groups"][3] if len(T["groups"]) > 3 else None
    if g0:
        ctx.sample({"table_row": {"interval": [g0[0], QUALS[g0[1]], "up" if g0[2] else "down"], "in": g0[3][40][0], "out": g0[3][40][1]}})
    bad = oracle_tables(T)
    ctx.log('tables written, %d rows, %d oracle failures' % (nrows, len(bad)))
    pre = prebuild_gen(ctx)
    ctx.log('table shards built')
    # T1 tie (harness/t1.py): see c12.py
    t1_ok = t1.tie(ctx, "C16")
    ctx.log('T1 tie: %s' % t1_ok)
    ok, why = ctx.coq_props(expect_min=27)
    ctx.log('Props/C16.v checked: %s %s' % (ok, why[:300]))
    for what, rep in bad[:8]:
        ctx.violation(what, rep)
    if not ok and not bad and t1_ok:
        ctx.violation("proof obligations of Props/C16.v no longer check: " + why[:1500], {"theorem_or_build": why, "prebuild": pre}, no_input=True)
    ctx.extra["exhaustive"] = True
    ctx.extra["exhaustive_note"] = "the arithmetic domain named by the property is enumerated completely; scores/parts are sampled"
    run_driver(ctx)
    # histories on ONE real Interval object: transpose() / transpose_note / .semitones interleaved with change_quality and
    # assignments of number / quality / direction; every step judged from the object's current fields (shared with C12:
    # harness/props/c12.py run_histories, Model/C12_Interval.v)
    from props import c12 as hist12
    hist12.run_histories(ctx, with_tr=True, objects=False)


def replay(obj):
    import partitura.score as S
    import partitura.utils.music as M

    r = obj.get("replay", obj)
    print(json.dumps(obj, indent=1, default=str)[:4000])
    k = r.get("kind")
    if k == "t1":
        return t1.replay(r)
    if k == "history":
        from props import c12 as hist12
        return hist12.replay_history(r)
    if k == "note":
        note = S.Note(r["step"], r["octave"], r["alter"])
        M._transpose_note_inplace(note, S.Interval(r["number"], r["quality"], r["direction"]))
        print("implementation now gives:", (note.step, note.alter, note.octave), "=", enc_pitch(note.step, note.alter, note.octave),
              " expected:", r["expected"])
    elif k == "tn":
        try:
            print("implementation now gives:", M.transpose_note(r["step"], r["alter"], S.Interval(r["number"], r["quality"], r["direction"])),
                  " expected:", r["expected"])
        except AssertionError as e:
            print("implementation now rejects (AssertionError):", e, " expected:", r["expected"])
    elif k == "driver":
        iv = tuple(r["interval"])
        res = run_driver_case(r["spec"], iv)
        print("oracle now says:", driver_oracle(res, iv) or "property holds on this input")
        for (key, f, p0), (_, _, p1), (_, _, p2) in zip(res["before"], res["result"], res["after"]):
            if p0 is not None:
                print("  %-28s arg before %r  result %r  arg after %r" % (key[3].split("|")[0], p0, p1, p2))
    return 0
