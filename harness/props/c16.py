"""C16 -- transposition moves every note by the interval and leaves the input alone.

Tie to the source
* T2: the real ``_transpose_note_inplace`` (on real ``score.Note`` objects) is executed on the
  whole domain of the property -- 7 steps x alterations -2..2 x octaves 0..8 x 39 interval
  classes x 2 directions = 24570 rows -- and the graph is written to Gen/C16_T*.v; the real
  ``transpose_note`` on 7 steps x 5 alterations x 39 classes x 2 directions (2730 rows, None =
  assertion) to Gen/C16_TN.v; INTERVALCLASSES / INTERVAL_TO_SEMITONES / Interval.semitones to
  Gen/C16_Tab.v.  Proofs/C16_tab.v re-proves in the kernel that every row equals the model.
* C: driver correspondence -- generated scores and parts (ties, chords, grace notes, rests,
  unpitched notes, slurs, measures, signatures; Score and Part arguments) are flattened before
  and after ``transpose`` and the Coq model ``transpose_elems`` is evaluated on the same input.
* direct oracle in Python (independent of the model): diatonic spec per note, fingerprints of
  everything else, argument fingerprint before/after, up-then-down restores the spelling.
"""
import copy
import hashlib
import json
import os
import re
import time
from concurrent.futures import ThreadPoolExecutor

import core
import t1
from core import cz, cbool, clist, ctuple

STEPS7 = ["C", "D", "E", "F", "G", "A", "B"]
STEP_IDX = {s: i for i, s in enumerate(STEPS7)}
QUALS = ["dd", "d", "m", "M", "P", "A", "AA"]
BASE = [0, 2, 4, 5, 7, 9, 11]
NSHARDS = 13  # 78 groups, 6 per shard


# ----------------------------------------------------------------------------
# Python-side diatonic specification (direct oracle; independent of the Coq model)

def spec_semitones(n, q):
    """Defined size of interval class q+n, None if it is not one of the 39 classes."""
    if not 1 <= n <= 7:
        return None
    if n in (1, 4, 5):
        off = {"dd": -2, "d": -1, "P": 0, "A": 1, "AA": 2}.get(q)
    else:
        off = {"dd": -3, "d": -2, "m": -1, "M": 0, "A": 1, "AA": 2}.get(q)
    return None if off is None else BASE[n - 1] + off


def midi_of(i, a, o):
    return 12 * (o + 1) + BASE[i] + a


def spec_transpose(i, a, o, n, sem, up):
    """step index +-(n-1), octave by floor division of the diatonic index, alter such that MIDI moves by +-sem."""
    D = 7 * o + i + (n - 1 if up else -(n - 1))
    i2, o2 = D % 7, D // 7
    m2 = midi_of(i, a, o) + (sem if up else -sem)
    return (i2, m2 - midi_of(i2, 0, o2), o2)


def classes_model_order():
    return [(n, qi) for n in range(1, 8) for qi in range(7) if spec_semitones(n, QUALS[qi]) is not None]


def enc_pitch(step, alter, octave):
    """Observed (step, alter, octave) of a note -> integer triple; alter None reads as 0."""
    i = STEP_IDX.get(step, 99) if isinstance(step, str) else 99
    a = 0 if alter is None else (int(alter) if isinstance(alter, int) or hasattr(alter, "__index__") else 999)
    o = int(octave) if isinstance(octave, int) or hasattr(octave, "__index__") else 999
    return (i, a, o)


# ----------------------------------------------------------------------------
# T2 tabulation

def parse_class(name):
    """'dd2' -> (2, 0)"""
    k = 0
    while k < len(name) and not name[k].isdigit():
        k += 1
    return int(name[k:]), QUALS.index(name[:k])


def tabulate():
    import partitura.score as S
    import partitura.utils.music as M
    import partitura.utils.globals as G

    T = {}
    # interval table, in the order of the implementation's class list sorted by (number, quality)
    ivs = []
    impl_classes = sorted(parse_class(c) for c in G.INTERVALCLASSES)
    T["n_classes_raw"] = len(G.INTERVALCLASSES)
    for n, qi in impl_classes:
        name = QUALS[qi] + str(n)
        sems = []
        for d in ("up", "down"):
            try:
                sems.append(int(S.Interval(n, QUALS[qi], d).semitones))
            except Exception:
                sems.append(None)
        ivs.append((n, qi, int(G.INTERVAL_TO_SEMITONES[name]), sems[0], sems[1]))
    T["ivs"] = ivs
    # _transpose_note_inplace on the whole domain, real Note objects
    groups = []
    for n, qi in impl_classes:
        for up in (True, False):
            iv = S.Interval(n, QUALS[qi], "up" if up else "down")
            rows = []
            for i in range(7):
                for a in range(-2, 3):
                    for o in range(0, 9):
                        note = S.Note(STEPS7[i], o, a)
                        try:
                            M._transpose_note_inplace(note, iv)
                            out = enc_pitch(note.step, note.alter, note.octave)
                        except Exception:
                            out = (99, 0, 0)
                        rows.append(((i, a, o), out))
            groups.append((n, qi, up, rows))
    T["groups"] = groups
    # alter None is read as 0 (direct oracle only)
    none_rows = []
    for n, qi in impl_classes:
        for up in (True, False):
            iv = S.Interval(n, QUALS[qi], "up" if up else "down")
            for i in range(7):
                note = S.Note(STEPS7[i], 4, None)
                try:
                    M._transpose_note_inplace(note, iv)
                    out = enc_pitch(note.step, note.alter, note.octave)
                except Exception:
                    out = (99, 0, 0)
                none_rows.append(((n, qi, up, i), out))
    T["none_rows"] = none_rows
    # transpose_note (octave free; "up" only, alterations -2..2 in and out, else AssertionError)
    tn = []
    for n, qi in impl_classes:
        for up in (True, False):
            iv = S.Interval(n, QUALS[qi], "up" if up else "down")
            for i in range(7):
                for a in range(-2, 3):
                    try:
                        st, al = M.transpose_note(STEPS7[i], a, iv)
                        res = (STEP_IDX.get(st, 99), int(al))
                    except AssertionError:
                        res = None
                    except Exception:
                        res = (99, 0)
                    tn.append(((n, qi, up, i, a), res))
    T["tn"] = tn
    # step2pc
    T["step2pc"] = [((i, a), int(M.step2pc(STEPS7[i], a))) for i in range(7) for a in range(-3, 4)]
    return T


def zt(n):
    """integer literal inside a file that has Z_scope open (tables: no %Z suffix, faster to parse)"""
    n = int(n)
    return "(%d)" % n if n < 0 else "%d" % n


def cpitch(p):
    return "(%s,%s,%s)" % (zt(p[0]), zt(p[1]), zt(p[2]))


HDR = ("(* GENERATED by harness/props/c16.py from the working tree -- do not edit *)\n"
       "From Coq Require Import ZArith List.\nImport ListNotations.\nOpen Scope Z_scope.\n\n")


def gen(T=None):
    core.setup_import_path()
    if T is None:
        T = tabulate()
    groups = T["groups"]
    per = (len(groups) + NSHARDS - 1) // NSHARDS if groups else 1
    for k in range(NSHARDS):
        part = groups[k * per:(k + 1) * per]
        L = [HDR]
        names = []
        for j, (n, qi, up, rows) in enumerate(part):
            nm = "g_%d_%d" % (k, j)
            names.append((nm, n, qi, up))
            L.append("Definition %s : list ((Z*Z*Z)*(Z*Z*Z)) := [\n%s].\n" %
                     (nm, ";\n".join("(%s,%s)" % (cpitch(a), cpitch(b)) for a, b in rows)))
        L.append("Definition tab_%d : list (Z*Z*bool*list ((Z*Z*Z)*(Z*Z*Z))) := [%s].\n" %
                 (k, "; ".join("(%s,%s,%s,%s)" % (zt(n), zt(qi), cbool(up), nm) for nm, n, qi, up in names)))
        core.write_gen("C16_T%d" % k, "".join(L))
    L = [HDR]
    L.append("Definition tab_tn : list (Z*Z*bool*Z*Z*option (Z*Z)) := [\n%s].\n" % ";\n".join(
        "(%s,%s,%s,%s,%s,%s)" % (zt(n), zt(qi), cbool(up), zt(i), zt(a),
                                 "None" if r is None else "(Some (%s,%s))" % (zt(r[0]), zt(r[1])))
        for (n, qi, up, i, a), r in T["tn"]))
    L.append("Definition tab_step2pc : list (Z*Z*Z) := [%s].\n" % "; ".join(
        "(%s,%s,%s)" % (zt(i), zt(a), zt(v)) for (i, a), v in T["step2pc"]))
    core.write_gen("C16_TN", "".join(L))
    L = ["(* GENERATED by harness/props/c16.py from the working tree -- do not edit *)\n",
         "From PV Require Import %s.\n" % " ".join("Gen.C16_T%d" % k for k in range(NSHARDS)),
         "From Coq Require Import ZArith List.\nImport ListNotations.\nOpen Scope Z_scope.\n\n"]
    L.append("Definition tab_transpose : list (Z*Z*bool*list ((Z*Z*Z)*(Z*Z*Z))) :=\n  %s.\n" %
             " ++ ".join("tab_%d" % k for k in range(NSHARDS)))
    L.append("Definition tab_intervals : list (Z*Z*Z*option Z*option Z) := [\n%s].\n" % ";\n".join(
        "(%s,%s,%s,%s,%s)" % (zt(n), zt(qi), zt(s), core.copt(su, zt), core.copt(sd, zt)) for n, qi, s, su, sd in T["ivs"]))
    core.write_gen("C16_Tab", "".join(L))
    t1.gen()   # T1: Gen/T1_music.v, Gen/T1_score.v -- definitions translated from the current source text
    T["roots"] = gen_roots()
    return T


def prebuild_gen(ctx):
    """Compile the table shards in parallel (coq_make is sequential; each call locks its own file)."""
    targets = ["Gen/C16_T%d.vo" % k for k in range(NSHARDS)] + ["Gen/C16_TN.vo", "Gen/C16_RootsTab.vo"]
    with ThreadPoolExecutor(max_workers=core.NJOBS) as ex:
        res = list(ex.map(lambda t: core.coq_make([t]), targets))
    bad = [(t, log[-800:]) for t, (ok, log) in zip(targets, res) if not ok]
    return bad


def oracle_tables(T):
    """Rows of the tables that violate the diatonic specification: list of (what, replay_obj)."""
    bad = []
    model_classes = classes_model_order()
    got_classes = [(n, qi) for n, qi, _, _, _ in T["ivs"]]
    if got_classes != model_classes or T["n_classes_raw"] != 39:
        bad.append(("INTERVALCLASSES is not the 39 interval classes: symmetric difference %r"
                    % sorted(set(got_classes) ^ set(model_classes)),
                    {"kind": "classes", "got": got_classes}))
    for n, qi, s, su, sd in T["ivs"]:
        e = spec_semitones(n, QUALS[qi])
        if e is not None and (s != e or su != e or sd != e):
            bad.append(("Interval(%d, %r).semitones = %r/%r (table %r), expected %r" % (n, QUALS[qi], su, sd, s, e),
                        {"kind": "interval", "number": n, "quality": QUALS[qi], "got": [s, su, sd], "expected": e}))
    for n, qi, up, rows in T["groups"]:
        sem = spec_semitones(n, QUALS[qi])
        if sem is None:
            continue
        for (i, a, o), out in rows:
            exp = spec_transpose(i, a, o, n, sem, up)
            if out != exp:
                bad.append(("_transpose_note_inplace(%s alter %d octave %d, %s%d %s) -> %r, expected (step index, alter, octave) %r"
                            % (STEPS7[i], a, o, QUALS[qi], n, "up" if up else "down", out, exp),
                            {"kind": "note", "step": STEPS7[i], "alter": a, "octave": o, "number": n,
                             "quality": QUALS[qi], "direction": "up" if up else "down", "got": list(out), "expected": list(exp)}))
    for (n, qi, up, i), out in T["none_rows"]:
        sem = spec_semitones(n, QUALS[qi])
        if sem is None:
            continue
        exp = spec_transpose(i, 0, 4, n, sem, up)
        if out != exp:
            bad.append(("_transpose_note_inplace(%s alter None octave 4, %s%d %s) -> %r, expected %r"
                        % (STEPS7[i], QUALS[qi], n, "up" if up else "down", out, exp),
                        {"kind": "note", "step": STEPS7[i], "alter": None, "octave": 4, "number": n,
                         "quality": QUALS[qi], "direction": "up" if up else "down", "got": list(out), "expected": list(exp)}))
    for (n, qi, up, i, a), res in T["tn"]:
        sem = spec_semitones(n, QUALS[qi])
        if sem is None:
            continue
        if up:
            e = spec_transpose(i, a, 4, n, sem, True)
            exp = (e[0], e[1]) if -2 <= e[1] <= 2 else None
        else:
            exp = None  # documented: only "up" is supported (assertion)
        if res != exp:
            bad.append(("transpose_note(%s, %d, %s%d %s) -> %r, expected %r (diatonic arithmetic; None = rejected)"
                        % (STEPS7[i], a, QUALS[qi], n, "up" if up else "down", res, exp),
                        {"kind": "tn", "step": STEPS7[i], "alter": a, "number": n, "quality": QUALS[qi],
                         "direction": "up" if up else "down", "got": res, "expected": exp}))
    for (i, a), v in T["step2pc"]:
        if v != (BASE[i] + a) % 12:
            bad.append(("step2pc(%s, %d) = %r, expected %d" % (STEPS7[i], a, v, (BASE[i] + a) % 12),
                        {"kind": "step2pc", "step": STEPS7[i], "alter": a, "got": v}))
    return bad


# ----------------------------------------------------------------------------
# driver: score generator (JSON spec -> partitura objects), fingerprints, oracle

def rand_pitch(rng):
    r = rng.random()
    if r < 0.15:  # around the octave boundary: B / C with accidentals
        st = rng.choice(["B", "C"])
    else:
        st = rng.choice(STEPS7)
    al = rng.choice([None, 0, 0, 1, -1, 2, -2, 1, -1])
    return [st, al, rng.randint(0, 8)]


def gen_part_spec(rng, pid, size):
    divs = rng.choice([1, 2, 4, 6, 12])
    nvoices = rng.choice([1, 1, 2])
    events = []
    for v in range(1, nvoices + 1):
        t = rng.choice([0, 0, divs])
        for _ in range(rng.randint(1, size)):
            d = rng.choice([1, 1, 2, 3, 4]) * rng.choice([1, divs])
            r = rng.random()
            staff = rng.choice([None, 1, 2])
            if r < 0.25:
                events.append({"k": "note", "t": t, "d": d, "ps": [rand_pitch(rng)], "v": v, "st": staff})
            elif r < 0.40:
                events.append({"k": "note", "t": t, "d": d, "ps": [rand_pitch(rng) for _ in range(rng.randint(2, 4))], "v": v, "st": staff})
            elif r < 0.65:
                k = rng.randint(2, 4)
                ds = [rng.choice([1, 2, 3]) * rng.choice([1, divs]) for _ in range(k)]
                events.append({"k": "tie", "t": t, "ds": ds, "ps": [rand_pitch(rng) for _ in range(rng.choice([1, 1, 2]))], "v": v, "st": staff})
                d = sum(ds)
            elif r < 0.85:
                events.append({"k": "grace", "t": t, "d": d, "gs": [rand_pitch(rng) for _ in range(rng.randint(1, 3))],
                               "gt": rng.choice(["grace", "acciaccatura", "appoggiatura"]),
                               "ps": [rand_pitch(rng)], "v": v, "st": staff})
            elif r < 0.93:
                events.append({"k": "rest", "t": t, "d": d, "v": v, "st": staff})
            else:
                events.append({"k": "unp", "t": t, "d": d, "p": [rng.choice(STEPS7), rng.randint(2, 6)], "v": v, "st": staff})
            t += d
    return {"id": pid, "divs": divs, "events": events, "fifths": rng.randint(-7, 7),
            "slur": rng.random() < 0.4, "words": rng.random() < 0.3, "measures": rng.random() < 0.8}


def gen_case_spec(rng, size):
    arg = rng.choice(["part", "score", "score"])
    nparts = 1 if arg == "part" else rng.choice([1, 2, 2, 3])
    parts = [gen_part_spec(rng, "P%d" % k, size) for k in range(nparts)]
    return {"arg": arg, "parts": parts, "group": arg == "score" and nparts >= 2 and rng.random() < 0.4}


def build(spec):
    """JSON spec -> Score or Part (fresh objects)."""
    import partitura.score as S

    parts = []
    for ps in spec["parts"]:
        divs = ps["divs"]
        p = S.Part(ps["id"], part_name="name " + ps["id"], quarter_duration=divs)
        p.add(S.TimeSignature(4, 4), 0)
        p.add(S.KeySignature(ps.get("fifths", 0), "major"), 0)
        p.add(S.Clef(1, "G", 2, 0), 0)
        nid = [0]
        firstlast = []

        def mk(cls, *a, **k):
            nid[0] += 1
            return cls(*a, id="%s_n%d" % (ps["id"], nid[0]), **k)

        tmax = 0
        for ev in ps["events"]:
            t, v, st = ev["t"], ev.get("v", 1), ev.get("st")
            if ev["k"] == "note":
                for (s_, a_, o_) in ev["ps"]:
                    n = mk(S.Note, s_, o_, a_, voice=v, staff=st)
                    p.add(n, t, t + ev["d"])
                    firstlast.append(n)
                tmax = max(tmax, t + ev["d"])
            elif ev["k"] == "tie":
                for (s_, a_, o_) in ev["ps"]:
                    prev, tt = None, t
                    for d in ev["ds"]:
                        n = mk(S.Note, s_, o_, a_, voice=v, staff=st)
                        p.add(n, tt, tt + d)
                        if prev is not None:
                            prev.tie_next = n
                            n.tie_prev = prev
                        prev, tt = n, tt + d
                    firstlast.append(prev)
                tmax = max(tmax, t + sum(ev["ds"]))
            elif ev["k"] == "grace":
                main = None
                for (s_, a_, o_) in ev["ps"]:
                    main = mk(S.Note, s_, o_, a_, voice=v, staff=st)
                    p.add(main, t, t + ev["d"])
                prev = None
                gl = []
                for (s_, a_, o_) in ev["gs"]:
                    g = mk(S.GraceNote, ev.get("gt", "grace"), s_, o_, a_, voice=v, staff=st)
                    p.add(g, t, t)
                    if prev is not None:
                        prev.grace_next = g
                        g.grace_prev = prev
                    prev = g
                    gl.append(g)
                if prev is not None and main is not None:
                    prev.grace_next = main
                tmax = max(tmax, t + ev["d"])
            elif ev["k"] == "rest":
                p.add(mk(S.Rest, voice=v, staff=st), t, t + ev["d"])
                tmax = max(tmax, t + ev["d"])
            elif ev["k"] == "unp":
                p.add(mk(S.UnpitchedNote, ev["p"][0], ev["p"][1], voice=v, staff=st), t, t + ev["d"])
                tmax = max(tmax, t + ev["d"])
        if ps.get("slur") and len(firstlast) >= 2:
            a, b = firstlast[0], firstlast[-1]
            if a.start.t <= b.start.t and a is not b:
                sl = S.Slur(a, b)
                p.add(sl, a.start.t, b.end.t)
        if ps.get("words"):
            p.add(S.Words("dolce"), 0)
        if ps.get("repeat") and tmax > 0:
            p.add(S.Repeat(), 0, tmax)
        if ps.get("measures") and tmax > 0:
            m, k = 0, 1
            while m < tmax:
                p.add(S.Measure(number=k), m, min(m + 4 * divs, tmax) if m + 4 * divs < tmax else tmax)
                m += 4 * divs
                k += 1
        parts.append(p)
    if spec["arg"] == "part":
        return parts[0]
    if spec.get("group") and len(parts) >= 2:
        g = S.PartGroup(group_symbol="bracket", group_name="grp", id="G1")
        g.children = parts[:2]
        for c in parts[:2]:
            c.parent = g
        return S.Score([g] + parts[2:], id="sc", title="generated")
    return S.Score(parts, id="sc", title="generated")


def _canon(v):
    import numpy as np
    import partitura.score as S

    if v is None or isinstance(v, (bool, int, float, str)):
        return repr(v)
    if isinstance(v, np.generic):
        return repr(v.item())
    if isinstance(v, S.TimePoint):
        return "T%d" % v.t
    if isinstance(v, S.TimedObject):
        return "R(%s,%s,%s)" % (type(v).__name__, getattr(v, "id", None), v.start.t if v.start is not None else None)
    if isinstance(v, (S.Part, S.PartGroup)):
        return "P(%s)" % v.id
    if isinstance(v, (list, tuple)):
        return "[" + ",".join(_canon(x) for x in v) + "]"
    if isinstance(v, dict):
        return "{" + ",".join(sorted(_canon(k) + ":" + _canon(x) for k, x in v.items())) + "}"
    return "<" + type(v).__name__ + ">"


def _objects(part):
    """All objects starting at some time point of the part.  (Part.iter_all() without a class walks every
    subclass of `object` through the defaultdicts of every TimePoint and thereby inserts thousands of empty
    entries into the argument, which makes later deep copies very slow -- read the dicts directly.)"""
    out = []
    for tp in part._points:
        for cls in list(tp.starting_objects.keys()):
            out.extend(tp.starting_objects[cls])
    return out


def flatten(obj):
    """Score or Part -> sorted list of (key, fingerprint of everything but the pitch, raw pitch or None).
    Pitch = (step, alter, octave) of Note / GraceNote objects exactly as stored."""
    import partitura.score as S

    if isinstance(obj, S.Score):
        parts = list(obj.parts)
        top = "Score{" + ",".join("%s=%s" % (k, _canon(v)) for k, v in sorted(vars(obj).items())) + "}"
    else:
        parts = [obj]
        top = "Part"
    out = [(("", -1, "", ""), type(obj).__name__ + ":" + top, None)]
    for pi, p in enumerate(parts):
        pv = {k: v for k, v in vars(p).items() if k not in ("_points",)}
        pfp = "Part{" + ",".join("%s=%s" % (k, _canon(v)) for k, v in sorted(pv.items())) + "}" + \
              "points=" + _canon([tp.t for tp in p._points])
        out.append(((pi, -1, "", ""), pfp, None))
        for o in _objects(p):
            d = dict(vars(o))
            d.pop("_ref_attrs", None)
            pitch = None
            if isinstance(o, S.Note):
                pitch = (d.pop("step", None), d.pop("alter", None), d.pop("octave", None))
            fp = type(o).__name__ + "{" + ",".join("%s=%s" % (k, _canon(v)) for k, v in sorted(d.items())) + "}"
            key = (pi, o.start.t if o.start is not None else -1, type(o).__name__, str(getattr(o, "id", None)) + "|" + fp)
            out.append((key, fp, pitch))
    out.sort(key=lambda r: (str(r[0][0]), r[0][1], r[0][2], r[0][3]))
    return out


def objects_of(obj):
    import partitura.score as S
    parts = list(obj.parts) if isinstance(obj, S.Score) else [obj]
    ids = {id(obj)}
    for p in parts:
        ids.add(id(p))
        for o in _objects(p):
            ids.add(id(o))
    return ids


def h48(key, fp):
    return int(hashlib.sha1((repr(key) + "#" + fp).encode()).hexdigest()[:12], 16)


def run_driver_case(spec, iv):
    """Run the implementation.  Returns dict with flattened before/result/after/back and identity facts."""
    import partitura.score as S
    from partitura.utils.music import transpose

    n, q, d = iv
    arg = build(spec)
    before = flatten(arg)
    res = transpose(arg, S.Interval(n, q, d))
    after = flatten(arg)
    result = flatten(res)
    shared = len((objects_of(arg) & objects_of(res))) if isinstance(res, (S.Score, S.Part)) else -1
    back_obj = transpose(res, S.Interval(n, q, "down" if d == "up" else "up"))
    back = flatten(back_obj)
    return {"before": before, "result": result, "after": after, "back": back,
            "same_type": type(res) is type(arg), "shared": shared}


def canon_pitch(p):
    return None if p is None else enc_pitch(*p)


def driver_oracle(r, iv):
    """Direct oracle on one driver run: list of failure descriptions (empty = property holds)."""
    n, q, d = iv
    up = d == "up"
    sem = spec_semitones(n, q)
    msgs = []
    if not r["same_type"]:
        msgs.append("result is not of the argument's type")
    if r["shared"] != 0:
        msgs.append("result shares %d objects with the argument (not a new score/part)" % r["shared"])
    if [(k, f, p) for k, f, p in r["before"]] != [(k, f, p) for k, f, p in r["after"]]:
        diff = [(a[0], a[2], b[2]) for a, b in zip(r["before"], r["after"]) if a != b][:3]
        msgs.append("the argument was modified by transpose: %r" % (diff,))
    if [(k, f) for k, f, _ in r["before"]] != [(k, f) for k, f, _ in r["result"]]:
        msgs.append("onsets/durations/voices/ties/other elements of the result differ from the argument")
    else:
        for (k, f, p0), (_, _, p1) in zip(r["before"], r["result"]):
            if p0 is None:
                if p1 is not None:
                    msgs.append("unpitched element %r got a pitch" % (k,))
                continue
            exp = spec_transpose(*canon_pitch(p0), n, sem, up)
            if canon_pitch(p1) != exp:
                msgs.append("note %s (%s at %s): %r -> %r, expected %r (step index, alter, octave)"
                            % (k[3].split("|")[0], k[2], k[1], p0, p1, exp))
                break
    if [(k, f, canon_pitch(p)) for k, f, p in r["back"]] != [(k, f, canon_pitch(p)) for k, f, p in r["before"]]:
        msgs.append("transposing the result back by the same interval does not restore the original spelling")
    return msgs


def celems(flat):
    return clist(["(%s,%s)" % (zt(h48(k, f)), "None" if p is None else "(Some %s)" % cpitch(canon_pitch(p)))
                  for k, f, p in flat])


def case_features(spec):
    ks = set()
    for p in spec["parts"]:
        for e in p["events"]:
            ks.add(e["k"])
            if e["k"] == "note" and len(e["ps"]) > 1:
                ks.add("chord")
    return ks


def shrink(spec, iv):
    """ddmin over the events of all parts; keeps failing (oracle non-empty or exception)."""
    items = [(pi, ei) for pi, p in enumerate(spec["parts"]) for ei in range(len(p["events"]))]

    def mk(sub):
        s2 = copy.deepcopy(spec)
        keep = set(sub)
        for pi, p in enumerate(s2["parts"]):
            p["events"] = [e for ei, e in enumerate(p["events"]) if (pi, ei) in keep]
        return s2

    def fails(sub):
        try:
            return bool(driver_oracle(run_driver_case(mk(sub), iv), iv))
        except Exception:
            return True

    try:
        if not fails(items):
            return spec
        return mk(core.ddmin(items, fails))
    except Exception:
        return spec


FIXED_SPEC = {"arg": "part", "group": False, "parts": [{"id": "P0", "divs": 4, "fifths": 0, "slur": True, "words": True, "measures": True,
              "events": [{"k": "tie", "t": 0, "ds": [4, 4, 2], "ps": [["C", 1, 4], ["B", None, 3]], "v": 1, "st": 1},
                         {"k": "grace", "t": 10, "d": 2, "gs": [["B", 0, 4], ["C", -1, 5]], "gt": "acciaccatura", "ps": [["F", 2, 0]], "v": 1, "st": 1},
                         {"k": "note", "t": 12, "d": 4, "ps": [["C", 0, 0], ["E", -2, 8], ["B", 2, 8]], "v": 1, "st": None},
                         {"k": "rest", "t": 16, "d": 4, "v": 1, "st": 1},
                         {"k": "unp", "t": 20, "d": 4, "p": ["E", 4], "v": 1, "st": 1}]}]}


def run_driver(ctx):
    rng = ctx.rng
    nscores, nivs, size = (120, 4, 6) if ctx.tier == "quick" else (1200, 4, 8)
    all_ivs = [(n, QUALS[qi], d) for n, qi in classes_model_order() for d in ("up", "down")]
    weighted = all_ivs + [iv for iv in all_ivs if iv[2] == "down"] + [iv for iv in all_ivs if iv[0] == 1] * 2
    jobs = []
    # small-scope exhaustive: the fixed corpus part (ties, grace notes, chord, octave boundaries)
    # under every interval class and direction, as a Part and inside a Score
    for arg in ("part", "score"):
        spec = dict(FIXED_SPEC, arg=arg)
        for iv in all_ivs:
            jobs.append((spec, iv))
    for _ in range(nscores):
        spec = gen_case_spec(rng, size)
        for iv in rng.sample(weighted, nivs):
            jobs.append((spec, iv))
    terms, kept = [], []
    nviol = 0
    for spec, iv in jobs:
        ctx.evaluations += 1
        replay_obj = {"kind": "driver", "spec": spec, "interval": list(iv)}
        try:
            r = run_driver_case(spec, iv)
            msgs = driver_oracle(r, iv)
        except Exception as e:  # transpose must be total on these inputs
            r, msgs = None, ["transpose raised %s: %s" % (type(e).__name__, e)]
        feats = case_features(spec)
        ctx.count("arg:" + spec["arg"])
        ctx.count("dir:" + iv[2])
        for f in sorted(feats):
            ctx.count("has:" + f)
        if msgs:
            nviol += 1
            if nviol <= 5:
                small = shrink(spec, iv)
                try:
                    m2 = driver_oracle(run_driver_case(small, iv), iv) or msgs
                except Exception as e:
                    m2 = ["transpose raised %s: %s" % (type(e).__name__, e)]
                ctx.violation("transpose(%s, %s%d %s): %s" % (spec["arg"], iv[1], iv[0], iv[2], "; ".join(m2)[:600]),
                              {"kind": "driver", "spec": small, "interval": list(iv), "failures": m2})
            continue
        if (feats & {"tie", "grace"}) and not (iv[0] == 1 and iv[1] == "P"):
            ctx.nontrivial(("driver", json.dumps(spec, sort_keys=True), iv))
        n, q, d = iv
        cb = [(k, f, canon_pitch(p)) for k, f, p in r["before"]]
        same_after = [(k, f, canon_pitch(p)) for k, f, p in r["after"]] == cb
        same_back = [(k, f, canon_pitch(p)) for k, f, p in r["back"]] == cb
        terms.append("(%s,%s,%s,%s,%s,%s,%s)" % (zt(n), zt(QUALS.index(q)), cbool(d == "up"), celems(r["before"]), celems(r["result"]),
                                                 "same" if same_after else "(Some %s)" % celems(r["after"]),
                                                 "same" if same_back else "(Some %s)" % celems(r["back"])))
        kept.append(replay_obj)
        if len(ctx.samples) < 4 and feats >= {"tie", "grace"}:
            ctx.sample({"driver_case": {"arg": spec["arg"], "interval": list(iv), "parts": len(spec["parts"]),
                                        "elements": len(r["before"]),
                                        "first_notes": [[list(p0), list(p1)] for (_, _, p0), (_, _, p1) in zip(r["before"], r["result"]) if p0][:4]}})
    ctx.log('driver: %d runs done, %d cases to Coq' % (len(jobs), len(terms)))
    if not terms:
        ctx.obligation("correspondence: Coq model transpose_elems = transpose()", False, "every driver case already failed the direct oracle")
        return
    try:
        failing = ctx.coq_failing("driver", "From PV Require Import Model.C16.", "", terms, "driver_ok", shard=150)
        detail = failing[:5]
    except RuntimeError as e:
        failing, detail = [-1], str(e)[-1500:]
    ctx.obligation("correspondence: Coq model transpose_elems = transpose() on %d generated (score|part, interval) cases "
                   "(result, argument after the call, result transposed back)" % len(terms), not failing, detail)
    for i in failing[:5]:
        if i < 0:
            ctx.violation("driver correspondence could not be evaluated in Coq: " + str(detail)[-600:], {"kind": "coq", "error": detail}, no_input=True)
        else:
            ctx.violation("Coq driver model and transpose() disagree (the Python oracle accepted the case)", kept[i])


# ----------------------------------------------------------------------------
# SCORE-HISTORY stream: the ARGUMENT of transpose() has a history.  One live Score (or Part) per history; operations
#   ["set", i, partspec]            score[i] = freshly built part            (Score.__setitem__ changes `parts` only)
#   ["append", partspec] / ["pop", i]   score.parts.append(part) / score.parts.pop(i)   (the documented attribute is a plain list)
#   ["unfold", "max"|"min"]         score = unfold_part_maximal/minimal(score)  (deep copy whose `parts` are replaced)
#   ["edit", i, "add"|"del"|"pitch", ...]  a part reachable through score.parts edited in place
#   ["tr", n, q, d]                 transpose(score, Interval(n, q, d)) -- judged, the argument kept (so the same argument
#                                   is transposed again later, by another interval)
#   ["adopt", n, q, d]              score = transpose(score, Interval(n, q, d))  (the RESULT is transposed again)
# Every "tr" is judged note by note against the CURRENT parts of the argument: every element of every part reachable
# through result.parts, result[i], iter(result) (the three views must show the same objects) and the rows of
# result.note_array() moved by the interval, everything else as in the argument, the argument unchanged, nothing shared.
# The observed history is replayed through the Gallina machine of Model/C16_Hist.v (sh_case_ok).

def _parts_of(obj):
    import partitura.score as S
    return list(obj.parts) if isinstance(obj, S.Score) else [obj]


def gen_score_history(rng):
    all_ivs = [(n, QUALS[qi], d) for n, qi in classes_model_order() for d in ("up", "down")]
    kind = rng.choice(["score", "score", "score", "part"])
    nparts = 1 if kind == "part" else rng.choice([1, 2, 2, 3])

    def part(pid):
        ps = gen_part_spec(rng, pid, 3)
        ps["repeat"] = rng.random() < 0.3
        return ps

    used = []

    def tr():
        # 45 %: an interval this history has used before (the same argument object asked the same question again after it
        # has changed), else any class / direction
        iv = rng.choice(used) if used and rng.random() < 0.45 else rng.choice(all_ivs)
        used.append(iv)
        # 20 %: the interval number is a numpy integer
        return ["tr", iv[0], iv[1], iv[2]] + ([rng.choice(["int64", "int32", "int8"])] if rng.random() < 0.2 else [])

    def newid(k):
        # half of the parts put into a score later carry the id of a part it was built from
        return "S%d" % k if rng.random() < 0.5 else "P%d" % rng.randrange(3)

    init = {"arg": kind, "parts": [part("P%d" % k) for k in range(nparts)],
            "group": kind == "score" and nparts >= 2 and rng.random() < 0.4}
    ops, nsp = [], 0
    if rng.random() < 0.4:
        ops.append(tr())
    for _ in range(rng.randint(2, 6)):
        r = rng.random()
        if r < 0.24 and kind == "score":
            nsp += 1
            ops.append(["set", rng.randrange(3), part(newid(nsp))])
        elif r < 0.30 and kind == "score":
            nsp += 1
            ops.append(rng.choice([["append", part(newid(nsp))], ["pop", rng.randrange(3)]]))
        elif r < 0.40:
            ops.append(["unfold", rng.choice(["max", "min"])])
        elif r < 0.58:
            ek = rng.choice(["add", "del", "pitch", "pitch"])
            if ek == "add":
                ops.append(["edit", rng.randrange(3), "add", rand_pitch(rng), rng.randint(0, 8), rng.randint(1, 4), rng.choice([1, 2])])
            elif ek == "del":
                ops.append(["edit", rng.randrange(3), "del", rng.randrange(12)])
            else:
                # 25 %: alteration and octave assigned as numpy integers (what notes built from arrays carry)
                ops.append(["edit", rng.randrange(3), "pitch", rng.randrange(12), rand_pitch(rng)] + ([rng.choice(["int64", "int32"])] if rng.random() < 0.25 else []))
        elif r < 0.70:
            ops.append(["adopt"] + tr()[1:])   # (may carry the numpy kind as well)
        else:
            ops.append(tr())
    ops.append(tr())
    return {"init": init, "ops": ops}


def _note_rows(obj):
    """rows of obj.note_array() with pitch spelling and grace notes, or None when the argument has no such array"""
    try:
        na = obj.note_array(include_pitch_spelling=True, include_grace_notes=True)
        return [(str(r["id"]), int(r["onset_div"]), int(r["duration_div"]), int(r["voice"]), int(r["pitch"]),
                 str(r["step"]), int(r["alter"]), int(r["octave"])) for r in na]
    except Exception:
        return None


def judge_transposition(arg, iv, numkind=None):
    """transpose(arg, iv) judged against the CURRENT parts of arg.  Returns (messages, result, before, seen):
    before / seen = per-part flattened lists of the argument before the call / of the result (through .parts)."""
    import partitura.score as S
    from partitura.utils.music import transpose

    n, q, d = iv
    up, sem = d == "up", spec_semitones(n, q)
    parts0 = _parts_of(arg)
    before = [flatten(p) for p in parts0]
    whole = flatten(arg)
    ids0 = [id(p) for p in parts0]
    rows0 = _note_rows(arg)
    msgs = []
    try:
        if numkind:
            import numpy as np
            res = transpose(arg, S.Interval(getattr(np, numkind)(n), q, d))
        else:
            res = transpose(arg, S.Interval(n, q, d))
    except Exception as e:
        return ["transpose raised %s: %s" % (type(e).__name__, e)], None, before, None
    if flatten(arg) != whole or [id(p) for p in _parts_of(arg)] != ids0:
        msgs.append("the argument was modified by transpose")
    if type(res) is not type(arg):
        return msgs + ["result is a %s, the argument a %s" % (type(res).__name__, type(arg).__name__)], res, before, None
    if isinstance(res, S.Score):
        v1 = list(res.parts)
        try:
            v2 = [res[i] for i in range(len(res))]
            v3 = list(iter(res))
        except Exception as e:
            return msgs + ["reading the result raised %s: %s" % (type(e).__name__, e)], res, before, None
        views = [("result.parts", v1)]
        for name, v in (("result[i]", v2), ("iter(result)", v3)):
            if len(v) != len(v1) or any(a is not b for a, b in zip(v, v1)):
                msgs.append("%s and result.parts show different part objects" % name)
                views.append((name, v))
    else:
        views = [("result", [res])]
    seen = None
    for name, v in views:
        if len(v) != len(before):
            msgs.append("%s has %d parts, the argument holds %d" % (name, len(v), len(before)))
            continue
        fl = [flatten(p) for p in v]
        if seen is None:
            seen = fl
        for k, (b, r) in enumerate(zip(before, fl)):
            if [(key, f) for key, f, _ in b] != [(key, f) for key, f, _ in r]:
                msgs.append("part %d reached through %s: onsets/durations/voices/ties/other elements differ from part %d the argument holds now"
                            % (k, name, k))
                continue
            bad = None
            for (key, f, p0), (_, _, p1) in zip(b, r):
                if p0 is None:
                    if p1 is not None:
                        bad = "unpitched element %r got a pitch" % (key,)
                        break
                    continue
                exp = spec_transpose(*canon_pitch(p0), n, sem, up)
                if canon_pitch(p1) != exp:
                    bad = ("note %s of part %d reached through %s: the argument's part holds %r now, the result %r, expected %r"
                           % (key[3].split("|")[0], k, name, tuple(p0), tuple(p1), (STEPS7[exp[0]], exp[1], exp[2])))
                    break
            if bad:
                msgs.append(bad)
    shared = objects_of(arg) & objects_of(res)
    if shared:
        msgs.append("result shares %d objects with the argument (not a new score/part)" % len(shared))
    if rows0 is not None:
        rows1 = _note_rows(res)
        sg = 1 if up else -1
        exp_rows = []
        for (i_, on, du, vo, pi, st, al, oc) in rows0:
            e = spec_transpose(STEP_IDX[st], al, oc, n, sem, up)
            exp_rows.append((i_, on, du, vo, pi + sg * sem, STEPS7[e[0]], e[1], e[2]))
        if rows1 is None:
            msgs.append("result.note_array() raises, argument.note_array() does not")
        elif sorted(rows1) != sorted(exp_rows):
            diff = [(a, b) for a, b in zip(sorted(rows1), sorted(exp_rows)) if a != b][:1]
            msgs.append("result.note_array(): rows are not the argument's rows moved by the interval (got, expected): %r" % (diff,))
    return msgs, res, before, seen


def run_score_history(h, stop_at_first=True):
    """Execute one history.  Returns (failures [(op index, messages)], trace for Coq, counts)."""
    import partitura.score as S

    state = {"score": build(h["init"]), "last": None}
    init_flat = [flatten(p) for p in _parts_of(state["score"])]
    fails, trace, counts = [], [], {}
    nedit = [0]

    def cnt(k):
        counts[k] = counts.get(k, 0) + 1

    for oi, op in enumerate(h["ops"]):
        sc = state["score"]
        k = op[0]
        if k == "set":
            if isinstance(sc, S.Score) and len(sc) > 0:
                i = op[1] % len(sc)
                sc[i] = build({"arg": "part", "parts": [op[2]]})
                trace.append(("set", i, flatten(sc.parts[i])))
                cnt("op:setitem")
        elif k in ("append", "pop"):
            if not isinstance(sc, S.Score):
                continue
            if k == "append":
                sc.parts.append(build({"arg": "part", "parts": [op[1]]}))
            elif len(sc.parts) >= 2:
                sc.parts.pop(op[1] % len(sc.parts))
            else:
                continue
            trace.append(("replace", [flatten(p) for p in sc.parts]))
            cnt("op:score.parts." + k)
        elif k == "unfold":
            try:
                new = (S.unfold_part_maximal if op[1] == "max" else S.unfold_part_minimal)(sc)
            except Exception:
                cnt("op:unfold raised (skipped)")
                continue
            state["score"] = new
            trace.append(("replace", [flatten(p) for p in _parts_of(new)]))
            cnt("op:unfold")
        elif k == "edit":
            parts = _parts_of(sc)
            if not parts:
                continue
            i = op[1] % len(parts)
            p = parts[i]
            notes = list(p.notes)
            try:
                if op[2] == "add":
                    nedit[0] += 1
                    st, al, oc = op[3]
                    last = p.last_point.t if p.last_point is not None else 0
                    t = min(op[4], last)
                    p.add(S.Note(st, oc, al, id="%s_e%d" % (p.id, nedit[0]), voice=op[6]), t, t + op[5])
                elif op[2] == "del":
                    if len(notes) < 2:
                        continue
                    p.remove(notes[op[3] % len(notes)])
                else:
                    if not notes:
                        continue
                    nt = notes[op[3] % len(notes)]
                    st, al, oc = op[4]
                    if len(op) > 5:
                        import numpy as np
                        al = None if al is None else getattr(np, op[5])(al)
                        oc = getattr(np, op[5])(oc)
                        cnt("op:edit pitch with numpy integers")
                    nt.step, nt.alter, nt.octave = st, al, oc
            except Exception:
                cnt("op:edit raised (skipped)")
                continue
            trace.append(("edit", i, flatten(p)))
            cnt("op:edit " + op[2])
        elif k in ("tr", "adopt"):
            iv = (op[1], op[2], op[3])
            msgs, res, before, seen = judge_transposition(sc, iv, op[4] if len(op) > 4 else None)
            if len(op) > 4:
                cnt("op:transpose with a numpy interval number")
            cnt("op:transpose of a %s" % type(sc).__name__)
            if msgs:
                fails.append((oi, msgs))
                if stop_at_first:
                    break
                continue
            trace.append(("tr", iv, seen))
            if k == "adopt":
                state["score"] = res
                trace.append(("adopt", iv))
                cnt("op:adopt (the result is the next argument)")
    return fails, (init_flat, trace), counts


def shrink_score_history(h):
    def fails(sub):
        try:
            return bool(run_score_history({"init": h["init"], "ops": list(sub)})[0])
        except Exception:
            return True
    try:
        ops = h["ops"]
        if not fails(ops):
            return h
        ops = core.ddmin(list(ops), fails)
        h2 = {"init": h["init"], "ops": ops}
        # events of the initial parts
        items = [(pi, ei) for pi, p in enumerate(h["init"]["parts"]) for ei in range(len(p["events"]))]

        def mk(sub):
            s2 = copy.deepcopy(h["init"])
            keep = set(sub)
            for pi, p in enumerate(s2["parts"]):
                p["events"] = [e for ei, e in enumerate(p["events"]) if (pi, ei) in keep]
            return s2

        def fails2(sub):
            try:
                return bool(run_score_history({"init": mk(sub), "ops": ops})[0])
            except Exception:
                return True
        if fails2(items):
            h2 = {"init": mk(core.ddmin(items, fails2)), "ops": ops}
        return h2
    except Exception:
        return h


def hist_op_txt(op):
    if op[0] == "set":
        return "score[%d %% len] = part %s (%d events)" % (op[1], op[2]["id"], len(op[2]["events"]))
    if op[0] == "append":
        return "score.parts.append(part %s (%d events))" % (op[1]["id"], len(op[1]["events"]))
    if op[0] == "pop":
        return "score.parts.pop(%d %% len)" % op[1]
    if op[0] == "unfold":
        return "score = unfold_part_%simal(score)" % op[1]
    if op[0] == "edit":
        return "part %d %% len edited in place: %s %r" % (op[1], op[2], op[3:])
    if op[0] == "adopt":
        return "score = transpose(score, Interval(%s%d, %r, %r))" % ("numpy." + op[4] + " " if len(op) > 4 else "", op[1], op[2], op[3])
    return "transpose(score, Interval(%s%d, %r, %r))" % ("numpy." + op[4] + " " if len(op) > 4 else "", op[1], op[2], op[3])


def _cparts(fl):
    return clist([celems(f) for f in fl])


def score_history_term(init_flat, trace):
    ops = []
    for t in trace:
        if t[0] == "set":
            ops.append("(ShSet %d %s, [])" % (t[1], celems(t[2])))
        elif t[0] == "edit":
            ops.append("(ShEdit %d %s, [])" % (t[1], celems(t[2])))
        elif t[0] == "replace":
            ops.append("(ShReplaceAll %s, [])" % _cparts(t[1]))
        elif t[0] == "adopt":
            n, q, d = t[1]
            ops.append("(ShAdopt %s %s %s, [])" % (zt(n), zt(QUALS.index(q)), cbool(d == "up")))
        else:
            n, q, d = t[1]
            ops.append("(ShTr %s %s %s, %s)" % (zt(n), zt(QUALS.index(q)), cbool(d == "up"), _cparts(t[2])))
    return "(%s, %s)" % (_cparts(init_flat), clist(ops))


def corpus_score_histories():
    path = os.path.join(os.path.dirname(os.path.abspath(__file__)), "..", "..", "corpus", "C16", "score_histories.json")
    try:
        with open(path) as f:
            return json.load(f)
    except Exception:
        return []


def run_score_histories(ctx):
    rng = ctx.rng
    nh = 260 if ctx.tier == "quick" else 2600
    hists = list(corpus_score_histories()) + [gen_score_history(rng) for _ in range(nh)]
    terms, kept, nviol = [], [], 0
    for h in hists:
        ctx.evaluations += 1
        try:
            fails, (init_flat, trace), counts = run_score_history(h)
        except Exception as e:
            fails, init_flat, trace, counts = [(-1, ["the history could not be executed: %s: %s" % (type(e).__name__, e)])], None, None, {}
        for k, v in sorted(counts.items()):
            ctx.count("score-history " + k, v)
        ctx.count("score-history arg:" + h["init"]["arg"])
        if fails:
            nviol += 1
            if nviol <= 4:
                small = shrink_score_history(h)
                try:
                    f2 = run_score_history(small)[0] or fails
                except Exception as e:
                    f2 = [(-1, ["%s: %s" % (type(e).__name__, e)])]
                oi, msgs = f2[0]
                ctx.violation("the argument has a history: %s  ->  %s" % ("; ".join(hist_op_txt(o) for o in small["ops"][:oi + 1 if oi >= 0 else None]),
                                                                          "; ".join(msgs)[:700]),
                              {"kind": "score_history", "init": small["init"], "ops": small["ops"], "failures": msgs})
            continue
        changed = any(t[0] in ("set", "edit", "replace", "adopt") for t in trace)
        if changed and any(t[0] == "tr" for t in trace):
            ctx.nontrivial(("score_history", json.dumps(h, sort_keys=True)))
        terms.append(score_history_term(init_flat, trace))
        kept.append({"kind": "score_history", "init": h["init"], "ops": h["ops"]})
    ctx.log('score histories: %d executed, %d failing, %d to Coq' % (len(hists), nviol, len(terms)))
    if not terms:
        ctx.obligation("correspondence: Coq machine sh_case_ok = transpose() on score histories", False, "every history already failed the direct oracle")
        return
    try:
        failing = ctx.coq_failing("scorehist", "From PV Require Import Model.C16 Model.C16_Hist.", "", terms, "sh_case_ok", shard=30)
        detail = failing[:5]
    except RuntimeError as e:
        failing, detail = [-1], str(e)[-1500:]
    ctx.obligation("correspondence: the Gallina machine of Model/C16_Hist.v (score[i] = part, edits in place, unfolding, the result "
                   "transposed again; every transposition = transpose_elems over the CURRENT parts) reproduces what the public views of "
                   "transpose()'s result show, on %d observed histories" % len(terms), not failing, detail)
    for i in failing[:4]:
        if i < 0:
            ctx.violation("score-history correspondence could not be evaluated in Coq: " + str(detail)[-600:], {"kind": "coq", "error": detail}, no_input=True)
        else:
            ctx.violation("Coq score-history machine and transpose() disagree (the Python oracle accepted the history)", kept[i])


def replay_score_history(r):
    h = {"init": r["init"], "ops": r["ops"]}
    fails, (init_flat, trace), _ = run_score_history(h, stop_at_first=False)
    fd = dict(fails)
    for oi, op in enumerate(h["ops"]):
        print("  %d. %s%s" % (oi + 1, hist_op_txt(op), "" if oi not in fd else "\n       -> " + "\n       -> ".join(fd[oi])))
    print("oracle now says:", "property violated at step(s) %s" % sorted(o + 1 for o in fd) if fd else
          "every transposition moved every note of the parts the argument held at that moment; the arguments stayed as they were")
    return 0


# ----------------------------------------------------------------------------
# ROOTS stream: the step/alteration arithmetic used for chord roots and local keys -- process_local_key,
# RomanNumeral(...) (find_root_note, find_bass_note), transpose_note with a fresh Interval and with the module-level
# Roman2Interval_* entries -- as SEQUENCES of calls in one interpreter.  Every sequence is executed in a child forked
# from a FRESH interpreter that has imported partitura and executed nothing else (fresh_server), forwards and
# reversed; every observation is judged against (a) the diatonic arithmetic of ITS OWN arguments (Python spec below,
# independent of the Coq model and of the library's tables) and (b) the observation of the same call alone in a
# fresh interpreter; the observed history is replayed through the Gallina machine of Model/C16_Roots.v.

SYMS = ["I", "II", "III", "III+", "IV", "V", "VI", "VII", "i", "ii", "iii", "iv", "v", "vi", "vii",
        "viio", "N", "iio", "Ger7", "Fr7", "It"]
# independent catalogue: which interval a degree text denotes above the tonic of a major / minor key
CAT_MAJ = {"I": (1, "P"), "II": (2, "M"), "III": (3, "M"), "III+": (3, "M"), "IV": (4, "P"), "V": (5, "P"), "VI": (6, "M"),
           "VII": (7, "M"), "i": (1, "P"), "ii": (2, "M"), "iii": (3, "m"), "iv": (4, "P"), "v": (5, "P"), "vi": (6, "M"),
           "vii": (7, "M"), "viio": (7, "M"), "N": (2, "m"), "iio": (2, "M"), "Ger7": (4, "A"), "Fr7": (4, "A"), "It": (4, "A")}
CAT_MIN = dict(CAT_MAJ, **{"III": (3, "m"), "III+": (3, "m"), "VI": (6, "m"), "VII": (7, "m")})
DEG_NUM = {"i": 1, "ii": 2, "iii": 3, "iv": 4, "v": 5, "vi": 6, "vii": 7}
MAJ_SCALE = [0, 2, 4, 5, 7, 9, 11]
MIN_SCALE = [0, 2, 3, 5, 7, 8, 10]
ALT_TXT = {-2: "--", -1: "-", 0: "", 1: "#", 2: "##"}
TXT_ALT = {v: k for k, v in ALT_TXT.items()}


def deg_facts(text):
    """What the code reads from a degree text (see Model/C16_Roots.v: deg); 'weird' = the shortcut test of
    process_local_key and the table key would disagree (digits next to a bare I) -- such texts are not sent to Coq."""
    import re
    stripped = text.replace("#", "").replace("b", "")
    letters = re.sub(r"[^a-zA-Z]", "", stripped).lower()
    return {"sym": SYMS.index(text) if text in SYMS else None, "num": DEG_NUM.get(letters),
            "acc": text.count("#") - text.count("b"), "lower": stripped.islower(), "lower_all": text.islower(),
            "weird": (letters == "i") != (stripped.lower() == "i")}


def key_facts(text):
    """(step index, alteration, written in lower case) of a key / note name; None if it has no step letter."""
    import re
    m = re.search(r"[a-gA-G]", text)
    if not m:
        return None
    rest = text[m.end():]
    return (STEP_IDX[m.group(0).upper()], rest.count("#") - rest.count("b") - rest.count("-"), text.islower())


def parse_name(s):
    """a name as the library prints it: step letter + '' / '#' / '##' / '-' / '--' -> (step index, alter, lower)"""
    if not isinstance(s, str) or not s or s[0].upper() not in STEP_IDX or s[1:] not in TXT_ALT:
        return None
    return (STEP_IDX[s[0].upper()], TXT_ALT[s[1:]], s[0].islower())


def spec_move(i, a, n, size):
    """diatonic arithmetic without octave: step + (n-1), alteration such that the pitch class moves by size.
    None = outside what transpose_note accepts (an alteration beyond a double accidental): nothing is demanded."""
    if not -2 <= a <= 2:
        return None
    e = spec_transpose(i, a, 4, n, size, True)
    return (e[0], e[1]) if -2 <= e[1] <= 2 else None


def spec_degree(minor, text):
    """(number, size in semitones) of the interval the degree denotes in a key of that mode; None = undefined"""
    cat = CAT_MIN if minor else CAT_MAJ
    if text in cat:
        n, q = cat[text]
        return (n, spec_semitones(n, q))
    f = deg_facts(text)
    if f["num"] is None or f["weird"]:
        return None
    return spec_scale_degree(minor, f["num"], f["acc"])


def spec_scale_degree(minor, n, acc):
    off = (MIN_SCALE if minor else MAJ_SCALE)[n - 1] + acc - MAJ_SCALE[n - 1]
    lo = -2 if n in (1, 4, 5) else -3
    if acc != 0 and not lo <= off <= 2:
        return None          # Interval.change_quality refuses: nothing is demanded
    return (n, MAJ_SCALE[n - 1] + off)


def name_txt(i, a, lower):
    return (STEPS7[i].lower() if lower else STEPS7[i]) + ALT_TXT[a]


def spec_plk(loc, glob, rsa):
    """expected result of process_local_key, or None when nothing is demanded"""
    f, k = deg_facts(loc), key_facts(glob)
    if k is None or f["weird"]:
        return None
    if f["lower"] == k[2] and f["num"] == 1 and f["acc"] == 0 and not rsa and loc.replace("#", "").replace("b", "").lower() == "i":
        return ["ok", glob]
    if f["num"] is None:
        return None
    d = spec_scale_degree(k[2], f["num"], f["acc"])
    r = d and spec_move(k[0], k[1], d[0], d[1])
    if not r:
        return None
    return ["ok", [STEPS7[r[0]], r[1]]] if rsa else ["ok", name_txt(r[0], r[1], f["lower"])]


def spec_root(local_key, prim, sec):
    """expected RomanNumeral.root from the object's own local_key / primary_degree / secondary_degree"""
    k = key_facts(local_key)
    if k is None:
        return None
    d2 = spec_degree(k[2], sec)
    s1 = d2 and spec_move(k[0], k[1], d2[0], d2[1])
    if not s1:
        return None
    sec_minor = sec.islower()
    cat = CAT_MIN if sec_minor else CAT_MAJ
    if prim in cat:
        r = spec_move(s1[0], s1[1], cat[prim][0], spec_semitones(*cat[prim]))
        return name_txt(r[0], r[1], False) if r else None
    return (spec_plk(prim, name_txt(s1[0], s1[1], sec_minor), False) or [None, None])[1]


def spec_bass(root, inv, prim):
    k = parse_name(root)
    if k is None:
        return None
    iv = {1: (3, 3 if prim.islower() else 4), 2: (5, 7), 3: (7, 10)}.get(inv)
    if iv is None:
        return root
    r = spec_move(k[0], k[1], iv[0], iv[1])
    return name_txt(r[0], r[1], False) if r else None


def _call(f, *a, **k):
    try:
        v = f(*a, **k)
    except Exception as e:
        return ["exc", type(e).__name__]
    if isinstance(v, tuple):
        v = [x if isinstance(x, str) else (int(x) if hasattr(x, "__index__") else repr(x)) for x in v]
    elif not isinstance(v, str):
        v = repr(v)
    return ["ok", v]


def exec_op(op):
    """Run one call on the tree under test; JSON-able observation."""
    import partitura.score as S
    import partitura.utils.music as M

    k = op[0]
    if k == "plk":
        return _call(S.process_local_key, op[1], op[2], return_step_alter=bool(op[3])) if op[3] else _call(S.process_local_key, op[1], op[2])
    if k == "tn":
        return _call(lambda: M.transpose_note(op[1], op[2], S.Interval(op[3], op[4])))
    if k == "ts":
        tab = getattr(S, "Roman2Interval_Min" if op[1] == "min" else "Roman2Interval_Maj", None)
        if not isinstance(tab, dict) or op[2] not in tab:
            return ["skip"]
        iv = tab[op[2]]
        r = _call(M.transpose_note, op[3], op[4], iv)
        return r + [[getattr(iv, "number", None), getattr(iv, "quality", None), getattr(iv, "direction", None)]]
    if k == "rn":
        try:
            rn = S.RomanNumeral(op[1], **op[2])
        except Exception as e:
            return {"exc": type(e).__name__}
        attrs = [rn.local_key, rn.primary_degree, rn.secondary_degree, rn.inversion, rn.quality]
        out = {"attrs": [x if isinstance(x, (str, int, type(None))) else repr(x) for x in attrs],
               "root": getattr(rn, "root", None), "bass": getattr(rn, "bass_note", None)}
        if all(isinstance(x, str) for x in attrs[:3]) and isinstance(attrs[3], int):
            out["root2"] = _call(rn.find_root_note)
            if out["root2"][0] == "ok":
                if not hasattr(rn, "root"):
                    rn.root = out["root2"][1]
                out["bass2"] = _call(rn.find_bass_note)
        return out
    if k == "plk_table":      # T2: process_local_key on its whole finite domain, in the order of Model/C16_Roots.v dom_plk
        rows = []
        for n, lower, acc, ki, ka, kmin, rsa in plk_domain():
            loc, glob = plk_texts(n, lower, acc, ki, ka, kmin)
            rows.append(exec_op(["plk", loc, glob, rsa]))
        if op[1:] == ["twice"]:   # second sweep in reversed order in the same interpreter: must give the same graph
            rows2 = [exec_op(["plk"] + list(plk_texts(*r[:6])) + [r[6]]) for r in reversed(plk_domain())]
            return [rows, rows2[::-1]]
        return [rows, rows]
    if k == "reflect":
        out = {}
        for nm in ("Roman2Interval_Maj", "Roman2Interval_Min"):
            tab = getattr(S, nm, None)
            try:
                out[nm] = [[kk, int(v.number), str(v.quality), str(v.direction)] for kk, v in tab.items()]
            except Exception:
                out[nm] = None
        try:
            import partitura.utils.globals as G
            out["lk"] = {m: [[kk, int(v[0]), str(v[1])] for kk, v in G.LOCAL_KEY_TRASPOSITIONS_DCML[m].items()] for m in ("major", "minor")}
        except Exception:
            out["lk"] = None
        return out
    raise ValueError("unknown op %r" % (op,))


NUMERALS = ["I", "II", "III", "IV", "V", "VI", "VII"]


def plk_domain():
    return [(n, lower, acc, ki, ka, kmin, rsa) for n in range(1, 8) for lower in (False, True) for acc in range(-2, 3)
            for ki in range(7) for ka in range(-2, 3) for kmin in (False, True) for rsa in (False, True)]


def plk_texts(n, lower, acc, ki, ka, kmin):
    num = NUMERALS[n - 1].lower() if lower else NUMERALS[n - 1]
    return ("#" * acc if acc > 0 else "b" * (-acc)) + num, name_txt(ki, ka, kmin)


def _fresh_server():
    """Child side.  Imports partitura, then serves JSON lines {"ops": [...]}: every request is executed in a forked
    child (the server itself never calls the library), so each request starts from the state right after import."""
    import os, sys, resource
    core.setup_import_path()
    import partitura.score  # noqa
    import partitura.utils.music  # noqa
    sys.stdout.write("ready\n")
    sys.stdout.flush()
    for line in sys.stdin:
        line = line.strip()
        if not line:
            continue
        rfd, wfd = os.pipe()
        pid = os.fork()
        if pid == 0:
            os.close(rfd)
            try:
                resource.setrlimit(resource.RLIMIT_CPU, (120, 120))   # CPU-time guard
                out = json.dumps([exec_op(o) for o in json.loads(line)["ops"]])
            except BaseException as e:   # noqa
                out = json.dumps({"server_error": "%s: %s" % (type(e).__name__, e)})
            with os.fdopen(wfd, "w") as w:
                w.write(out)
            os._exit(0)
        os.close(wfd)
        with os.fdopen(rfd) as r:
            data = r.read()
        os.waitpid(pid, 0)
        sys.stdout.write((data or json.dumps({"server_error": "child died"})) + "\n")
        sys.stdout.flush()


class FreshServer:
    def __init__(self):
        import os, subprocess, sys, threading
        hdir = os.path.dirname(os.path.dirname(os.path.abspath(__file__)))
        code = ("import sys; sys.path.insert(0, %r); import core; from props import c16; c16._fresh_server()" % hdir)
        self.p = subprocess.Popen([sys.executable, "-c", code], stdin=subprocess.PIPE, stdout=subprocess.PIPE,
                                  stderr=subprocess.DEVNULL, text=True, env=dict(os.environ, PYTHONHASHSEED="0"))
        self.lock = threading.Lock()
        self.cache = _REF_CACHE      # single calls in a fresh interpreter: shared by all servers of the run
        first = self.p.stdout.readline().strip()
        if first != "ready":
            raise RuntimeError("fresh interpreter did not start: %r" % first)

    def run(self, ops):
        """observations of the sequence `ops` executed in one fresh interpreter state"""
        key = json.dumps(ops)
        if key in self.cache:
            return self.cache[key]
        with self.lock:
            self.p.stdin.write(json.dumps({"ops": ops}) + "\n")
            self.p.stdin.flush()
            line = self.p.stdout.readline()
        out = json.loads(line)
        if isinstance(out, dict) and "server_error" in out:
            raise RuntimeError(out["server_error"])
        if len(ops) == 1:
            self.cache[key] = out
        return out

    def ref(self, op):
        return self.run([op])[0]

    def close(self):
        try:
            self.p.stdin.close()
            self.p.wait()
        except Exception:
            pass


_SERVERS = []
_REF_CACHE = {}
import atexit


def fresh_servers(n=1):
    while len(_SERVERS) < n:
        _SERVERS.append(FreshServer())
    return _SERVERS[:n]


def close_servers():
    while _SERVERS:
        _SERVERS.pop().close()


atexit.register(close_servers)


# ---- generator of call sequences
KEY_ACC = ["", "", "", "", "", "#", "b", "-", "#", "b", "-", "##", "bb"]
ACC_PRE = ["", "", "", "", "b", "#", "b", "#", "b", "#", "bb", "##"]
FIGS = ["", "6", "64", "65", "43", "2", "7"]
PLAIN_PRIMS = ["I", "ii", "iii", "IV", "V", "vi", "viio", "V", "i", "iio", "III+", "iv", "VI", "N", "It", "Fr7", "Ger7", "v", "VII", "II"]


def gen_key(rng, minor=None, step=None):
    st = step or rng.choice(STEPS7)
    if minor is None:
        minor = rng.random() < 0.5
    return (st.lower() if minor else st) + rng.choice(KEY_ACC)


def gen_degree(rng, num=None, lower=None, acc=None):
    n = num or rng.randint(1, 7)
    t = NUMERALS[n - 1]
    if lower is None:
        lower = rng.random() < 0.4
    return (rng.choice(ACC_PRE) if acc is None else acc) + (t.lower() if lower else t)


def gen_roots_op(rng, focus):
    """focus = (numeral 1..7 or None, minor?, key or None): the calls of one sequence keep coming back to the same
    degree / mode / key with different accidentals, which is what state carried between calls needs."""
    num, minor, key = focus
    r = rng.random()
    k = key if key is not None and rng.random() < 0.6 else gen_key(rng, minor if rng.random() < 0.8 else None)
    if r < 0.40:
        if rng.random() < 0.06:
            loc = rng.choice(["viio", "N", "V7", "iio", "III+", "Ger7", "I7", "bb", "#"])
        else:
            loc = gen_degree(rng, num if rng.random() < 0.8 else None)
        return ["plk", loc, k, rng.random() < 0.3]
    if r < 0.58:      # RomanNumeral from text (the parser decides the attributes; the oracle reads them back)
        prim = rng.choice(PLAIN_PRIMS)
        sec = "" if rng.random() < 0.35 else "/" + gen_degree(rng, num if rng.random() < 0.7 else None)
        text = prim + rng.choice(FIGS) + sec
        if rng.random() < 0.25:
            return ["rn", k + ":" + text, {}]
        return ["rn", text, {"local_key": k}]
    if r < 0.80:      # RomanNumeral with explicit degrees (altered degrees reach the process_local_key fall-back)
        prim = gen_degree(rng, num if rng.random() < 0.6 else None) if rng.random() < 0.6 else rng.choice(PLAIN_PRIMS)
        sec = gen_degree(rng, num if rng.random() < 0.6 else None) if rng.random() < 0.7 else rng.choice(["I", "i", "V", "iv", "III", "VI"])
        fig = rng.choice(FIGS)
        kw = {"local_key": k, "primary_degree": prim, "secondary_degree": sec}
        if rng.random() < 0.5:
            kw["inversion"] = rng.choice([0, 1, 2, 3])
        return ["rn", prim + fig + "/" + sec, kw]
    if r < 0.90:
        n = num if num and rng.random() < 0.7 else rng.randint(1, 7)
        q = rng.choice([q for q in QUALS if spec_semitones(n, q) is not None])
        return ["tn", rng.choice(STEPS7 + ["c", "b"]), rng.choice([0, 0, 1, -1, 2, -2]), n, q]
    sym = rng.choice(SYMS)
    return ["ts", rng.choice(["maj", "min"]), sym, rng.choice(STEPS7), rng.choice([0, 0, 1, -1, 2, -2])]


def _vary_key(rng, k):
    """the same key with ONE thing changed: its accidentals, its mode (case), or its step"""
    f = key_facts(k)
    if f is None:
        return gen_key(rng)
    st, r = STEPS7[f[0]], rng.random()
    acc = k[1:] if len(k) > 1 and k[0].upper() in STEP_IDX else ""
    if r < 0.55:
        acc = rng.choice([a for a in ["", "#", "b", "-", "##", "bb"] if a != acc])
        return (st.lower() if f[2] else st) + acc
    if r < 0.8:
        return (st if f[2] else st.lower()) + acc
    return gen_key(rng, f[2], rng.choice([x for x in STEPS7 if x != st])).rstrip("#b-") + acc


def _vary_degree(rng, d):
    """the same degree with ONE thing changed: its accidentals or its case"""
    bare = d.lstrip("#b")
    pre = d[:len(d) - len(bare)]
    if not bare or rng.random() < 0.65:
        return rng.choice([a for a in ["", "b", "#", "bb", "##"] if a != pre]) + bare
    return pre + (bare.upper() if bare.islower() else bare.lower() if bare.isupper() else bare)


def vary_roots_op(rng, op):
    """A call that differs from an earlier call of the sequence in exactly ONE argument -- what a memo keyed on a part of
    the arguments, or a shared entry altered for one argument value, needs."""
    op = copy.deepcopy(op)
    if op[0] == "plk":
        r = rng.random()
        if r < 0.4:
            op[1] = _vary_degree(rng, op[1])
        elif r < 0.85:
            op[2] = _vary_key(rng, op[2])
        else:
            op[3] = not op[3]
    elif op[0] == "rn":
        kw = op[2]
        r = rng.random()
        if "local_key" in kw and r < 0.4:
            kw["local_key"] = _vary_key(rng, kw["local_key"])
        elif "primary_degree" in kw and r < 0.6:
            kw["primary_degree"] = _vary_degree(rng, kw["primary_degree"])
        elif "secondary_degree" in kw and r < 0.8:
            kw["secondary_degree"] = _vary_degree(rng, kw["secondary_degree"])
        elif "primary_degree" in kw:
            kw["inversion"] = rng.choice([i for i in (0, 1, 2, 3) if i != kw.get("inversion")])
        elif ":" in op[1]:
            k, t = op[1].split(":", 1)
            op[1] = _vary_key(rng, k) + ":" + t
        else:
            m = re.match(r"([^0-9/]*)([0-9]*)(.*)$", op[1])
            op[1] = m.group(1) + rng.choice([f for f in FIGS if f != m.group(2)]) + m.group(3)
    elif op[0] == "tn":
        r = rng.random()
        if r < 0.4:
            op[1] = rng.choice([x for x in STEPS7 if x != op[1].upper()])
        elif r < 0.7:
            op[2] = rng.choice([a for a in (-2, -1, 0, 1, 2) if a != op[2]])
        else:
            qs = [q for q in QUALS if spec_semitones(op[3], q) is not None and q != op[4]]
            op[4] = rng.choice(qs)
    else:
        r = rng.random()
        if r < 0.4:
            op[1] = "min" if op[1] == "maj" else "maj"
        elif r < 0.7:
            op[3] = rng.choice([x for x in STEPS7 if x != op[3]])
        else:
            op[4] = rng.choice([a for a in (-2, -1, 0, 1, 2) if a != op[4]])
    return op


def gen_roots_history(rng, nops):
    focus = (rng.randint(1, 7), rng.random() < 0.5, None) if rng.random() < 0.75 else (None, None, None)
    if focus[0] and rng.random() < 0.6:
        focus = (focus[0], focus[1], gen_key(rng, focus[1]))
    ops = []
    for _ in range(nops):
        if ops and rng.random() < 0.35:      # an earlier call of the sequence with exactly one argument changed
            ops.append(vary_roots_op(rng, rng.choice(ops)))
        else:
            ops.append(gen_roots_op(rng, focus))
    if rng.random() < 0.35 and ops:       # identical constructions / calls, not adjacent
        ops.append(copy.deepcopy(rng.choice(ops)))
    return ops


def op_txt(op):
    if op[0] == "plk":
        return "process_local_key(%r, %r%s)" % (op[1], op[2], ", return_step_alter=True" if op[3] else "")
    if op[0] == "rn":
        return "RomanNumeral(%r%s)" % (op[1], "".join(", %s=%r" % kv for kv in sorted(op[2].items())))
    if op[0] == "tn":
        return "transpose_note(%r, %r, Interval(%d, %r))" % (op[1], op[2], op[3], op[4])
    return "transpose_note(%r, %r, Roman2Interval_%s[%r])" % (op[3], op[4], "Min" if op[1] == "min" else "Maj", op[2])


def obs_txt(o):
    if isinstance(o, dict):
        if "exc" in o:
            return "raises " + o["exc"]
        return "root %r bass %r (find_root_note() %r, find_bass_note() %r; degrees %r)" % (
            o.get("root"), o.get("bass"), (o.get("root2") or [None, None])[1], (o.get("bass2") or [None, None])[1], o.get("attrs"))
    return "raises " + o[1] if o[0] == "exc" else ("-" if o[0] == "skip" else repr(o[1]))


def spec_check(op, o):
    """the observation against the diatonic arithmetic of the call's own arguments; list of messages"""
    msgs = []
    if op[0] == "plk":
        e = spec_plk(op[1], op[2], bool(op[3]))
        if e is not None and o != e:
            msgs.append("%s -> %s, the diatonic arithmetic gives %r" % (op_txt(op), obs_txt(o), e[1]))
    elif op[0] == "tn":
        st = op[1].upper()
        e = spec_move(STEP_IDX[st], op[2], op[3], spec_semitones(op[3], op[4])) if st in STEP_IDX else None
        if e is not None and o != ["ok", [STEPS7[e[0]], e[1]]]:
            msgs.append("%s -> %s, the diatonic arithmetic gives %r" % (op_txt(op), obs_txt(o), (STEPS7[e[0]], e[1])))
    elif op[0] == "ts" and o[0] != "skip":
        n, q = (CAT_MIN if op[1] == "min" else CAT_MAJ)[op[2]]
        e = spec_move(STEP_IDX[op[3]], op[4], n, spec_semitones(n, q))
        if o[2] != [n, q, "up"]:
            msgs.append("module-level entry Roman2Interval_%s[%r] now reads %r, it denotes %s%d up" % ("Min" if op[1] == "min" else "Maj", op[2], o[2], q, n))
        elif e is not None and o[:2] != ["ok", [STEPS7[e[0]], e[1]]]:
            msgs.append("%s -> %s, the diatonic arithmetic gives %r" % (op_txt(op), obs_txt(o), (STEPS7[e[0]], e[1])))
    elif op[0] == "rn" and isinstance(o, dict) and "attrs" in o:
        lk, prim, sec, inv, _q = o["attrs"]
        if "root2" in o:
            r2 = o["root2"]
            if o.get("root") is not None and r2 != ["ok", o["root"]]:
                msgs.append("%s: .root is %r but find_root_note() on the same object gives %s" % (op_txt(op), o["root"], obs_txt(r2)))
            e = spec_root(lk, prim, sec)
            if e is not None and r2 != ["ok", e]:
                msgs.append("%s (key %r, degree %r of %r): root %s, the diatonic arithmetic gives %r" % (op_txt(op), lk, prim, sec, obs_txt(r2), e))
            if r2[0] == "ok" and "bass2" in o:
                b2 = o["bass2"]
                if o.get("bass") is not None and b2 != ["ok", o["bass"]]:
                    msgs.append("%s: .bass_note is %r but find_bass_note() on the same object gives %s" % (op_txt(op), o["bass"], obs_txt(b2)))
                eb = spec_bass(r2[1], inv, prim)
                if eb is not None and b2 != ["ok", eb]:
                    msgs.append("%s (root %r, inversion %r): bass %s, the diatonic arithmetic gives %r" % (op_txt(op), r2[1], inv, obs_txt(b2), eb))
    return msgs


def judge_roots(srv, ops, order="forward"):
    """run the sequence in ONE fresh interpreter; every observation against its own arguments and against the same
    call alone in a fresh interpreter.  Returns (messages, observations)."""
    seq = ops if order == "forward" else ops[::-1]
    obs = srv.run(seq)
    msgs = []
    for i, (op, o) in enumerate(zip(seq, obs)):
        ref = srv.ref(op)
        if o != ref:
            msgs.append("call %d of the sequence, %s -> %s; the same call in a fresh interpreter -> %s (state carried over from the earlier calls %s)"
                        % (i + 1, op_txt(op), obs_txt(o), obs_txt(ref), "; ".join(op_txt(x) for x in seq[:i])[:400]))
        else:
            msgs.extend(spec_check(op, o))
    return msgs, obs


def shrink_roots(srv, ops, order):
    seq = ops if order == "forward" else ops[::-1]

    def fails(sub):
        try:
            return bool(judge_roots(srv, [list(o) for o in sub], "forward")[0])
        except Exception:
            return False
    try:
        if len(seq) < 2 or not fails(seq):
            return seq
        return [list(o) for o in core.ddmin(seq, fails)]
    except Exception:
        return seq


# ---- Coq terms
def cdeg(text):
    f = deg_facts(text)
    return "(mk_deg %s %s %s %s %s)" % (core.copt(f["sym"], zt), core.copt(f["num"], zt), zt(f["acc"]), cbool(f["lower"]), cbool(f["lower_all"]))


def ckey(k):
    return "(%s,%s,%s)" % (zt(k[0]), zt(k[1]), cbool(k[2]))


def cname_opt(s):
    k = parse_name(s) if isinstance(s, str) else None
    return "None" if k is None else "(Some %s)" % ckey(k)


def roots_term(ops, obs):
    """Coq term of one observed history, or None if some call is outside what the model describes."""
    items = []
    for op, o in zip(ops, obs):
        if op[0] == "plk":
            k = key_facts(op[2])
            if k is None or deg_facts(op[1])["weird"] or not -9 < k[1] < 9:
                return None
            if o[0] == "exc":
                r = "RErr"
            elif op[3]:
                if not (isinstance(o[1], list) and o[1][0] in STEP_IDX and isinstance(o[1][1], int)):
                    return None
                r = "(RPair %s %s)" % (zt(STEP_IDX[o[1][0]]), zt(o[1][1]))
            else:
                nm = key_facts(o[1]) if isinstance(o[1], str) else None
                if nm is None:
                    return None
                r = "(RName %s)" % ckey(nm)
            items.append("(OPlk %s %s %s, BRes %s)" % (cdeg(op[1]), ckey(k), cbool(op[3]), r))
        elif op[0] == "tn":
            st = op[1].upper()
            if st not in STEP_IDX:
                return None
            r = "None" if o[0] == "exc" else "(Some (%s,%s))" % (zt(STEP_IDX[o[1][0]]), zt(o[1][1]))
            items.append("(OTn %s %s %s %s, BTn %s)" % (zt(STEP_IDX[st]), zt(op[2]), zt(op[3]), zt(QUALS.index(op[4])), r))
        elif op[0] == "ts":
            if o[0] == "skip":
                continue
            r = "None" if o[0] == "exc" else "(Some (%s,%s))" % (zt(STEP_IDX[o[1][0]]), zt(o[1][1]))
            items.append("(OTs %s %s %s %s, BTn %s)" % (cbool(op[1] == "min"), zt(SYMS.index(op[2])), zt(STEP_IDX[op[3]]), zt(op[4]), r))
        else:
            if isinstance(o, dict) and "exc" in o:
                continue      # the constructor raised: no object whose degrees could be read (no call changes the tables)
            if not isinstance(o, dict) or "root2" not in o:
                return None
            lk, prim, sec, inv, _q = o["attrs"]
            k = key_facts(lk)
            if k is None or deg_facts(prim)["weird"] or deg_facts(sec)["weird"] or not -9 < k[1] < 9:
                return None
            root = o["root2"][1] if o["root2"][0] == "ok" else None
            bass = o["bass2"][1] if root is not None and o.get("bass2", ["exc"])[0] == "ok" else None
            if (root is not None and parse_name(root) is None) or (bass is not None and parse_name(bass) is None):
                return None
            items.append("(ORn %s %s %s %s, BRoot %s %s)" % (ckey(k), cdeg(prim), cdeg(sec), zt(inv), cname_opt(root), cname_opt(bass)))
    return clist(items)


def gen_roots():
    """T2 + reflection, from a FRESH interpreter: Gen/C16_Roots.v"""
    srv = fresh_servers(1)[0]
    fwd, rev = srv.run([["plk_table", "twice"]])[0]
    refl = srv.ref(["reflect"])
    dom = plk_domain()
    L = [HDR.replace("From Coq Require Import ZArith List.", "From Coq Require Import ZArith List Bool.\nFrom PV Require Import Model.C16_Roots.")]

    def cres(o, rsa):
        if o[0] != "ok":
            return "RErr"
        if rsa:
            return "(RPair %s %s)" % (zt(STEP_IDX.get(o[1][0], 99)), zt(o[1][1]))
        nm = key_facts(o[1]) or (99, 0, False)
        return "(RName %s)" % ckey(nm)
    L.append("Definition tab_plk : list plk_row := [\n%s].\n" % ";\n".join(
        "(%s,%s,%s,%s,%s,%s,%s,%s)" % (zt(n), cbool(lo), zt(acc), zt(ki), zt(ka), cbool(km), cbool(rsa), cres(o, rsa))
        for (n, lo, acc, ki, ka, km, rsa), o in zip(dom, fwd)))

    def ctab(rows):
        rows = sorted(rows, key=lambda r: (SYMS.index(r[0]) if r[0] in SYMS else 99, r[0]))
        return clist(["(%s,(%s,%s))" % (zt(SYMS.index(t) if t in SYMS else 99), zt(n), zt(QUALS.index(q) if q in QUALS and d == "up" else 99)) for t, n, q, d in rows])
    present = bool(refl.get("Roman2Interval_Maj")) and bool(refl.get("Roman2Interval_Min"))
    L.append("Definition refl_present : bool := %s.\n" % cbool(present))
    L.append("Definition refl_maj : list (Z * ival) := %s.\n" % (ctab(refl["Roman2Interval_Maj"]) if present else "r2i_maj"))
    L.append("Definition refl_min : list (Z * ival) := %s.\n" % (ctab(refl["Roman2Interval_Min"]) if present else "r2i_min"))
    lk = refl.get("lk")
    for m, nm in (("major", "refl_lkmaj"), ("minor", "refl_lkmin")):
        if lk:
            L.append("Definition %s : list (Z * ival) := %s.\n" % (nm, clist(
                ["(%s,(%s,%s))" % (zt(DEG_NUM.get(t, 99)), zt(n), zt(QUALS.index(q) if q in QUALS else 99))
                 for t, n, q in sorted(lk[m], key=lambda r: (DEG_NUM.get(r[0], 99), r[0]))])))
        else:
            L.append("Definition %s : list (Z * ival) := %s.\n" % (nm, "lk_maj" if m == "major" else "lk_min"))
    core.write_gen("C16_RootsTab", "".join(L))
    return {"fwd": fwd, "rev": rev, "dom": dom, "reflected": present, "lk_reflected": bool(lk)}


def run_roots_prepare(ctx):
    """generate the sequences (main thread, ctx.rng) -- executed later by run_roots_exec in a worker thread"""
    rng = ctx.rng
    quick = ctx.tier == "quick"
    hists = []
    try:
        import os
        with open(os.path.join(core.VERIF, "corpus", "C16", "roots.json")) as fh:
            for h in json.load(fh):
                hists.append(h["ops"])
        ctx.count("roots:corpus_sequences", len(hists))
    except (OSError, ValueError, KeyError) as e:
        ctx.extra["roots_corpus"] = "not read: %r" % (e,)
    for _ in range(220 if quick else 2400):
        hists.append(gen_roots_history(rng, rng.randint(3, 7) if quick else rng.randint(3, 12)))
    return hists


def run_roots_exec(hists, nserv):
    """worker: run every sequence forwards and reversed; returns per sequence (msgs_f, obs_f, msgs_r, obs_r) or an error"""
    servers = fresh_servers(nserv)
    out = [None] * len(hists)

    def work(j):
        srv = servers[j % len(servers)]
        for i in range(j, len(hists), len(servers)):
            try:
                mf, of = judge_roots(srv, hists[i], "forward")
                mr, orv = judge_roots(srv, hists[i], "reversed")
                out[i] = (mf, of, mr, orv)
            except Exception as e:
                out[i] = ("error", "%s: %s" % (type(e).__name__, e))
    with ThreadPoolExecutor(max_workers=len(servers)) as ex:
        list(ex.map(work, range(len(servers))))
    return out


def run_roots_report(ctx, hists, results, table):
    srv = fresh_servers(1)[0]
    # T2 rows of process_local_key against the Python specification, and both sweeps equal
    nbad, ref_bad = 0, None
    for key, o, o2 in zip(table["dom"], table["fwd"], table["rev"]):
        loc, glob = plk_texts(*key[:6])
        op = ["plk", loc, glob, key[6]]
        ctx.evaluations += 2
        msgs = spec_check(op, o)
        if o != o2:
            msgs.append("%s -> %s in the first sweep over the domain, %s in the reversed sweep in the same interpreter" % (op_txt(op), obs_txt(o), obs_txt(o2)))
        if key[2] != 0 or key[4] != 0:
            ctx.nontrivial(("plk", key))
        if msgs:
            nbad += 1
            if ref_bad is None or (o[0] == "ok" and ref_bad[1][0] != "ok"):
                ref_bad = (op, o, o2, msgs)
    ctx.count("rows:process_local_key", len(table["dom"]))
    ctx.count("rows:process_local_key_failing", nbad)
    terms, kept, failed = [], [], []
    for ops, res in zip(hists, results):
        ctx.count("roots:sequences")
        if res[0] == "error":
            failed.append((ops, "forward", ["the sequence could not be executed in a fresh interpreter: " + res[1]]))
            continue
        mf, of, mr, orv = res
        ctx.evaluations += 2 * len(ops)
        for op, o in zip(ops, of):
            ctx.count("roots:op_" + op[0])
            if op[0] == "rn" and isinstance(o, dict):
                ctx.count("roots:rn_" + ("raises" if "exc" in o else "root" if o.get("root2", ["x"])[0] == "ok" else "no_root"))
                if o.get("attrs") and isinstance(o["attrs"][2], str) and deg_facts(o["attrs"][2])["sym"] is None:
                    ctx.count("roots:rn_secondary_via_process_local_key")
                if o.get("attrs") and isinstance(o["attrs"][1], str) and deg_facts(o["attrs"][1])["sym"] is None:
                    ctx.count("roots:rn_primary_via_process_local_key")
            elif op[0] == "plk":
                ctx.count("roots:plk_" + ("raises" if o[0] == "exc" else "altered" if deg_facts(op[1])["acc"] else "plain"))
        if mf:
            failed.append((ops, "forward", mf))
        elif mr:
            failed.append((ops, "reversed", mr))
        else:
            ctx.nontrivial(("roots", json.dumps(ops, sort_keys=True)))
            for seq, obs in ((ops, of), (ops[::-1], orv)):
                t = roots_term(seq, obs)
                if t is None:
                    ctx.count("roots:sequences_outside_the_model")
                else:
                    terms.append(t)
                    kept.append((seq, obs))
            if len(ctx.samples) < 6 and len(kept) in (2, 40):
                ctx.sample({"roots_sequence": [[op_txt(op), obs_txt(o)] for op, o in zip(ops, of)]})
    ctx.count("roots:sequences_failing", len(failed))
    failed.sort(key=lambda x: (0 if "fresh interpreter ->" in x[2][0] else 1, len(x[0])))
    for ops, order, msgs in failed[:3]:
        small = shrink_roots(srv, ops, order)
        try:
            m2 = judge_roots(srv, small, "forward")[0] or msgs
        except Exception:
            m2 = msgs
        ctx.violation("chord-root / local-key arithmetic, calls in one interpreter (%s order): %s" % (order, "; ".join(m2)[:900]),
                      {"kind": "roots", "ops": small, "order": "forward", "failures": m2})
    if ref_bad is not None:     # after the sequences: a row of the sweep is reproduced by the whole sweep only
        op, o, o2, msgs = ref_bad
        alone = srv.ref(op)
        ctx.violation("local-key arithmetic, sweep over the whole domain in one interpreter (%d of %d rows fail): %s; alone in a fresh interpreter -> %s"
                      % (nbad, len(table["dom"]), "; ".join(msgs)[:600], obs_txt(alone)),
                      {"kind": "roots_table", "op": op, "failures": msgs})
    if terms:
        try:
            failing = ctx.coq_failing("roots", "From PV Require Import Model.C16 Model.C16_Roots.", "", terms, "roots_hist_ok",
                                      shard=max(60, (len(terms) + core.NJOBS - 1) // core.NJOBS), ty="roots_case")
            detail = [[[op_txt(op), obs_txt(o)] for op, o in zip(*kept[i])] for i in failing[:3]]
        except RuntimeError as e:
            failing, detail = [-1], str(e)[-1500:]
        ctx.obligation("correspondence: the Gallina machine of Model/C16_Roots.v (process_local_key, find_root_note, find_bass_note, "
                       "transpose_note over the module-level tables) replays %d observed call sequences (forwards and reversed)" % len(terms),
                       not failing, detail)
        for i in failing[:3]:
            if i < 0:
                ctx.violation("roots correspondence could not be evaluated in Coq: " + str(detail)[-600:], {"kind": "coq", "error": detail}, no_input=True)
            elif not any((isinstance(o, dict) and ("exc" in o or o.get("root2", ["ok"])[0] != "ok" or o.get("bass2", ["ok"])[0] != "ok"))
                         or (isinstance(o, list) and o[0] == "exc") for o in kept[i][1]):
                ctx.violation("Coq machine of the chord-root arithmetic and the implementation disagree (the Python oracle accepted the sequence)",
                              {"kind": "roots", "ops": kept[i][0], "order": "forward"})
    else:
        ctx.obligation("correspondence: roots machine", False, "no sequence reached Coq")


# ----------------------------------------------------------------------------
# IDENTITY stream (round j): "returns a NEW score or part ... and the argument itself is not modified", at the level of
# OBJECTS.  Every object of the argument (the Part objects and everything starting at a time point of a part) gets an
# address by id(): part by part, inside a part in the order of flatten()'s key; heap before = their cells (48-bit
# fingerprint of everything but the pitch, pitch or None).  After the real transpose() the objects met in the result that
# are not objects of the argument are numbered on in first-met order.  Direct oracle: no address of the result is an
# address of the argument, the argument's cells hold what they held, the result's cells = the argument's moved by the
# diatonic arithmetic, same part sizes.  Correspondence: Model/C16_Heap.v hp_transpose (deepcopy with memo = allocation at
# the end of the heap, then assignment to the copy's cells) returns exactly the observed heap and result (hp_case_ok).
# Modes: "fresh" argument; "again" = the same argument transposed a second time, by another interval (the second call
# is observed); "result" = the argument is itself the result of a transposition.

def heap_objs(obj):
    """Score or Part -> per part: [(part index, object, is_part)], the Part object first, then its objects by flatten's key."""
    out = []
    for pi, p in enumerate(_parts_of(obj)):
        objs = []
        for o in _objects(p):
            objs.append((_heap_cell(pi, o, False)[0], o))
        objs.sort(key=lambda r: (r[0][1], r[0][2], r[0][3]))
        out.append([(pi, p, True)] + [(pi, o, False) for _, o in objs])
    return out


def _heap_cell(pi, o, is_part):
    """(key, fingerprint, raw pitch) of one object, exactly as flatten() computes them."""
    import partitura.score as S
    if is_part:
        pv = {k: v for k, v in vars(o).items() if k not in ("_points",)}
        pfp = "Part{" + ",".join("%s=%s" % (k, _canon(v)) for k, v in sorted(pv.items())) + "}" + \
              "points=" + _canon([tp.t for tp in o._points])
        return (pi, -1, "", ""), pfp, None
    d = dict(vars(o))
    d.pop("_ref_attrs", None)
    pitch = None
    if isinstance(o, S.Note):
        pitch = (d.pop("step", None), d.pop("alter", None), d.pop("octave", None))
    fp = type(o).__name__ + "{" + ",".join("%s=%s" % (k, _canon(v)) for k, v in sorted(d.items())) + "}"
    key = (pi, o.start.t if o.start is not None else -1, type(o).__name__, str(getattr(o, "id", None)) + "|" + fp)
    return key, fp, pitch


def _cell_val(pi, o, is_part):
    key, fp, pitch = _heap_cell(pi, o, is_part)
    return (h48(key, fp), canon_pitch(pitch), key)


def run_identity_history(spec, calls):
    """One live argument, a sequence of calls [target, n, q, d] (target "arg" = the original argument again, "result" = the
    result of the call before).  Objects are numbered by id() over the WHOLE history (the argument's first, then what each
    result brings); per call: heap before, addresses of the call's argument, heap after, addresses of the result."""
    import partitura.score as S
    from partitura.utils.music import transpose

    arg = build(spec)
    keep = [arg]
    addr, order = {}, []

    def number(obj):
        rows = []
        for part in heap_objs(obj):
            row = []
            for (pi, o, isp) in part:
                if id(o) not in addr:
                    addr[id(o)] = len(order)
                    order.append((pi, o, isp))
                row.append(addr[id(o)])
            rows.append(row)
        return rows

    arg_addrs = number(arg)
    heap0 = [_cell_val(*x) for x in order]
    cur, cur_addrs, hb, obs = arg, arg_addrs, heap0, []
    for (target, n, q, d) in calls:
        tgt, tgt_addrs = (cur, cur_addrs) if target == "result" else (arg, arg_addrs)
        res = transpose(tgt, S.Interval(n, q, d))
        keep.append(res)
        ok_type = isinstance(res, (S.Score, S.Part))
        res_addrs = number(res) if ok_type else []
        ha = [_cell_val(*x) for x in order]
        obs.append({"target": target, "iv": (n, q, d), "heap0": hb, "arg": tgt_addrs, "heap2": ha, "res": res_addrs,
                    "same_object": res is tgt, "same_type": type(res) is type(tgt)})
        if not ok_type:
            break
        cur, cur_addrs, hb = res, res_addrs, ha
    return {"heap0": heap0, "arg": arg_addrs, "obs": obs}


def identity_history_oracle(hr):
    """(index of the first failing call, messages) or (None, [])."""
    for i, o in enumerate(hr["obs"]):
        msgs = identity_oracle(o, o["iv"])
        if msgs:
            return i, msgs
    return None, []


def identity_oracle(r, iv):
    n, q, d = iv
    up, sem = d == "up", spec_semitones(n, q)
    k0 = len(r["heap0"])
    msgs = []
    if r["same_object"]:
        msgs.append("transpose returned the argument itself, not a new object")
    if not r["same_type"]:
        msgs.append("result is not of the argument's type")
    shared = sorted({a for row in r["res"] for a in row if a < k0})
    if shared:
        msgs.append("the result is not new: %d of its objects ARE objects that existed before the call (the argument's or an earlier result's; first: %r)"
                    % (len(shared), r["heap0"][shared[0]][2][1:]))
    changed = [i for i in range(k0) if r["heap2"][i][:2] != r["heap0"][i][:2]]
    if changed:
        i = changed[0]
        msgs.append("objects that existed before the call (the argument's / an earlier result's) were modified: %d changed (first: %r, pitch %r -> %r)"
                    % (len(changed), r["heap0"][i][2][1:], r["heap0"][i][1], r["heap2"][i][1]))
    if [len(x) for x in r["res"]] != [len(x) for x in r["arg"]]:
        msgs.append("the result has parts of sizes %r, the argument %r" % ([len(x) for x in r["res"]], [len(x) for x in r["arg"]]))
    elif not shared:
        for ra, rr in zip(r["arg"], r["res"]):
            for a, b in zip(ra, rr):
                (f0, p0, key), (f1, p1, _) = r["heap0"][a], r["heap2"][b]
                exp = None if p0 is None else spec_transpose(*p0, n, sem, up)
                if f0 != f1 or p1 != exp:
                    msgs.append("object %r of the result: %s, pitch %r -> %r, expected %r"
                                % (key[1:], "same fingerprint" if f0 == f1 else "everything but the pitch differs from the argument's object", p0, p1, exp))
                    return msgs
    return msgs


def _ccells(cells):
    return clist(["(%s,%s)" % (zt(f), "None" if p is None else "(Some %s)" % cpitch(p)) for f, p, _ in cells])


def _caddrs(rows):
    return "[" + "; ".join("[" + "; ".join(str(a) for a in row) + "]" for row in rows) + "]%nat"


def identity_term(hr):
    obs = ["(%s,%s,%s,%s,%s,%s)" % (cbool(o["target"] == "result"), zt(o["iv"][0]), zt(QUALS.index(o["iv"][1])), cbool(o["iv"][2] == "up"),
                                    _ccells(o["heap2"][len(o["heap0"]):]), _caddrs(o["res"])) for o in hr["obs"]]
    return "(%s,%s,%s)" % (_ccells(hr["heap0"]), _caddrs(hr["arg"]), clist(obs))


def call_txt(c):
    return "transpose(%s, %s%d %s)" % ("the original argument" if c[0] == "arg" else "the latest result", c[2], c[1], c[3])


def shrink_identity(spec, calls):
    def failing_at(sp, cs):
        try:
            return identity_history_oracle(run_identity_history(sp, cs))[0]
        except Exception:
            return len(cs) - 1
    try:
        i = failing_at(spec, calls)
        if i is None:
            return spec, calls
        calls = calls[:i + 1]
        items = [(pi, ei) for pi, p in enumerate(spec["parts"]) for ei in range(len(p["events"]))]

        def mk(sub):
            s2 = copy.deepcopy(spec)
            keep = set(sub)
            for pi, p in enumerate(s2["parts"]):
                p["events"] = [e for ei, e in enumerate(p["events"]) if (pi, ei) in keep]
            return s2
        return mk(core.ddmin(items, lambda sub: failing_at(mk(sub), calls) is not None)), calls
    except Exception:
        return spec, calls


def gen_identity_calls(rng, all_ivs, unis):
    r = rng.random()
    ncalls = 1 if r < 0.5 else 2 if r < 0.8 else 3
    calls = []
    for k in range(ncalls):
        r = rng.random()
        if r < 0.15:
            iv = (1, "P", rng.choice(["up", "down"]))
        elif r < 0.25:
            iv = rng.choice(unis)
        elif r < 0.50 and calls:
            iv = tuple(rng.choice(calls)[1:])
        else:
            iv = rng.choice(all_ivs)
        calls.append(["arg" if k == 0 or rng.random() < 0.5 else "result"] + list(iv))
    return calls


def run_identity(ctx):
    rng = ctx.rng
    ncases = 150 if ctx.tier == "quick" else 1500
    all_ivs = [(n, QUALS[qi], d) for n, qi in classes_model_order() for d in ("up", "down")]
    unis = [iv for iv in all_ivs if iv[0] == 1]
    jobs = [(dict(FIXED_SPEC, arg=a), cs) for a in ("part", "score")
            for cs in ([["arg", 1, "P", "up"]], [["arg", 1, "P", "down"], ["arg", 1, "P", "down"]], [["arg", 2, "A", "down"], ["result", 2, "A", "up"]],
                       [["arg", 7, "m", "up"], ["arg", 3, "M", "up"], ["result", 1, "P", "up"]])]
    for _ in range(ncases):
        jobs.append((gen_case_spec(rng, rng.choice([2, 4, 6])), gen_identity_calls(rng, all_ivs, unis)))
    terms, kept, nviol = [], [], 0
    for spec, calls in jobs:
        ctx.evaluations += 1
        try:
            hr = run_identity_history(spec, calls)
            bad, msgs = identity_history_oracle(hr)
        except Exception as e:
            hr, bad, msgs = None, len(calls) - 1, ["transpose raised %s: %s" % (type(e).__name__, e)]
        feats = case_features(spec)
        ctx.count("identity arg:" + spec["arg"])
        ctx.count("identity calls per history:%d" % len(calls))
        for k, c in enumerate(calls):
            ctx.count("identity call on:" + ("fresh argument" if k == 0 else "the original argument again" if c[0] == "arg" else "the latest result"))
            ctx.count("identity interval:" + ("P1" if tuple(c[1:3]) == (1, "P") else "other unison" if c[1] == 1 else c[3]))
            if any(tuple(c[1:]) == tuple(c2[1:]) for c2 in calls[:k]):
                ctx.count("identity interval:repeats an earlier one of the history")
        if len(spec["parts"]) > 1:
            ctx.count("identity has:several parts")
        for f in sorted(feats & {"tie", "grace", "chord", "rest", "unp"}):
            ctx.count("identity has:" + f)
        if hr is not None:
            k0 = len(hr["heap0"])
            ctx.count("identity objects:" + ("<=10" if k0 <= 10 else "11-30" if k0 <= 30 else ">30"))
            ctx.count("identity pitched objects", sum(1 for c in hr["heap0"] if c[1] is not None))
        if msgs:
            nviol += 1
            if nviol <= 4:
                small, scalls = shrink_identity(spec, calls)
                try:
                    m2 = identity_history_oracle(run_identity_history(small, scalls))[1] or msgs
                except Exception as e:
                    m2 = ["transpose raised %s: %s" % (type(e).__name__, e)]
                ctx.violation("object identity: %s on a %s: %s" % ("; ".join(call_txt(c) for c in scalls), spec["arg"], "; ".join(m2)[:600]),
                              {"kind": "identity", "spec": small, "calls": scalls, "failures": m2})
            continue
        if any(c[1] is not None for c in hr["heap0"]):
            ctx.nontrivial(("identity", json.dumps(spec, sort_keys=True), json.dumps(calls)))
        terms.append(identity_term(hr))
        kept.append({"kind": "identity", "spec": spec, "calls": calls})
    ctx.log('identity: %d histories (%d calls) observed, %d failing, %d to Coq' % (len(jobs), sum(len(c) for _, c in jobs), nviol, len(terms)))
    if not terms:
        ctx.obligation("correspondence: heap model hp_transpose = transpose() at the level of objects", False, "every history already failed the direct oracle")
        return
    try:
        failing = ctx.coq_failing("identity", "From PV Require Import Model.C16 Model.C16_Heap.", "", terms, "hp_hist_ok", shard=30)
        detail = failing[:5]
    except RuntimeError as e:
        failing, detail = [-1], str(e)[-1500:]
    ctx.obligation("correspondence: the heap machine of Model/C16_Heap.v (deepcopy with its memo = new cells at the end of the heap, then "
                   "assignment to the cells of the copy; calls on the original argument again or on the latest result) returns after every "
                   "call exactly the observed heap and the observed result (objects numbered by id() over the whole history), on %d "
                   "observed histories" % len(terms), not failing, detail)
    for i in failing[:4]:
        if i < 0:
            ctx.violation("identity correspondence could not be evaluated in Coq: " + str(detail)[-600:], {"kind": "coq", "error": detail}, no_input=True)
        else:
            ctx.violation("Coq heap machine and transpose() disagree on the objects of result / argument (the Python oracle accepted the history)", kept[i])


def replay_identity(r):
    hr = run_identity_history(r["spec"], r["calls"])
    bad, msgs = identity_history_oracle(hr)
    print("oracle now says:", ("call %d: %s" % (bad + 1, "; ".join(msgs))) if msgs else "property holds on this input")
    print("argument: addresses %r" % (hr["arg"],))
    for k, o in enumerate(hr["obs"]):
        print("call %d: %s -> result addresses %r" % (k + 1, call_txt([o["target"]] + list(o["iv"])), o["res"]))
        for i in range(len(o["heap0"])):
            if o["heap0"][i][1] != o["heap2"][i][1]:
                print("    object %d %r existed before the call: pitch %r -> %r" % (i, o["heap0"][i][2][1:3], o["heap0"][i][1], o["heap2"][i][1]))
        for ra, rr in zip(o["arg"], o["res"]):
            for a_, b_ in list(zip(ra, rr))[:40]:
                if o["heap0"][a_][1] is not None:
                    print("    object %d (pitch %r) -> result object %d: pitch %r" % (a_, o["heap0"][a_][1], b_, o["heap2"][b_][1]))
    return 0


def run(ctx):
    ctx.rule = ("T2: _transpose_note_inplace executed on all 7 steps x 5 alterations x 9 octaves x 39 classes x 2 directions "
                "(24570 rows) and transpose_note on 7 x 5 x 39 x 2 (2730 rows), graphs re-proved in the kernel; driver cases = "
                "generated Score/Part arguments (ties, chords, grace notes, rests, unpitched notes, 1-3 parts, part groups) x "
                "sampled interval classes weighted towards 'down' and unison classes, plus one fixed part under all 78 "
                "interval/direction pairs as Part and as Score.  Non-trivial = table rows with alter<>0 or a step that "
                "crosses the octave boundary; driver cases containing a tie chain or grace note with an interval other than P1.  "
                "HISTORY stream (state carried on the Interval argument between calls; shared with C12): ONE real score.Interval "
                "per history (all 39 classes x 2 directions twice + 60 + 60 compound inits), 5-9 generated operations + closing "
                "sweep: transpose(part of 1-3 notes incl. tie chains and grace notes, iv) 18%, transpose_note 14%, .semitones 16%, "
                "change_quality 22%, quality:= 8%, number:= 8%, direction:= 6%, validate 5%, str 3%; after EVERY step the result "
                "(step, alter, octave of every note; the argument part untouched) is judged by the diatonic specification at the "
                "table size of the object's CURRENT fields and against a freshly constructed Interval of those fields.  "
                "ROOTS stream (chord roots / local keys; state carried at module level between calls): process_local_key tabulated "
                "on 7 degrees x case x accidentals -2..2 x 7 key steps x key alterations -2..2 x mode x return_step_alter (9800 rows, "
                "swept forwards and then reversed in ONE fresh interpreter); 220 (thorough 2400) generated sequences of 3-8 calls (35% of the calls = an earlier call of the sequence with exactly ONE argument changed) -- "
                "process_local_key 40%, RomanNumeral from text 18%, RomanNumeral with explicit (altered) degrees 22%, transpose_note "
                "with a fresh Interval 10%, transpose_note with a module-level Roman2Interval entry 10%; 75% of the sequences keep "
                "returning to one degree number / mode / key with different accidentals, 35% repeat a call -- each executed forwards "
                "and reversed in a child forked from a fresh interpreter; every observation against the diatonic arithmetic of its "
                "own arguments and against the same call alone in a fresh interpreter.  Non-trivial = sequences passing both orders; "
                "table rows with an accidental on the degree or the key.  "
                "SCORE-HISTORY stream (the ARGUMENT has a history): 260 (thorough 2600) generated histories + corpus/C16/score_histories.json "
                "on ONE live Score (75%, 1-3 parts, 40% with a group) or Part (25%): optional first transposition, 2-6 operations -- "
                "score[i] = part 24%, score.parts.append / pop 6%, unfold_part_maximal/minimal 10%, a part edited in place (note added / "
                "removed / re-pitched) 18%, score = transpose(score, iv) 12%, transpose(score, iv) with the argument kept 30% -- and a closing "
                "transposition; 45% of the intervals repeat one the history used before, half of the parts put in later carry the id of an "
                "initial part; every transposition judged note by note against the parts the argument holds at that moment through "
                "result.parts, result[i], iter(result), result.note_array(); argument unchanged; no shared objects.  Non-trivial = "
                "histories with a state change and a transposition that pass.  "
                "IDENTITY stream (objects: the result is new, the argument is not modified): 150 (thorough 1500) generated + 8 fixed "
                "histories of 1-3 calls (50/30/20%) on ONE live Score/Part, later calls on the original argument again or on the latest "
                "result (50/50), intervals P1 15%, another unison class 10%, an interval used before in the history 25%, else any; objects "
                "numbered by id() over the whole history; after every call: no object of the result existed before the call, no object "
                "that existed before the call changed, every object of the result = the argument's moved by the diatonic arithmetic.  "
                "Non-trivial = passing histories whose argument holds a pitched note.")
    ctx.trusted = ["Coq 8.16.1 kernel incl. vm_compute",
                   "T2 tabulator and flattening/fingerprint code in harness/props/c16.py (runs the real functions, prints Coq literals; "
                   "step letters are interned C=0..B=6, alter None is read as 0)",
                   "Python-side diatonic oracle used to name the failing input", "determinism of the tabulated pure functions",
                   "fingerprints of non-pitch attributes are compared as 48-bit SHA-1 prefixes inside Coq (full strings in Python)",
                   "history stream: the operation runner / field reader of harness/props/c12.py (run_iv_history) and the printing of "
                   "observed histories as Coq terms",
                   "score-history stream: the operation runner run_score_history / judge_transposition of harness/props/c16.py and the "
                   "printing of the observed histories as Coq terms (a part = its flattened elements, as in the driver stream)",
                   "identity stream: the numbering of objects by id() (all results kept alive), heap_objs / _heap_cell of "
                   "harness/props/c16.py (a cell = 48-bit fingerprint of everything but the pitch + pitch; references between objects "
                   "are part of the fingerprint as type/id/start time, not as addresses)",
                   "roots stream: the fresh-interpreter server (fork per request) and the reading of degree texts / key names into the "
                   "facts the model takes (deg_facts, key_facts, parse_name in harness/props/c16.py); string handling of "
                   "process_local_key / RomanNumeral is compared by the direct oracle only"]
    ctx.assumptions = ["interval numbers 1..7 (the 39 classes of INTERVALCLASSES); compound intervals are outside the property",
                       "alter None and alter 0 denote the same spelling"]
    T = gen()
    nrows = sum(len(g[3]) for g in T["groups"]) + len(T["tn"]) + len(T["ivs"]) + len(T["none_rows"]) + len(T["step2pc"])
    ctx.evaluations += nrows
    ctx.count("rows:transpose_note_inplace", sum(len(g[3]) for g in T["groups"]))
    ctx.count("rows:transpose_note", len(T["tn"]))
    ctx.count("rows:intervals", len(T["ivs"]))
    for n, qi, up, rows in T["groups"]:
        for (i, a, o), out in rows:
            if a != 0 or out[2] != o:
                ctx.nontrivial(("row", n, qi, up, i, a, o))
    g0 = T["groups"][3] if len(T["groups"]) > 3 else None
    if g0:
        ctx.sample({"table_row": {"interval": [g0[0], QUALS[g0[1]], "up" if g0[2] else "down"], "in": g0[3][40][0], "out": g0[3][40][1]}})
    bad = oracle_tables(T)
    ctx.log('tables written, %d rows, %d oracle failures' % (nrows, len(bad)))
    # roots stream: the call sequences are generated here (ctx.rng) and executed in fresh interpreters by a worker
    # thread while Coq checks the theorems
    import threading
    roots_hists = run_roots_prepare(ctx)
    roots_box = {}

    def _roots_worker():
        try:
            roots_box["results"] = run_roots_exec(roots_hists, 3)
            roots_box["done_at"] = round(time.time() - ctx.t0, 1)
        except BaseException as e:   # noqa
            roots_box["error"] = "%s: %s" % (type(e).__name__, e)
    roots_thread = threading.Thread(target=_roots_worker, daemon=True)
    roots_thread.start()
    pre = prebuild_gen(ctx)
    ctx.log('table shards built')
    # T1 tie (harness/t1.py): see c12.py
    t1_ok = t1.tie(ctx, "C16")
    ctx.log('T1 tie: %s' % t1_ok)
    ok, why = ctx.coq_props(expect_min=48)
    ctx.log('Props/C16.v checked: %s %s' % (ok, why[:300]))
    for what, rep in bad[:8]:
        ctx.violation(what, rep)
    props_broken = (not ok and not bad and t1_ok)   # reported at the end, and only when no concrete failing input was found
    ctx.extra["exhaustive"] = True
    ctx.extra["exhaustive_note"] = "the arithmetic domain named by the property is enumerated completely; scores/parts are sampled"
    run_driver(ctx)
    # object identity: the result is made of new objects, the argument's objects hold what they held (Model/C16_Heap.v)
    run_identity(ctx)
    # histories on ONE real Interval object: transpose() / transpose_note / .semitones interleaved with change_quality and
    # assignments of number / quality / direction; every step judged from the object's current fields (shared with C12:
    # harness/props/c12.py run_histories, Model/C12_Interval.v)
    from props import c12 as hist12
    hist12.run_histories(ctx, with_tr=True, objects=False)
    # the ARGUMENT has a history: score[i] = part, unfolding, edits in place, the result transposed again
    run_score_histories(ctx)
    # chord roots / local keys: sequences of calls in one interpreter, forwards and reversed
    roots_thread.join()
    ctx.log('roots: %d sequences executed in fresh interpreters (worker finished at %ss)' % (len(roots_hists), roots_box.get('done_at')))
    try:
        if "results" in roots_box:
            run_roots_report(ctx, roots_hists, roots_box["results"], T["roots"])
        else:
            ctx.violation("the roots stream could not be executed: " + roots_box.get("error", "?"), {"kind": "roots_error"}, no_input=True)
        ctx.extra["roots_tables_reflected"] = {"Roman2Interval": T["roots"]["reflected"], "LOCAL_KEY_TRASPOSITIONS_DCML": T["roots"]["lk_reflected"]}
    finally:
        close_servers()
    if props_broken and not ctx.violations:
        ctx.violation("proof obligations of Props/C16.v no longer check: " + why[:1500], {"theorem_or_build": why, "prebuild": pre}, no_input=True)


def replay_roots(r):
    srv = fresh_servers(1)[0]
    ops = r["ops"]
    obs = srv.run(ops)
    print("one interpreter, in this order:")
    for i, (op, o) in enumerate(zip(ops, obs)):
        ref = srv.ref(op)
        print("  %d. %s -> %s%s" % (i + 1, op_txt(op), obs_txt(o), "" if o == ref else "      [alone in a fresh interpreter: %s]" % obs_txt(ref)))
    print("oracle now says:", judge_roots(srv, ops)[0] or "every call returned the diatonic arithmetic of its own arguments, as in a fresh interpreter")
    close_servers()
    return 0


def replay(obj):
    import partitura.score as S
    import partitura.utils.music as M

    r = obj.get("replay", obj)
    print(json.dumps(obj, indent=1, default=str)[:4000])
    k = r.get("kind")
    if k == "t1":
        return t1.replay(r)
    if k == "history":
        from props import c12 as hist12
        return hist12.replay_history(r)
    if k == "roots":
        return replay_roots(r)
    if k == "score_history":
        return replay_score_history(r)
    if k == "identity":
        return replay_identity(r)
    if k == "roots_table":
        srv = fresh_servers(1)[0]
        fwd, rev = srv.run([["plk_table", "twice"]])[0]
        dom = plk_domain()
        for key, o, o2 in zip(dom, fwd, rev):
            op = ["plk"] + list(plk_texts(*key[:6])) + [key[6]]
            if op == r["op"]:
                print("%s: in the sweep -> %s, in the reversed sweep -> %s, alone in a fresh interpreter -> %s; diatonic arithmetic: %r"
                      % (op_txt(op), obs_txt(o), obs_txt(o2), obs_txt(srv.ref(op)), spec_plk(op[1], op[2], op[3])))
        close_servers()
        return 0
    if k == "note":
        note = S.Note(r["step"], r["octave"], r["alter"])
        M._transpose_note_inplace(note, S.Interval(r["number"], r["quality"], r["direction"]))
        print("implementation now gives:", (note.step, note.alter, note.octave), "=", enc_pitch(note.step, note.alter, note.octave),
              " expected:", r["expected"])
    elif k == "tn":
        try:
            print("implementation now gives:", M.transpose_note(r["step"], r["alter"], S.Interval(r["number"], r["quality"], r["direction"])),
                  " expected:", r["expected"])
        except AssertionError as e:
            print("implementation now rejects (AssertionError):", e, " expected:", r["expected"])
    elif k == "driver":
        iv = tuple(r["interval"])
        res = run_driver_case(r["spec"], iv)
        print("oracle now says:", driver_oracle(res, iv) or "property holds on this input")
        for (key, f, p0), (_, _, p1), (_, _, p2) in zip(res["before"], res["result"], res["after"]):
            if p0 is not None:
                print("  %-28s arg before %r  result %r  arg after %r" % (key[3].split("|")[0], p0, p1, p2))
    return 0
