"""C20 -- exports, views and analyses never modify their argument and are repeatable;
Score / Performance support len, indexing and (re-entrant) iteration consistently.

Proof side (coq/Props/C20.v): the container protocol as a state machine over histories
(Model/C20.v: `fresh` = what score.py/performance.py implement, `shared` = the old design,
refuted) and the effect discipline (read-only operations compose to the identity on the
store, results are functions of the initial store).

Second round (coq/Model/C20_Mut.v, C20_Alias.v, C20_Array.v): the container as a mutable object built from
Part / PartGroup trees (item assignment, construction), shallow copy + reference replacement (unfolding a
Part) on a heap with aliasing, array views that copy (slice_notearray_by_time).

Tie to the source (this module):
 * container protocol: generated interleavings of several live iterators / len / indexing
   over real Score and Performance objects, observed results evaluated against the Coq model
   (`ctx.coq_failing`, checker `C20.hist_ok`) and against a direct Python oracle;
 * footprints: a deep canonical fingerprint of the argument before / after every read-only
   entry point (once, twice, seeded random orders); observed traces are also passed to the
   Coq trace checker `C20.trace_ok` (every store digest equals the initial one, equal
   CALLS = (entry point, argument kind) give equal result digests), whose soundness /
   completeness w.r.t. the effect model is proved; the footprint observed per (entry point,
   argument kind) goes through `C20.table_empty`; transpose on every argument kind is
   compared with the copy-then-modify heap model (`C20.cow_ok`);
 * negative side: the documented in-place operations do change the fingerprint (this is
   also the sensitivity self-test of the fingerprint).
"""
import hashlib
import io
import json
import os
import sys
import traceback
import types
from collections import defaultdict
from fractions import Fraction

import numpy as np

import core
from core import cz, cnat, cstr, clist, ctuple, copt, cbool

# ---------------------------------------------------------------------------------------
# 1. Deep canonical fingerprint
#
# fingerprint(x, identity) -> dict path -> canonical JSON-able value.  `identity=True` adds
# the Python identity of every timed object / time point / performed note / part, which is
# what "same objects" means; results of two calls are compared with identity=False.
#
# Ignored on purpose (and only this): EMPTY per-class slots of TimePoint.starting_objects /
# ending_objects.  They are created by every read (`defaultdict.__getitem__` inside
# TimePoint.iter_starting / iter_ending, i.e. by every Part.iter_all / Part.notes ...), the
# accessors iter_starting/iter_ending/iter_all/iter_prev/iter_next enumerate classes through
# the class hierarchy (not through the dict keys), Part.pretty sorts the classes by name and
# drops empty ones, Part.remove/_cleanup_point sum the lengths.  So an empty slot cannot be
# observed through the public API; the relative order of the NON-empty classes and the order
# of the objects inside each class are kept in the fingerprint.


def _is_timed(o):
    import partitura.score as S

    return isinstance(o, S.TimedObject)


class _FP:
    def __init__(self, identity):
        self.identity = identity
        self.out = {}
        self.num = {}  # id(obj) -> label of numbered objects (timed objects, parts, pnotes)
        self.keep = []  # keep referenced objects alive (ids stay unique)

    def ident(self, o):
        return id(o) if self.identity else 0

    # -- generic canonical value
    def canon(self, v, depth=0, seen=()):
        import partitura.score as S
        import partitura.performance as P

        if v is None or isinstance(v, (bool, str)):
            return v
        if isinstance(v, (int,)):
            return ["i", int(v)]
        if isinstance(v, float):
            return ["f", repr(v)]
        if isinstance(v, (np.integer,)):
            return ["ni", str(v.dtype), int(v)]
        if isinstance(v, (np.floating,)):
            return ["nf", str(v.dtype), repr(float(v))]
        if isinstance(v, np.bool_):
            return ["nb", bool(v)]
        if isinstance(v, Fraction):
            return ["q", v.numerator, v.denominator]
        if isinstance(v, bytes):
            return ["b", hashlib.sha1(v).hexdigest()]
        if id(v) in self.num:
            return ["ref", self.num[id(v)]]
        if isinstance(v, S.TimePoint):
            return ["tp", v.t, self.ident(v)]
        if isinstance(v, np.ndarray):
            if v.dtype == object:
                return ["ndo", list(v.shape), [self.canon(x, depth + 1, seen) for x in v.ravel().tolist()]]
            return ["nd", str(v.dtype), list(v.shape), hashlib.sha1(np.ascontiguousarray(v).tobytes()).hexdigest()]
        if id(v) in seen or depth > 12:
            return ["cycle", type(v).__name__]
        seen = seen + (id(v),)
        if isinstance(v, (list, tuple)):
            return ["l" if isinstance(v, list) else "t", [self.canon(x, depth + 1, seen) for x in v]]
        if isinstance(v, (set, frozenset)):
            return ["s", sorted((self.canon(x, depth + 1, seen) for x in v), key=lambda z: json.dumps(z, sort_keys=True, default=str))]
        if isinstance(v, dict):
            items = [(self.canon(k, depth + 1, seen), self.canon(x, depth + 1, seen)) for k, x in v.items()]
            items.sort(key=lambda kv: json.dumps(kv[0], sort_keys=True, default=str))
            return ["d", type(v).__name__, [[k, x] for k, x in items]]
        if isinstance(v, (types.FunctionType, types.MethodType, types.BuiltinFunctionType, type)):
            return ["fn", getattr(v, "__qualname__", str(v))]
        if isinstance(v, S.TimedObject):
            # a timed object that is not registered in the fingerprinted part(s)
            return ["ext", type(v).__name__, self.ident(v), v.start.t if v.start is not None else None,
                    v.end.t if v.end is not None else None,
                    self.canon({k: x for k, x in vars(v).items() if k not in ("start", "end")}, depth + 1, seen)]
        d = getattr(v, "__dict__", None)
        if d is not None:
            return ["o", type(v).__name__, self.canon(dict(d), depth + 1, seen)]
        slots = getattr(type(v), "__slots__", None)
        if slots:
            return ["o", type(v).__name__, self.canon({s: getattr(v, s, None) for s in slots}, depth + 1, seen)]
        return ["r", type(v).__name__, repr(v)]

    # -- score side
    def number_part(self, part, pfx):
        self.num[id(part)] = pfx
        n = 0
        for tp in part._points:
            for table in (tp.starting_objects, tp.ending_objects):
                for cls, objs in table.items():
                    for o in objs:
                        if id(o) not in self.num:
                            self.num[id(o)] = "%s/o%d:%s" % (pfx, n, type(o).__name__)
                            n += 1

    def part(self, part, pfx):
        out = self.out
        out[pfx + "/class"] = [type(part).__name__, self.ident(part)]
        for k, v in vars(part).items():
            if k == "_points":
                continue
            if k == "parent":
                out["%s/attr/parent" % pfx] = None if v is None else [type(v).__name__, self.ident(v), getattr(v, "group_name", None),
                                                                        len(getattr(v, "children", []))]
                continue
            out["%s/attr/%s" % (pfx, k)] = self.canon(v)
        pts = list(part._points)
        out[pfx + "/npoints"] = len(pts)
        # the timeline itself, in one entry (so that a report names it): every time point with its time, quarter duration,
        # identity and the identities of its neighbours; the per-point entries below repeat this with everything else
        out[pfx + "/timeline"] = [[self.canon(tp.t), self.canon(getattr(tp, "quarter", None)), self.ident(tp),
                                   None if tp.prev is None else self.ident(tp.prev), None if tp.next is None else self.ident(tp.next)] for tp in pts]
        out[pfx + "/timeline/container"] = [type(part._points).__name__, str(getattr(part._points, "dtype", ""))]
        done = set()
        for j, tp in enumerate(pts):
            rec = {"t": self.canon(tp.t), "id": self.ident(tp),
                   "prev_is_pred": (tp.prev is (pts[j - 1] if j > 0 else None)),
                   "next_is_succ": (tp.next is (pts[j + 1] if j + 1 < len(pts) else None)),
                   "prev": self.canon(tp.prev), "next": self.canon(tp.next)}
            for k, v in vars(tp).items():
                if k in ("t", "prev", "next"):
                    continue
                if k in ("starting_objects", "ending_objects"):
                    rec[k] = [[cls.__name__, [self.num[id(o)] for o in objs]] for cls, objs in v.items() if len(objs) > 0]
                    rec[k + "_type"] = [type(v).__name__, sorted({type(objs).__name__ for objs in v.values() if len(objs) > 0})]
                else:
                    rec[k] = self.canon(v)
            for k in sorted(rec):
                out["%s/tp%d/%s" % (pfx, j, k)] = rec[k]
            for table in (tp.starting_objects, tp.ending_objects):
                for cls, objs in table.items():
                    for o in objs:
                        if id(o) in done:
                            continue
                        done.add(id(o))
                        lab = self.num[id(o)]
                        out[lab + "/id()"] = self.ident(o)
                        for k, v in vars(o).items():
                            out["%s/%s" % (lab, k)] = self.canon(v)

    def group(self, g, parts_index):
        import partitura.score as S

        if isinstance(g, S.Part):
            return ["part", self.num.get(id(g), "?")]
        if isinstance(g, S.PartGroup):
            d = {k: self.canon(v) for k, v in vars(g).items() if k not in ("children", "parent")}
            return ["group", self.ident(g), d, [self.group(c, parts_index) for c in g.children],
                    None if g.parent is None else ["parent", self.ident(g.parent), type(g.parent).__name__]]
        return self.canon(g)

    def scorelike(self, x, pfx="S"):
        import partitura.score as S
        import partitura.performance as P

        if isinstance(x, S.Part):
            self.number_part(x, pfx + "/P0")
            self.part(x, pfx + "/P0")
            self.out[pfx + "/parent"] = self.group(x.parent, None) if x.parent is not None else None
        elif isinstance(x, S.Score):
            for i, p in enumerate(x.parts):
                self.number_part(p, "%s/P%d" % (pfx, i))
            self.out[pfx + "/class"] = ["Score", self.ident(x)]
            for k, v in vars(x).items():
                if k == "parts":
                    self.out[pfx + "/attr/parts"] = [self.num[id(p)] for p in v]
                elif k == "part_structure":
                    self.out[pfx + "/attr/part_structure"] = [self.group(g, None) for g in v]
                else:
                    self.out["%s/attr/%s" % (pfx, k)] = self.canon(v)
            for i, p in enumerate(x.parts):
                self.part(p, "%s/P%d" % (pfx, i))
        elif isinstance(x, S.PartGroup):
            parts = list(S.iter_parts(x))
            for i, p in enumerate(parts):
                self.number_part(p, "%s/P%d" % (pfx, i))
            self.out[pfx + "/group"] = self.group(x, None)
            for i, p in enumerate(parts):
                self.part(p, "%s/P%d" % (pfx, i))
        elif isinstance(x, P.PerformedPart):
            self.ppart(x, pfx + "/PP0")
        elif isinstance(x, P.Performance):
            self.out[pfx + "/class"] = ["Performance", self.ident(x)]
            for k, v in vars(x).items():
                if k == "performedparts":
                    self.out[pfx + "/attr/performedparts"] = len(v)
                else:
                    self.out["%s/attr/%s" % (pfx, k)] = self.canon(v)
            for i, pp in enumerate(x.performedparts):
                self.ppart(pp, "%s/PP%d" % (pfx, i))
        elif isinstance(x, (list, tuple)) and x and all(isinstance(e, (S.Part, S.PartGroup, S.Score, P.PerformedPart, P.Performance)) for e in x):
            self.out[pfx + "/len"] = len(x)
            for i, e in enumerate(x):
                self.scorelike(e, "%s[%d]" % (pfx, i))
        elif isinstance(x, list):
            # e.g. an alignment: list of dicts
            self.out[pfx + "/len"] = len(x)
            for i, e in enumerate(x):
                self.out["%s[%d]" % (pfx, i)] = [self.ident(e) if isinstance(e, dict) else 0, self.canon(e)]
        else:
            self.out[pfx] = self.canon(x)

    def ppart(self, pp, pfx):
        out = self.out
        out[pfx + "/class"] = [type(pp).__name__, self.ident(pp)]
        for k, v in vars(pp).items():
            if k in ("notes", "controls", "programs") and isinstance(v, list):
                out["%s/attr/%s/len" % (pfx, k)] = len(v)
                for i, e in enumerate(v):
                    if hasattr(e, "pnote_dict"):
                        out["%s/%s[%d]" % (pfx, k, i)] = [type(e).__name__, self.ident(e), self.canon(vars(e))]
                    else:
                        out["%s/%s[%d]" % (pfx, k, i)] = [type(e).__name__, self.ident(e), self.canon(e)]
            else:
                out["%s/attr/%s" % (pfx, k)] = self.canon(v)


def fingerprint(args, identity=True):
    """args: tuple/list of the (mutable) arguments of one call -> flat dict path -> value."""
    fp = _FP(identity)
    for i, a in enumerate(args):
        fp.scorelike(a, "A%d" % i)
    return fp.out


def fp_digest(fpd):
    return hashlib.sha1(json.dumps(fpd, sort_keys=True, default=str).encode()).hexdigest()


def fp_diff(a, b, limit=8):
    """paths written (changed / added / removed) between two fingerprints."""
    ks = sorted(set(a) | set(b))
    diff = [k for k in ks if a.get(k, "<absent>") != b.get(k, "<absent>")]
    return diff


def describe_diff(a, b, limit=6):
    d = fp_diff(a, b)
    out = []
    for k in d:
        if k.endswith("/timeline"):
            # the timeline in readable form first: times (quarter durations), which points are new / gone / relinked
            A, B = a.get(k) or [], b.get(k) or []
            if isinstance(A, list) and isinstance(B, list):
                show = lambda X: ", ".join("%s(q=%s)" % (x[0][1] if isinstance(x[0], list) else x[0], x[1][1] if isinstance(x[1], list) else x[1]) for x in X[:24])
                ida, idb = {x[2]: x for x in A}, {x[2]: x for x in B}
                added = [x[0][1] for x in B if x[2] not in ida]
                gone = [x[0][1] for x in A if x[2] not in idb]
                relinked = [x[0][1] for x in B if x[2] in ida and (ida[x[2]][3], ida[x[2]][4]) != (x[3], x[4])]
                requart = [x[0][1] for x in B if x[2] in ida and ida[x[2]][1] != x[1]]
                out.append("%s: time points of the part [%s] -> [%s]; time point objects added at t=%s, removed at t=%s, prev/next rewired at t=%s, quarter changed at t=%s"
                           % (k, show(A), show(B), added, gone, relinked, requart))
    shown = {x.split(":")[0] for x in out}
    for k in [k for k in d if k not in shown][:limit]:
        out.append("%s: %s -> %s" % (k, json.dumps(a.get(k, "<absent>"), default=str)[:160], json.dumps(b.get(k, "<absent>"), default=str)[:160]))
    return d, out


def field_of(path):
    """strip object numbers: 'A0/S/P0/o12:Note/symbolic_duration' -> 'Note.symbolic_duration'."""
    import re

    m = re.search(r"/o\d+:(\w+)/(.+)$", path)
    if m:
        return "%s.%s" % (m.group(1), m.group(2))
    m = re.search(r"/P\d+/(npoints|timeline|timeline/container)$", path)
    if m:
        return "Part._points (%s)" % {"npoints": "number of time points", "timeline": "the time points, their quarter and prev/next", "timeline/container": "container type"}[m.group(1)]
    m = re.search(r"/tp\d+/(.+)$", path)
    if m:
        return "TimePoint.%s" % m.group(1)
    m = re.search(r"/(P|PP)\d+/attr/(.+)$", path)
    if m:
        return "%s.%s" % ("Part" if m.group(1) == "P" else "PerformedPart", m.group(2))
    m = re.search(r"/PP\d+/(\w+)\[\d+\]$", path)
    if m:
        return "PerformedPart.%s[]" % m.group(1)
    m = re.search(r"/attr/(.+)$", path)
    if m:
        return "container.%s" % m.group(1)
    m = re.search(r"^A(\d+)\[\d+\]$", path)
    if m:
        return "arg%s[]" % m.group(1)
    return re.sub(r"\d+", "#", path)


# ---------------------------------------------------------------------------------------
# 2. Canonical form of results (for "calling again gives an identical result")


def canon_result(r):
    """Result of an entry point -> JSON-able canonical value (identity-free)."""
    import partitura.score as S
    import partitura.performance as P

    if isinstance(r, (S.Part, S.Score, S.PartGroup, P.PerformedPart, P.Performance)):
        return ["obj", fp_digest(fingerprint([r], identity=False))]
    if isinstance(r, np.ndarray):
        if r.dtype == object:
            return ["ndo", [canon_result(x) for x in r.ravel().tolist()]]
        return ["nd", str(r.dtype), list(r.shape), hashlib.sha1(np.ascontiguousarray(r).tobytes()).hexdigest()]
    if hasattr(r, "tocsc") and hasattr(r, "nnz"):
        c = r.tocsc()
        c.sort_indices()
        return ["sp", list(c.shape), canon_result(np.asarray(c.data)), canon_result(np.asarray(c.indices)), canon_result(np.asarray(c.indptr))]
    if isinstance(r, (list, tuple)):
        return ["l", [canon_result(x) for x in r]]
    if isinstance(r, dict):
        return ["d", sorted(([str(k), canon_result(v)] for k, v in r.items()), key=lambda kv: kv[0])]
    if isinstance(r, bytes):
        return ["b", len(r), hashlib.sha1(r).hexdigest()]
    if isinstance(r, (S.TimedObject,)):
        return ["timed", type(r).__name__, r.start.t if r.start is not None else None, r.end.t if r.end is not None else None,
                _FP(False).canon({k: v for k, v in vars(r).items() if k not in ("start", "end")})]
    if isinstance(r, S.Path):
        return ["path", str(r)]
    if type(r).__name__ == "MatchFile":
        return ["match", [str(l.matchline) if hasattr(l, "matchline") else str(l) for l in r.lines]]
    return _FP(False).canon(r)


# ---------------------------------------------------------------------------------------
# 3. Generators (everything is a JSON-able spec; build_* turn a spec into live objects)

STEPS = ["C", "D", "E", "F", "G", "A", "B"]
SYM = {Fraction(4): "whole", Fraction(2): "half", Fraction(1): "quarter", Fraction(1, 2): "eighth",
       Fraction(1, 4): "16th", Fraction(3): ("half", 1), Fraction(3, 2): ("quarter", 1), Fraction(3, 4): ("eighth", 1)}


def gen_part_spec(rng, pid="P0", rich=True, n_meas=None, timeline=None):
    q = rng.choice([1, 2, 4, 4, 12, 12, 480])
    beats = rng.choice([4, 4, 3, 2])
    n_meas = n_meas or rng.randint(2, 6)
    mlen = beats * q
    total = n_meas * mlen
    grid = q // 2 if q % 2 == 0 else q
    if q % 12 == 0 and rng.random() < 0.4:
        grid = q // 3
    spec = {"id": pid, "q": q, "beats": beats, "n_meas": n_meas, "name": rng.choice([None, "Piano", "Vl"]),
            "notes": [], "rests": [], "ties": [], "slurs": [], "tuplets": [], "repeats": [], "endings": [], "nav": [],
            "keysig": None, "clefs": [], "dirs": [], "measures": rng.random() < 0.85, "pickup": False,
            "ids": rng.choice(["all", "all", "none", "some"]), "staves": rng.choice([1, 1, 2]),
            # segments already registered with add_segments (then the path search works on the part's own Segment objects)
            "segments": rng.random() < 0.3}
    nvoices = rng.choice([1, 1, 2, 3])
    sym_mode = rng.choice(["all", "none", "some", "some"])
    nid = 0
    for v in range(1, nvoices + 1):
        t = 0
        if v > 1:
            t = rng.choice([0, grid, mlen]) if rng.random() < 0.5 else 0
        while t < total:
            d = rng.choice([1, 1, 2, 2, 3, 4]) * grid
            if rng.random() < 0.12:
                d = rng.choice([mlen, mlen + grid, 2 * mlen])  # crosses barlines
            d = min(d, total - t)
            if d <= 0:
                break
            kind = "note" if rng.random() < 0.85 else "rest"
            staff = 1 if spec["staves"] == 1 else rng.choice([1, 2])
            qd = Fraction(d, q)
            sd = None
            if sym_mode == "all" or (sym_mode == "some" and rng.random() < 0.5):
                s = SYM.get(qd)
                if s is not None:
                    sd = {"type": s} if isinstance(s, str) else {"type": s[0], "dots": s[1]}
            has_id = spec["ids"] == "all" or (spec["ids"] == "some" and rng.random() < 0.5)
            if kind == "note":
                chord = 1 if rng.random() < 0.8 else rng.choice([2, 3])
                base = rng.randint(0, 6)
                for c in range(chord):
                    spec["notes"].append({"t": t, "d": d, "step": STEPS[(base + 2 * c) % 7], "alter": rng.choice([None, None, 0, 1, -1]),
                                          "oct": rng.randint(2, 6), "voice": rng.choice([v, v, None]) if rng.random() < 0.1 else v,
                                          "staff": staff if rng.random() < 0.9 else None, "sym": sd,
                                          "id": ("n%d" % nid) if has_id else None,
                                          "grace": False})
                    nid += 1
                if rng.random() < 0.06:
                    spec["notes"].append({"t": t, "d": 0, "step": rng.choice(STEPS), "alter": None, "oct": 5, "voice": v, "staff": staff,
                                          "sym": {"type": "eighth"}, "id": ("n%d" % nid) if has_id else None, "grace": True})
                    nid += 1
            else:
                spec["rests"].append({"t": t, "d": d, "voice": v, "staff": staff, "sym": sd, "id": ("r%d" % nid) if has_id else None})
                nid += 1
            t += d
    if rich:
        # a measure in which nothing starts (the MusicXML exporter has to write something for it without adding a rest to the part)
        if n_meas >= 2 and rng.random() < 0.2:
            k = rng.randrange(n_meas)
            lo, hi = k * mlen, (k + 1) * mlen
            spec["notes"] = [n for n in spec["notes"] if not (lo <= n["t"] < hi)]
            spec["rests"] = [r for r in spec["rests"] if not (lo <= r["t"] < hi)]
            spec["empty_measure"] = k
        # polyphony INSIDE a voice: a longer note on an existing onset and a note that runs into the next onset of its voice
        # (the exporter moves such notes to a free voice in its own lists; it must not write note.voice)
        plain = [n for n in spec["notes"] if not n["grace"] and n["voice"] is not None and n["d"] > 0]
        if plain and rng.random() < 0.25:
            for _ in range(rng.choice([1, 2])):
                a = rng.choice(plain)
                d = min(total - a["t"], a["d"] + rng.choice([grid, 2 * grid, mlen]))
                if d > a["d"]:
                    spec["notes"].append({"t": a["t"] + rng.choice([0, 0, grid if a["d"] > grid else 0]), "d": d, "step": rng.choice(STEPS), "alter": None,
                                          "oct": rng.randint(2, 6), "voice": a["voice"], "staff": a["staff"], "sym": None,
                                          "id": ("n%d" % nid) if spec["ids"] != "none" else None, "grace": False})
                    nid += 1
                    spec["voice_polyphony"] = True
        # a pickup measure: the first barline comes early (quarter_map(0) < 0: the anacrusis branches of the MIDI exporter)
        if spec["measures"] and rng.random() < 0.2:
            spec["pickup"] = rng.choice([grid, q]) if q < mlen else grid
        if rng.random() < 0.15:
            spec["musical_beat"] = True
            if rng.random() < 0.6:
                # user-supplied beats per signature (use_musical_beat({"6/8": 3})): state that lives on the TimeSignature objects
                # (musical_beats) and that use_notated_beat() resets -- an entry point that toggles the beat mode and back loses it
                spec["mb_table"] = {"6/8": rng.choice([3, 6, 1]), "%d/4" % spec["beats"]: rng.choice([1, 2, 2 * spec["beats"]])}
        if timeline or (timeline is None and rng.random() < 0.3):
            gen_timeline_features(rng, spec, strong=bool(timeline))
    nn = len(spec["notes"])
    real = [i for i, n in enumerate(spec["notes"]) if not n["grace"]]
    if rich and len(real) >= 2:
        # ties between consecutive same-voice notes (pitch copied)
        for _ in range(rng.choice([0, 0, 1, 2])):
            i = rng.choice(real)
            a = spec["notes"][i]
            cands = [j for j in real if spec["notes"][j]["t"] == a["t"] + a["d"] and spec["notes"][j]["voice"] == a["voice"]]
            if cands:
                j = cands[0]
                for k in ("step", "alter", "oct"):
                    spec["notes"][j][k] = a[k]
                if all(i != x and j != y for x, y in spec["ties"]):
                    spec["ties"].append([i, j])
        for _ in range(rng.choice([0, 1, 1, 2])):
            i, j = sorted(rng.sample(real, 2))
            spec["slurs"].append([i, j])
        for _ in range(rng.choice([0, 0, 1])):
            i, j = sorted(rng.sample(real, 2))
            spec["tuplets"].append([i, j, 3, 2])
        # link clusters: several slurs / tuplets that stop (or start) at the SAME note, created in an order that
        # differs from the order of their MusicXML numbers (numbers are handed out as the ranges open), so that an
        # exporter that sorts / renumbers the note's own link lists in place is seen
        if len(real) >= 3 and rng.random() < 0.4:
            byt = sorted(real, key=lambda i: (spec["notes"][i]["t"], i))
            k = rng.choice([2, 2, 3])
            if len(byt) >= k + 1:
                common = rng.randrange(k, len(byt)) if rng.random() < 0.6 else rng.randrange(0, len(byt) - k)
                stop_side = common >= k and (rng.random() < 0.7 or common > len(byt) - k - 1)
                if stop_side:
                    others = sorted(rng.sample(range(0, common), k))
                    pairs = [[byt[o], byt[common]] for o in others]
                else:
                    others = sorted(rng.sample(range(common + 1, len(byt)), k))
                    pairs = [[byt[common], byt[o]] for o in others]
                order = rng.choice(["reversed", "reversed", "shuffled", "asis"])
                if order == "reversed":
                    pairs.reverse()
                elif order == "shuffled":
                    rng.shuffle(pairs)
                which = rng.choice(["slurs", "slurs", "tuplets", "both"])
                for a, b in pairs:
                    if which in ("slurs", "both"):
                        spec["slurs"].append([a, b])
                    if which in ("tuplets", "both"):
                        spec["tuplets"].append([a, b, 3, 2])
                spec["link_cluster"] = [which, "stop" if stop_side else "start", order, k]
    if rich:
        if rng.random() < 0.6:
            spec["keysig"] = [rng.randint(-5, 5), rng.choice(["major", "minor", None])]
        for s in range(1, spec["staves"] + 1):
            if rng.random() < 0.6:
                spec["clefs"].append([0, s, rng.choice([["G", 2], ["F", 4], ["C", 3]])])
        if rng.random() < 0.2:
            spec["clefs"].append([mlen, 1, ["F", 4]])
        for _ in range(rng.choice([0, 0, 1, 2])):
            spec["dirs"].append([rng.choice(["f", "p", "tempo", "cresc", "words", "fermata"]), rng.randrange(0, total, grid)])
        if n_meas >= 2 and rng.random() < 0.15:
            spec["ts2"] = [rng.randrange(1, n_meas) * mlen, rng.choice([[3, 4], [6, 8], [2, 4]])]
        # navigation: weights on the combinations singled out by the property (segments are created lazily)
        r = rng.random()
        bars = [k * mlen for k in range(n_meas + 1)]
        if r < 0.25 and n_meas >= 2:
            e = rng.choice(bars[1:])
            s = rng.choice([b for b in bars if b < e])
            spec["repeats"].append([s, e])
        elif r < 0.45 and n_meas >= 3:
            k = rng.randint(1, n_meas - 2)
            spec["repeats"].append([0, bars[k + 1]])
            spec["endings"].append([bars[k], bars[k + 1], "1"])
            spec["endings"].append([bars[k + 1], bars[k + 2], "2"])
        elif r < 0.65 and n_meas >= 3:
            spec["repeats"].append([0, bars[1]])
            spec["nav"].append(["fine", bars[2]])
            spec["nav"].append(["dacapo", bars[-1]])
        elif r < 0.75 and n_meas >= 4:
            spec["nav"].append(["segno", bars[1]])
            spec["nav"].append(["tocoda", bars[2]])
            spec["nav"].append(["dalsegno", bars[3]])
            spec["nav"].append(["coda", bars[3]])
        elif r < 0.8 and n_meas >= 4:
            spec["repeats"].append([0, bars[1]])
            spec["repeats"].append([bars[2], bars[3]])
        # a jump that awaits the second round (Fine / To Coda) on a part whose Segment objects are already registered: the path
        # search then works on the part's OWN segments (measured: the combination was met 0-3 times per quick run)
        if any(k in ("fine", "tocoda") for k, _ in spec["nav"]) and rng.random() < 0.6:
            spec["segments"] = True
    return spec


def _spec_times(spec):
    """times (relative to spec['offset']) at which the spec puts a time point for sure: starts / ends of notes and rests, barlines"""
    mlen = spec["beats"] * spec["q"]
    occ = set()
    for n in spec["notes"] + spec["rests"]:
        occ.add(n["t"])
        occ.add(n["t"] + n["d"])
    if spec.get("measures"):
        occ.update(k * mlen for k in range(spec["n_meas"] + 1))
        if spec.get("pickup"):
            occ.add(int(spec["pickup"]))
    occ.add(0)
    return occ


def gen_timeline_features(rng, spec, strong=False):
    """Shapes of the TIMELINE the read-only entry points branch on (exporters split measures at changes of divisions, look
    up time points, walk prev/next; maps interpolate over quarter times): changes of the quarter duration at times with and
    WITHOUT a time point (inside a measure, in a gap between notes, at a barline, before the first / after the last object,
    several in one measure, redundant / replaced ones), a first time point > 0, parts without notes / with one note / without
    anything, signatures and clefs where nothing else happens, objects without an end, zero-length objects, float-valued
    integral times.  Everything is written into the JSON spec (qchanges in ABSOLUTE time, all other times relative to
    spec['offset']); the distribution is measured on the BUILT parts (timeline_stats)."""
    q, mlen, n_meas = spec["q"], spec["beats"] * spec["q"], spec["n_meas"]
    total = n_meas * mlen
    p = (lambda x: rng.random() < (x * 2.2 if strong else x))
    # parts without notes / with a single note / with nothing at all
    r = rng.random()
    if r < (0.2 if strong else 0.08):
        how = rng.choice(["empty", "one", "one", "bare"])
        keep = [n for n in spec["notes"] if not n["grace"]][:1] if how == "one" else []
        spec["notes"], spec["rests"] = keep, ([] if how != "one" or rng.random() < 0.5 else spec["rests"][:1])
        spec["trim"] = how
        spec.pop("empty_measure", None)
        spec.pop("voice_polyphony", None)
        if how == "bare":
            spec["measures"] = False
            spec["pickup"] = False
    if p(0.3):
        spec["offset"] = rng.choice([1, 1, max(1, q // 2), q, mlen, mlen + 1, 7])
    off = spec.get("offset", 0)
    if p(0.12):
        spec["float_times"] = rng.choice(["all", "some", "some"])
    # changes of the quarter duration
    if p(0.4):
        occ = _spec_times(spec)
        bars = [k * mlen for k in range(1, n_meas)]
        on_mid = sorted(t for t in occ if 0 < t < total and t % mlen != 0)
        off_mid = [t for t in range(1, total) if t not in occ and t % mlen != 0]
        if len(off_mid) > 400:
            off_mid = rng.sample(off_mid, 400)
        qs = sorted({2 * q, 3 * q, max(1, q // 2), q + 1, 1, 4} - {q})
        changes = []
        for _ in range(rng.choice([1, 1, 2, 3])):
            where = rng.choice(["barline", "on_point", "off_point", "off_point", "gap", "gap", "before_first", "after_last", "same_measure", "at_zero"])
            q2 = rng.choice(qs)
            if where == "barline" and bars:
                changes.append([off + rng.choice(bars), q2])
            elif where == "on_point" and on_mid:
                changes.append([off + rng.choice(on_mid), q2])
            elif where == "off_point" and off_mid:
                changes.append([off + rng.choice(off_mid), q2])
            elif where == "gap" and total >= 4:
                # nothing starts or ends around t (all voices): the change falls between two notes
                t = rng.randrange(1, total - 1)
                w = rng.choice([1, max(1, q // 2), q])
                lo, hi = t - w, t + w
                for key in ("notes", "rests"):
                    spec[key] = [n for n in spec[key] if (n["t"] + n["d"] <= lo or n["t"] >= hi) and not (lo < n["t"] + n["d"] < hi) and not (lo < n["t"] < hi)
                                 and not (n["t"] <= lo and n["t"] + n["d"] >= hi)]
                if t % mlen != 0 or not spec.get("measures"):
                    changes.append([off + t, q2])
            elif where == "before_first":
                changes.append([rng.randrange(0, off) if off > 0 else 0, q2])
            elif where == "after_last":
                changes.append([off + total + rng.choice([0, 1, q, mlen]), q2])
            elif where == "at_zero":
                changes.append([0, q2])
            elif where == "same_measure":
                k = rng.randrange(n_meas)
                inside = [t for t in range(k * mlen + 1, (k + 1) * mlen)]
                for t in sorted(rng.sample(inside, min(len(inside), rng.choice([2, 2, 3])))):
                    changes.append([off + t, rng.choice(qs)])
        # redundant changes: the value already in force, or a change that is replaced by the old value at the same time
        if changes and rng.random() < 0.35:
            t, q2 = rng.choice(changes)
            changes.append([t, q] if rng.random() < 0.5 else [t + rng.choice([1, q]), q2])
        if changes:
            spec["qchanges"] = changes
            spec["qstage"] = rng.choice(["early", "mid", "late", "late"])
    # signatures / clefs at times where no note starts or ends (also after the last object)
    if p(0.25):
        occ = _spec_times(spec)
        free = [t for t in range(1, total + mlen) if t not in occ] or [total + 1]
        for _ in range(rng.choice([1, 1, 2, 3])):
            t = rng.choice(free)
            kind = rng.choice(["ts", "ks", "clef"])
            val = {"ts": rng.choice([[3, 4], [6, 8], [5, 8], [2, 2]]), "ks": [rng.randint(-6, 6), rng.choice(["major", "minor", None])],
                   "clef": [rng.choice([1, spec["staves"]]), rng.choice(["G", "F", "C"]), rng.choice([2, 3, 4])]}[kind]
            spec.setdefault("attrs_at", []).append([kind, t, val])
    # objects without an end (part.add(o, start)), zero-length objects
    if p(0.2):
        for _ in range(rng.choice([1, 1, 2])):
            cls = rng.choice(["Slur", "Cresc", "Ending", "Repeat", "Measure", "Words", "Tuplet", "Note", "Rest"])
            spec.setdefault("open", []).append([cls, rng.randrange(0, total + 1, max(1, q // 2))])
    if p(0.2):
        for _ in range(rng.choice([1, 1, 2])):
            cls = rng.choice(["Note", "Note", "Rest", "Measure", "Slur", "Repeat", "Cresc", "Ending"])
            spec.setdefault("zero", []).append([cls, rng.randrange(0, total + 1, max(1, q // 2))])
    spec["timeline"] = True



def directed_timeline_specs():
    """the checklist of positions of a change of divisions, on one small part: Part(quarter_duration=2), 4/4, two measures [0, 8) [8, 16),
    notes 0-3, 6-10, 10-12, 12-16 (time points 0, 3, 6, 8, 10, 12, 16; nothing sounds in [3, 6))"""
    def part(qchanges, stage="late", offset=0, **kw):
        notes = [{"t": t, "d": d, "step": st, "alter": None, "oct": 4, "voice": 1, "staff": 1, "sym": None, "id": "n%d" % k, "grace": False}
                 for k, (t, d, st) in enumerate([(0, 3, "C"), (6, 4, "D"), (10, 2, "E"), (12, 4, "F")])]
        ps = {"id": "P0", "q": 2, "beats": 4, "n_meas": 2, "name": None, "notes": notes, "rests": [], "ties": [], "slurs": [], "tuplets": [],
              "repeats": [], "endings": [], "nav": [], "keysig": None, "clefs": [], "dirs": [], "measures": True, "pickup": False, "ids": "all",
              "staves": 1, "segments": False, "qchanges": qchanges, "qstage": stage, "timeline": True}
        if offset:
            ps["offset"] = offset
        ps.update(kw)
        return ps

    return [part([[4, 4]]),                              # inside a measure, in a gap between notes, no time point
            part([[7, 4]]),                              # inside a measure, inside a sounding note, no time point
            part([[6, 4]]),                              # inside a measure, at a time point
            part([[8, 4]]),                              # at a barline
            part([[4, 4], [5, 1], [7, 3]]),              # three in one measure, none at a time point
            part([[4, 4], [4, 2], [5, 2]]),              # replaced by the old value (entry repeating the value in force) + a no-op
            part([[20, 4]]),                             # after the last time point
            part([[16, 4]]),                             # at the last time point
            part([[2, 4]], offset=4),                    # before the first time point (all objects shifted by 4)
            part([[0, 3], [9, 4]], offset=4),            # the initial value replaced; a change in the shifted gap
            part([[4, 4]], stage="early"),               # set before any object exists
            part([[4, 4], [13, 1]], stage="mid"),        # set before add_measures (barlines follow the new divisions)
            part([[4, 4]], measures=False),              # no Measure objects at all
            part([[4, 4]], float_times="all")]           # float-valued integral times


def build_part(spec):
    import partitura.score as S

    q = spec["q"]
    p = S.Part(spec["id"], part_name=spec.get("name"), quarter_duration=q)
    mlen = spec["beats"] * q
    total = spec["n_meas"] * mlen
    off = spec.get("offset", 0)  # the first time point of the part is > 0
    fl = spec.get("float_times")
    cnt = [0]

    def T(t):
        """time as given to part.add: shifted by the offset; float-valued (but integral) for all / every second call"""
        cnt[0] += 1
        t = int(t) + off
        return float(t) if fl == "all" or (fl == "some" and cnt[0] % 2 == 0) else t

    def qchanges():
        for t, q2 in spec.get("qchanges", []):
            p.set_quarter_duration(int(t), int(q2))

    if spec.get("trim") == "bare":
        # a part without any object (no time point at all), possibly with a divisions table
        qchanges()
        return p
    if spec.get("qstage") == "early":
        qchanges()
    p.add(S.TimeSignature(spec["beats"], 4), T(0))
    if spec.get("musical_beat") and not spec.get("ts2"):
        p.add(S.TimeSignature(6, 8), T((spec["n_meas"] // 2) * mlen))
    if spec.get("ts2"):
        p.add(S.TimeSignature(*spec["ts2"][1]), T(spec["ts2"][0]))
    if spec.get("keysig"):
        p.add(S.KeySignature(spec["keysig"][0], spec["keysig"][1]), T(0))
    for t, staff, (sign, line) in spec.get("clefs", []):
        p.add(S.Clef(staff=staff, sign=sign, line=line, octave_change=0), T(t))
    for kind, t, val in spec.get("attrs_at", []):
        if kind == "ts":
            p.add(S.TimeSignature(*val), T(t))
        elif kind == "ks":
            p.add(S.KeySignature(val[0], val[1]), T(t))
        else:
            p.add(S.Clef(staff=val[0], sign=val[1], line=val[2], octave_change=0), T(t))
    objs = []
    for n in spec["notes"]:
        if n["grace"]:
            o = S.GraceNote("acciaccatura", step=n["step"], octave=n["oct"], alter=n["alter"], id=n["id"], voice=n["voice"], staff=n["staff"],
                            symbolic_duration=dict(n["sym"]) if n["sym"] else None)
            p.add(o, T(n["t"]), T(n["t"]))
        else:
            o = S.Note(step=n["step"], octave=n["oct"], alter=n["alter"], id=n["id"], voice=n["voice"], staff=n["staff"],
                       symbolic_duration=dict(n["sym"]) if n["sym"] else None)
            p.add(o, T(n["t"]), T(n["t"] + n["d"]))
        objs.append(o)
    for r in spec["rests"]:
        p.add(S.Rest(id=r["id"], voice=r["voice"], staff=r["staff"], symbolic_duration=dict(r["sym"]) if r["sym"] else None), T(r["t"]), T(r["t"] + r["d"]))
    for i, j in spec["ties"]:
        objs[i].tie_next = objs[j]
        objs[j].tie_prev = objs[i]
    for i, j in spec["slurs"]:
        sl = S.Slur(objs[i], objs[j])
        p.add(sl, objs[i].start.t, objs[j].end.t)
    for i, j, an, nn in spec["tuplets"]:
        tu = S.Tuplet(objs[i], objs[j], actual_notes=an, normal_notes=nn)
        p.add(tu, objs[i].start.t, objs[j].end.t)
    for kind, t in spec.get("dirs", []):
        if kind in ("f", "p"):
            p.add(S.ConstantLoudnessDirection(kind), T(t))
        elif kind == "tempo":
            p.add(S.Tempo(96, "q"), T(t))
        elif kind == "cresc":
            p.add(S.IncreasingLoudnessDirection("cresc."), T(t), T(min(total, t + mlen)))
        elif kind == "words":
            p.add(S.Words("dolce"), T(t))
        elif kind == "fermata":
            p.add(S.Fermata(None), T(t))
    for s, e in spec["repeats"]:
        p.add(S.Repeat(), T(s), T(e))
    for s, e, num in spec["endings"]:
        p.add(S.Ending(num), T(s), T(e))
    for kind, t in spec["nav"]:
        cls = {"fine": S.Fine, "dacapo": S.DaCapo, "segno": S.Segno, "dalsegno": S.DalSegno, "coda": S.Coda, "tocoda": S.ToCoda}[kind]
        p.add(cls(), T(t))

    def mk(cls, k):
        return {"Slur": lambda: S.Slur(), "Cresc": lambda: S.IncreasingLoudnessDirection("cresc."), "Ending": lambda: S.Ending("1"),
                "Repeat": lambda: S.Repeat(), "Measure": lambda: S.Measure(number=90 + k), "Words": lambda: S.Words("x"),
                "Tuplet": lambda: S.Tuplet(actual_notes=3, normal_notes=2),
                "Note": lambda: S.Note(step="C", octave=4, id="x%d" % k if spec.get("ids") != "none" else None, voice=1, staff=1),
                "Rest": lambda: S.Rest(id="y%d" % k if spec.get("ids") != "none" else None, voice=1, staff=1)}[cls]()

    # objects without an end: part.add(o, start)
    for k, (cls, t) in enumerate(spec.get("open", [])):
        if cls != "Measure":
            p.add(mk(cls, k), T(t))
    # zero-length objects (start == end)
    for k, (cls, t) in enumerate(spec.get("zero", [])):
        if cls != "Measure":
            p.add(mk(cls, 10 + k), T(t), T(t))
    if spec.get("qstage") == "mid":
        qchanges()
    if spec.get("measures", True):
        if spec.get("pickup"):
            p.add(S.Measure(number=0), T(0), T(int(spec["pickup"])))
        S.add_measures(p)
    # a measure without end / of length 0 (what load_kern leaves after a final barline) -- after add_measures, which refuses them
    for k, (cls, t) in enumerate(spec.get("open", [])):
        if cls == "Measure":
            p.add(mk(cls, k), T(t))
    for k, (cls, t) in enumerate(spec.get("zero", [])):
        if cls == "Measure":
            p.add(mk(cls, 10 + k), T(t), T(t))
    if spec.get("segments"):
        S.add_segments(p)
    if spec.get("musical_beat"):
        p.use_musical_beat(dict(spec.get("mb_table") or {}))
    if spec.get("qstage") == "late":
        qchanges()
    return p


def timeline_stats(part):
    """structural features of a BUILT part's timeline (for evidence: coverage.distribution, keys `timeline/...`)"""
    import partitura.score as S

    out = []
    pts = list(part._points)
    ts = [tp.t for tp in pts]
    tset = set(ts)
    if not pts:
        out.append("no time point at all")
    elif ts[0] > 0:
        out.append("first time point > 0")
    if any(isinstance(t, float) for t in ts):
        out.append("float-valued time points")
    notes = list(part.iter_all(S.GenericNote, include_subclasses=True))
    out.append("notes+rests: %s" % ("0" if not notes else "1" if len(notes) == 1 else "2+"))
    qt, qd = list(part._quarter_times), list(part._quarter_durations)
    meas = [(m.start.t, m.end.t) for m in part.iter_all(S.Measure) if m.end is not None]
    out.append("divisions changes: %s" % ("0" if len(qt) == 1 else "1" if len(qt) == 2 else "2+"))
    if qt and qt[0] != 0:
        out.append("divisions table does not start at 0")
    per_meas = {}
    for i, (t, qq) in enumerate(zip(qt, qd)):
        if i == 0:
            continue
        has = t in tset
        inside = [m for m in meas if m[0] < t < m[1]]
        if ts and t < ts[0]:
            where = "before the first time point"
        elif ts and t > ts[-1]:
            where = "after the last time point"
        elif ts and t == ts[-1]:
            where = "at the last time point"
        elif inside:
            where = "inside a measure"
            per_meas[inside[0]] = per_meas.get(inside[0], 0) + 1
        elif any(t == m[0] for m in meas):
            where = "at a barline"
        else:
            where = "outside every measure"
        out.append("divisions change %s %s" % (where, "WITH a time point" if has else "WITHOUT a time point"))
        if inside and not has:
            sounding = any(n.start.t < t and n.end is not None and n.end.t > t for n in notes)
            out.append("divisions change inside a measure without a time point, %s" % ("inside a note" if sounding else "in a gap"))
        if qq == qd[i - 1]:
            out.append("divisions entry repeating the value in force")
    if any(v >= 2 for v in per_meas.values()):
        out.append("2+ divisions changes inside one measure")
    for cls, lab in ((S.TimeSignature, "time signature"), (S.KeySignature, "key signature"), (S.Clef, "clef")):
        for o in part.iter_all(cls):
            t = o.start.t
            alone = not any(n.start.t == t or (n.end is not None and n.end.t == t) for n in notes)
            if alone and t > (ts[0] if ts else 0):
                out.append("%s where no note starts or ends%s" % (lab, " (after the last note)" if notes and t > max(n.start.t for n in notes) else ""))
    for o in part.iter_all(S.TimedObject, include_subclasses=True):
        if o.end is None and isinstance(o, (S.GenericNote, S.Slur, S.Tuplet, S.Measure, S.Repeat, S.Ending, S.IncreasingLoudnessDirection)):
            out.append("object without end: %s" % type(o).__name__)
        elif o.end is not None and o.end.t == o.start.t and not isinstance(o, S.GraceNote):
            out.append("zero-length object: %s" % type(o).__name__)
    for a, b in meas:
        if not any(a <= n.start.t < b for n in notes):
            out.append("measure in which nothing starts")
            break
    return sorted(set(out))


# argument KINDS: every shape the signatures / docstrings of the entry points accept
SCORE_KINDS = ["Score", "Part", "PartGroup", "PartList", "GroupList", "ScoreNoteArray"]
PERF_KINDS = ["Performance", "PerformedPart", "PPartList", "PerfNoteArray"]
ALIGN_KINDS = ["AlignPart", "AlignScore", "AlignLists", "AlignGroup"]
NOTELIST_KINDS = ["NoteList"]  # (a caller's list of Note objects, the Part they belong to)
ALL_KINDS = SCORE_KINDS + PERF_KINDS + ALIGN_KINDS + NOTELIST_KINDS
_OLD_AS = {"score": "Score", "part": "Part", "list": "PartList", "performance": "Performance", "ppart": "PerformedPart"}
NA_FLAGS = ["include_pitch_spelling", "include_key_signature", "include_time_signature", "include_metrical_position",
            "include_grace_notes", "include_staff", "include_divs_per_quarter"]


def gen_score_spec(rng):
    npart = rng.choice([1, 1, 2, 2, 3])
    n_meas = rng.randint(2, 5)
    parts = [gen_part_spec(rng, "P%d" % i, n_meas=n_meas) for i in range(npart)]
    return {"parts": parts, "group": npart >= 2 and rng.random() < 0.5, "title": rng.choice([None, "T"]),
            "as": rng.choice(SCORE_KINDS), "nested_group": rng.random() < 0.3,
            "na_flags": sorted(k for k in NA_FLAGS if rng.random() < 0.3)}


def build_score(spec):
    """-> (Score, part_structure list, outermost PartGroup or None)"""
    import partitura.score as S

    parts = [build_part(ps) for ps in spec["parts"]]
    how = _OLD_AS.get(spec.get("as"), spec.get("as", "Score"))
    want_group = (spec.get("group") and len(parts) >= 2) or how in ("PartGroup", "GroupList")
    g = None
    if want_group:
        inside = parts if how == "PartGroup" else parts[:2]
        g = S.PartGroup(group_symbol="bracket", group_name="G", number=1)
        if spec.get("nested_group") and len(inside) >= 2:
            # a group inside the group (iter_parts recurses)
            g2 = S.PartGroup(group_symbol="brace", group_name="H", number=2)
            g2.children = [inside[0]]
            inside[0].parent = g2
            g2.parent = g
            g.children = [g2] + list(inside[1:])
            for p in inside[1:]:
                p.parent = g
        else:
            g.children = list(inside)
            for p in inside:
                p.parent = g
        structure = [g] + [p for p in parts if all(p is not q for q in inside)]
    else:
        structure = parts
    sc = S.Score(structure, id="sc", title=spec.get("title"), composer="anon")
    return sc, structure, g


def gen_ppart_spec(rng, pid="PP0"):
    n = rng.randint(0, 14) if rng.random() < 0.1 else rng.randint(3, 14)
    notes = []
    t = 0.0
    for i in range(n):
        t += rng.choice([0.0, 0.125, 0.25, 0.5])
        d = rng.choice([0.125, 0.25, 0.5, 1.0])
        nd = {"midi_pitch": rng.randint(30, 100), "note_on": t, "note_off": t + d, "velocity": rng.randint(1, 127)}
        if rng.random() < 0.8:
            nd["id"] = "pn%d" % i
        if rng.random() < 0.5:
            nd["track"] = rng.choice([0, 1])
            nd["channel"] = rng.choice([0, 1, 9])
        notes.append(nd)
    # performed notes are usually stored by onset; 30% are not (a view that sorts `notes` in place must be seen)
    order = rng.choice(["onset", "onset", "shuffled", "reversed"]) if len(notes) > 1 else "onset"
    if order == "shuffled":
        rng.shuffle(notes)
    elif order == "reversed":
        notes.reverse()
    controls = []
    for _ in range(rng.choice([0, 0, 2, 5])):
        c = {"time": rng.choice([0.0, 0.25, 0.75, 1.5, 3.0]), "number": rng.choice([64, 64, 67, 7]), "value": rng.choice([0, 20, 64, 100, 127])}
        if rng.random() < 0.5:
            c["track"] = 0
            c["channel"] = 0
        controls.append(c)
    programs = []
    if rng.random() < 0.3:
        programs.append({"time": 0.0, "program": rng.randint(0, 20), "track": 0, "channel": 0})
    # time / key signatures and other meta events as a client builds them by hand: without `time_tick`, mostly without `track`
    tsigs, ksigs, meta = [], [], []
    if rng.random() < 0.5:
        tsigs.append({"time": 0.0, "beats": rng.choice([3, 4, 6]), "beat_type": rng.choice([4, 8])})
        if rng.random() < 0.4:
            tsigs.append({"time": rng.choice([0.5, 1.0, 2.0]), "beats": 2, "beat_type": 4, "track": 0})
    if rng.random() < 0.4:
        ksigs.append({"time": 0.0, "fifths": rng.randint(-4, 4), "mode": rng.choice(["major", "minor"])})
    if rng.random() < 0.4:
        meta.append({"time": 0.0, "type": "track_name", "name": "track"})
        if rng.random() < 0.5:
            meta.append({"time": rng.choice([0.25, 1.0]), "type": "marker", "text": "A", "track": 0})
    return {"id": pid, "notes": notes, "controls": controls, "programs": programs, "note_order": order,
            "time_signatures": tsigs, "key_signatures": ksigs, "meta_other": meta,
            "threshold": rng.choice([64, 64, 30, 127]), "ppq": rng.choice([480, 96]), "mpq": rng.choice([500000, 600000])}


def build_ppart(spec):
    import partitura.performance as P

    return P.PerformedPart([dict(n) for n in spec["notes"]], id=spec["id"], part_name="perf",
                           controls=[dict(c) for c in spec["controls"]], programs=[dict(c) for c in spec["programs"]],
                           key_signatures=[dict(c) for c in spec.get("key_signatures", [])],
                           time_signatures=[dict(c) for c in spec.get("time_signatures", [])],
                           meta_other=[dict(c) for c in spec.get("meta_other", [])],
                           sustain_pedal_threshold=spec["threshold"], ppq=spec["ppq"], mpq=spec["mpq"])


def gen_perf_spec(rng):
    n = rng.choice([1, 1, 2, 3])
    return {"pparts": [gen_ppart_spec(rng, "PP%d" % i) for i in range(n)], "as": rng.choice(PERF_KINDS),
            "unique_tracks": rng.random() < 0.3}


def build_perf(spec):
    import partitura.performance as P

    return P.Performance([build_ppart(s) for s in spec["pparts"]], id="perf", performer="x", title="t",
                         ensure_unique_tracks=bool(spec.get("unique_tracks")))


def gen_alignment_spec(rng):
    """A part (ids on every note), a performed part derived from it, and an alignment."""
    ps = gen_part_spec(rng, "P0")
    ps["ids"] = "all"
    k = 0
    for n in ps["notes"]:
        n["id"] = "n%d" % k
        k += 1
    return {"part": ps, "bpm": rng.choice([60, 100, 120]), "drop": rng.random(), "seed": rng.randrange(1 << 30),
            "as": rng.choice(ALIGN_KINDS)}


def build_alignment(spec):
    import random

    import partitura.score as S
    from partitura.utils.music import performance_from_part

    part = build_part(spec["part"])
    rr = random.Random(spec["seed"])
    ppart = None
    perf = performance_from_part(part, bpm=spec["bpm"])
    ppart = perf[0] if not hasattr(perf, "notes") else perf
    sids = [n.id for n in part.notes_tied]
    al = []
    pids = {pn["id"]: pn for pn in ppart.notes}
    for sid in sids:
        r = rr.random()
        if sid in pids and r < 0.8:
            al.append({"label": "match", "score_id": sid, "performance_id": sid})
        elif sid in pids and r < 0.9:
            al.append({"label": "deletion", "score_id": sid})
            al.append({"label": "insertion", "performance_id": sid})
        else:
            al.append({"label": "deletion", "score_id": sid})
            if sid in pids:
                al.append({"label": "insertion", "performance_id": sid})
    how = spec.get("as", "AlignPart")
    if how == "AlignScore":
        import partitura.performance as P

        return al, P.Performance([ppart], id="perf"), S.Score([part], id="sc")
    if how == "AlignLists":
        return al, [ppart], [part]
    if how == "AlignGroup":
        g = S.PartGroup(group_symbol="bracket", group_name="G", number=1)
        g.children = [part]
        part.parent = g
        return al, ppart, g
    return al, ppart, part


# ---------------------------------------------------------------------------------------
# 4. Read-only entry points.  Each takes the argument tuple and a parameter dict (JSON-able,
# part of the replay) and returns the raw result.  Every entry point is given the argument
# AS IT IS (no unwrapping by the harness) for every argument kind its signature / docstring
# accepts, plus the neighbouring kinds of the same family (where it then raises: recorded,
# and the argument must still be unchanged).  Only the entry points that are METHODS of Part
# (maps, pretty, views ...) are applied to every part reachable from the argument.

MAPS = ["beat_map", "inv_beat_map", "quarter_map", "inv_quarter_map", "quarter_duration_map", "time_signature_map",
        "key_signature_map", "measure_map", "measure_number_map", "metrical_position_map", "clef_map"]
VIEWS = ["notes", "notes_tied", "measures", "rests", "repeats", "key_sigs", "time_sigs", "dynamics", "articulations",
         "first_point", "last_point", "number_of_staves", "measure_number_map", "quarter_durations", "note_array_default"]


class ProtocolError(Exception):
    """raised by ep_iterate when len / indexing / iteration of the argument disagree with each other"""


def family(kind):
    if kind in ("ScoreNoteArray", "PerfNoteArray"):
        return "na"
    if kind == "NoteList":
        return "notelist"
    if kind in SCORE_KINDS:
        return "score"
    if kind in PERF_KINDS:
        return "perf"
    return "align"


def _parts_of(x):
    import partitura.score as S

    if isinstance(x, S.Part):
        return [x]
    if isinstance(x, S.Score):
        return list(x.parts)
    return list(S.iter_parts(x))


def _pparts_of(x):
    import partitura.performance as P

    return [x] if isinstance(x, P.PerformedPart) else list(x.performedparts) if isinstance(x, P.Performance) else list(x)


def _times_of(part):
    ts = sorted({int(tp.t) for tp in part._points})
    if not ts:
        return np.array([0, 1])
    out = set(ts)
    for a, b in zip(ts, ts[1:]):
        out.add((a + b) // 2)
    out.add(ts[-1] + 3)
    return np.array(sorted(out))


def ep_save_musicxml(args, prm):
    import partitura as pt

    return pt.save_musicxml(args[0], out=None)


def ep_save_score_midi(args, prm):
    import partitura as pt

    buf = io.BytesIO()
    pt.save_score_midi(args[0], buf, part_voice_assign_mode=prm.get("mode", 0), anacrusis_behavior=prm.get("anacrusis", "shift"))
    return buf.getvalue()


def ep_note_array(args, prm):
    """the note_array method where the argument has one, note_array_from_part_list otherwise"""
    from partitura.utils.music import note_array_from_part_list

    x = args[0]
    kw = dict(prm.get("flags", {}))
    # the plain call (what most clients write) and the call with the drawn include_* flags
    if hasattr(x, "note_array"):
        return [x.note_array(), x.note_array(**kw)] if kw else x.note_array()
    return [note_array_from_part_list(x), note_array_from_part_list(x, **kw)] if kw else note_array_from_part_list(x)


def ep_note_array_from_part_list(args, prm):
    from partitura.utils.music import note_array_from_part_list

    return note_array_from_part_list(args[0], **dict(prm.get("flags", {})))


def _try(f):
    try:
        return f()
    except Exception:  # (a part without measures has no metrical positions)
        return None


def ep_note_array_from_note_list(args, prm):
    """note_array_from_note_list given a list the CALLER owns (any order, with grace notes), with the maps of the part"""
    from partitura.utils.music import note_array_from_note_list

    notes, part = args
    fl = dict(prm.get("flags", {}))
    out = [note_array_from_note_list(notes), note_array_from_note_list(notes, beat_map=part.beat_map, quarter_map=part.quarter_map)]
    out.append(note_array_from_note_list(
        notes, beat_map=part.beat_map, quarter_map=part.quarter_map,
        time_signature_map=part.time_signature_map if fl.get("include_time_signature") else None,
        key_signature_map=part.key_signature_map if fl.get("include_key_signature") else None,
        metrical_position_map=_try(lambda: part.metrical_position_map) if fl.get("include_metrical_position") else None,
        include_pitch_spelling=bool(fl.get("include_pitch_spelling")), include_grace_notes=bool(fl.get("include_grace_notes")),
        include_staff=bool(fl.get("include_staff")),
        divs_per_quarter=int(part._quarter_durations[0]) if fl.get("include_divs_per_quarter") else None))
    return out


def ep_rest_array(args, prm):
    import inspect

    import partitura.score as S
    from partitura.utils.music import rest_array_from_part_list

    x = args[0]
    kw = dict(prm.get("rflags", {}))
    if isinstance(x, (S.Part, S.PartGroup)):
        return [x.rest_array(), x.rest_array(**kw)] if kw else x.rest_array()
    ok = set(inspect.signature(rest_array_from_part_list).parameters)
    kw = {k: v for k, v in kw.items() if k in ok}
    return [rest_array_from_part_list(x), rest_array_from_part_list(x, **kw)] if kw else rest_array_from_part_list(x)


def ep_ensure_notearray(args, prm):
    from partitura.utils.music import ensure_notearray

    return ensure_notearray(args[0])


def ep_ensure_rest_array(args, prm):
    from partitura.utils.music import ensure_rest_array

    return ensure_rest_array(args[0])


def ep_pianoroll(args, prm):
    from partitura.utils.music import compute_pianoroll

    return [compute_pianoroll(args[0]),
            compute_pianoroll(args[0], time_div=prm.get("time_div", "auto"), return_idxs=prm.get("return_idxs", False),
                              onset_only=prm.get("onset_only", False), piano_range=prm.get("piano_range", False))]


def ep_slice_notearray(args, prm):
    """slice_notearray_by_time with clipping (the slice must be a copy: clipping writes into it)"""
    from partitura.utils.music import get_time_units_from_note_array, slice_notearray_by_time

    na = args[0]
    out = []
    on, du = get_time_units_from_note_array(na)
    if len(na) == 0:
        return [slice_notearray_by_time(na, 0, 1)]
    lo, hi = float(np.min(na[on])), float(np.max(na[on] + na[du]))
    a, b = prm.get("slice", [0.25, 0.75])
    for s, e in ((lo + a * (hi - lo), lo + b * (hi - lo)), (lo, hi), (lo + (hi - lo) / 2, hi + 1)):
        out.append(slice_notearray_by_time(na, s, e, clip_onset_duration=True))
        out.append(slice_notearray_by_time(na, s, e, clip_onset_duration=False))
    return out


def ep_maps(args, prm):
    out = []
    for p in _parts_of(args[0]):
        ts = _times_of(p)
        for m in MAPS:
            try:
                f = getattr(p, m)
                out.append([m, f(ts), f(int(ts[0]))])
            except Exception as e:  # a crashing map is not C20's business; its effect on the argument is
                out.append([m, "raised", type(e).__name__])
    return out


def ep_pretty(args, prm):
    x = args[0]
    out = [p.pretty() for p in _parts_of(x)]
    if hasattr(x, "pretty") and not isinstance(x, list):
        out.append(x.pretty())  # PartGroup.pretty
    return out


def ep_views(args, prm):
    out = []
    for p in _parts_of(args[0]):
        for v in VIEWS:
            try:
                if v == "quarter_durations":
                    r = p.quarter_durations()
                elif v == "note_array_default":
                    r = p.note_array()
                elif v == "measure_number_map":
                    r = p.measure_number_map(_times_of(p))
                else:
                    r = getattr(p, v)
                if isinstance(r, list):
                    r = [[type(o).__name__, getattr(o, "id", None), o.start.t if getattr(o, "start", None) is not None else None] for o in r]
                elif hasattr(r, "t") and hasattr(r, "starting_objects"):
                    r = ["tp", r.t]
                out.append([v, r])
            except Exception as e:
                out.append([v, "raised", type(e).__name__])
    return out


def ep_unfold_max(args, prm):
    import partitura.score as S

    return probe_result(S.unfold_part_maximal(args[0], update_ids=prm.get("update_ids", True), ignore_leaps=prm.get("ignore_leaps", True)),
                        "unfold_part_maximal")


def ep_unfold_min(args, prm):
    import partitura.score as S

    return probe_result(S.unfold_part_minimal(args[0]), "unfold_part_minimal")


def ep_iter_unfolded(args, prm):
    import partitura.score as S

    out = []
    for p in _parts_of(args[0]):
        for k, u in enumerate(S.iter_unfolded_parts(p, update_ids=prm.get("update_ids", True))):
            out.append(u)
            if k >= 5:
                break
    return out


def ep_paths(args, prm):
    import partitura.score as S

    out = []
    for p in _parts_of(args[0]):
        out.append([str(x) for x in S.get_paths(p, no_repeats=prm.get("no_repeats", False), all_repeats=prm.get("all_repeats", False),
                                                ignore_leap_info=prm.get("ignore_leaps", True))][:64])
    return out


def ep_segments(args, prm):
    import partitura.score as S

    out = []
    for p in _parts_of(args[0]):
        segs = p.segments
        out.append([[s.id, list(s.to), list(s.await_to), s.type, s.info, s.force_full_sequence, s.start.t, s.end.t] for s in segs])
        out.append(S.pretty_segments(p))
    return out


def ep_spelling(args, prm):
    from partitura.musicanalysis import estimate_spelling

    return estimate_spelling(args[0])


def ep_voices(args, prm):
    from partitura.musicanalysis import estimate_voices

    return estimate_voices(args[0], monophonic_voices=prm.get("mono", True))


def ep_key(args, prm):
    from partitura.musicanalysis import estimate_key

    return estimate_key(args[0])


def ep_analyses_per_part(args, prm):
    """the three analyses on every single part reachable from the argument"""
    from partitura.musicanalysis import estimate_key, estimate_spelling, estimate_voices

    out = []
    for p in _parts_of(args[0]):
        for f in (estimate_spelling, lambda q: estimate_voices(q, monophonic_voices=prm.get("mono", True)), estimate_key):
            try:
                out.append(f(p))
            except Exception as e:
                out.append(["raised", type(e).__name__])
    return out


def ep_transpose(args, prm):
    import partitura.score as S
    from partitura.utils.music import transpose

    num, qual, direction = prm.get("interval", [2, "M", "up"])
    return probe_result(transpose(args[0], S.Interval(num, qual, direction)), "transpose")


def protocol_probe(c, what=""):
    """the container protocol used as a client would: nested loops, zip, two live iterators, list(), len and
    indexing before / after / during an iteration.  Returns the observed sequences; raises ProtocolError when they
    are not the items c[0] .. c[len(c) - 1] in order.  Never writes to c."""
    n = len(c)
    items = [c[i] for i in range(n)]

    def ix(o):
        for i, it in enumerate(items):
            if it is o:
                return i
        return -1

    # (objects appearing twice get the index of their first occurrence)
    first = [ix(o) for o in items]
    got = {
        "list": [ix(a) for a in c],
        "nested": [(ix(a), ix(b)) for a in c for b in c],
        "zip": [(ix(a), ix(b)) for a, b in zip(c, c)],
        "reversed": [ix(a) for a in reversed(c)] if n else [],
        "neg_index": [ix(c[i]) for i in range(-n, 0)],
    }
    it1, it2 = iter(c), iter(c)
    two = []
    for _ in range(n + 1):
        for it in (it1, it2):
            try:
                two.append(ix(next(it)))
            except StopIteration:
                two.append(-2)
    got["two_iterators"] = two
    it3 = iter(c)
    head = next(it3, None)
    got["during"] = [len(c), [ix(c[i]) for i in range(n)], ix(head) if n else -2, [ix(a) for a in it3], len(c)]
    got["distinct_iterators"] = it1 is not it2
    exp = {
        "list": first, "nested": [(a, b) for a in first for b in first], "zip": [(a, a) for a in first],
        "reversed": first[::-1], "neg_index": first,
        "two_iterators": [x for a in first for x in (a, a)] + [-2, -2],
        "during": [n, first, first[0] if n else -2, first[1:], n], "distinct_iterators": True,
    }
    bad = [k for k in exp if got[k] != exp[k]]
    if bad:
        raise ProtocolError("%s%s: got %s expected %s (positions are indices into [c[0] .. c[len(c)-1]], -1 = an object that is none of them)"
                            % (what, bad[0], got[bad[0]], exp[bad[0]]))
    return [n, got]


def probe_result(r, name):
    """a Score / Performance RETURNED by an entry point is a container too: it must support the protocol"""
    import partitura.performance as P
    import partitura.score as S

    if isinstance(r, (S.Score, P.Performance)):
        protocol_probe(r, "on the %s returned by %s: " % (type(r).__name__, name))
    return r


def ep_iterate(args, prm):
    """client iteration over the argument itself (compared between calls; ProtocolError when inconsistent)"""
    return protocol_probe(args[0])


def ep_save_performance_midi(args, prm):
    import partitura as pt

    buf = io.BytesIO()
    pt.save_performance_midi(args[0], buf, mpq=prm.get("mpq", 500000), ppq=prm.get("ppq", 480),
                             merge_tracks_save=prm.get("merge", False))
    return buf.getvalue()


def ep_perf_views(args, prm):
    import partitura.performance as P

    x = args[0]
    out = []
    if isinstance(x, P.Performance):
        out.append(["num_tracks", x.num_tracks])
    for pp in _pparts_of(x):
        out.append([pp.sustain_pedal_threshold, pp.num_tracks if hasattr(pp, "num_tracks") else None, str(pp.notes[0]) if pp.notes else None,
                    pp.note_array()])
    return out


def ep_matchfile(args, prm):
    from partitura.io.exportmatch import matchfile_from_alignment

    al, ppart, part = args
    return matchfile_from_alignment(al, ppart, part, assume_part_unfolded=prm.get("assume_unfolded", False),
                                    performer="p", composer="c", piece="x")


def ep_save_match(args, prm):
    import partitura as pt

    al, ppart, part = args
    path = os.path.join(prm["_work"], "c20_out.match")
    pt.save_match(al, ppart, part, out=path, assume_unfolded=prm.get("assume_unfolded", False))
    with open(path, "rb") as f:
        data = f.read()
    os.remove(path)
    return data


def ep_unfold_alignment(args, prm):
    import partitura.score as S

    al, ppart, part = args
    return S.unfold_part_alignment(part, al)


_SK = ("Score", "Part", "PartGroup", "PartList", "GroupList")
_PK = ("Performance", "PerformedPart", "PPartList")
_NA = ("ScoreNoteArray", "PerfNoteArray")
_AK = tuple(ALIGN_KINDS)

ENTRY = {
    # name: (function, argument kinds it is run on)
    "save_musicxml": (ep_save_musicxml, _SK),
    "save_score_midi": (ep_save_score_midi, _SK),
    "note_array": (ep_note_array, _SK + _PK),
    "note_array_from_part_list": (ep_note_array_from_part_list, ("Score", "PartGroup", "PartList", "GroupList", "PPartList", "Performance")),
    "rest_array": (ep_rest_array, _SK),
    "ensure_notearray": (ep_ensure_notearray, _SK + _PK + _NA),
    "ensure_rest_array": (ep_ensure_rest_array, _SK),
    "compute_pianoroll": (ep_pianoroll, _SK + _PK + _NA),
    "slice_notearray_by_time": (ep_slice_notearray, _NA),
    "maps": (ep_maps, _SK),
    "pretty": (ep_pretty, _SK),
    "views": (ep_views, _SK),
    "unfold_part_maximal": (ep_unfold_max, _SK),
    "unfold_part_minimal": (ep_unfold_min, _SK),
    "iter_unfolded_parts": (ep_iter_unfolded, _SK),
    "get_paths": (ep_paths, _SK),
    "segments": (ep_segments, _SK),
    "estimate_spelling": (ep_spelling, _SK + _PK + _NA),
    "estimate_voices": (ep_voices, _SK + _PK + _NA),
    "estimate_key": (ep_key, _SK + _PK + _NA),
    "analyses_per_part": (ep_analyses_per_part, ("Score", "PartGroup", "PartList", "GroupList")),
    "transpose": (ep_transpose, _SK),
    "iterate": (ep_iterate, ("Score", "Performance")),
    "save_performance_midi": (ep_save_performance_midi, _PK),
    "perf_views": (ep_perf_views, _PK),
    "matchfile_from_alignment": (ep_matchfile, _AK),
    "save_match": (ep_save_match, _AK),
    "unfold_part_alignment": (ep_unfold_alignment, _AK),
    "note_array_from_note_list": (ep_note_array_from_note_list, ("NoteList",)),
}


def entries_for(kind, arg=None):
    return [name for name, (f, kinds) in ENTRY.items() if kind in kinds]


class _CpuTimeout(BaseException):
    """an entry point used more than CALL_CPU_LIMIT seconds of CPU time (ITIMER_VIRTUAL: never wall clock)"""


CALL_CPU_LIMIT = 10.0
TIMEOUTS = defaultdict(int)  # entry -> calls that ran into the CPU-time guard (evidence: extra.cpu_timeouts)


def _on_vtalrm(signum, frame):
    raise _CpuTimeout()


def call_entry(name, args, prm):
    """-> ('ok', canonical result) | ('raised', exception type name) | ('protocol', message).
    A call that does not come back within CALL_CPU_LIMIT s of CPU time counts as raised:CpuTimeout (the argument must still
    be unchanged; termination itself is not C20's business)."""
    import signal

    f = ENTRY[name][0]
    guard = False
    try:
        signal.signal(signal.SIGVTALRM, _on_vtalrm)
        signal.setitimer(signal.ITIMER_VIRTUAL, CALL_CPU_LIMIT)
        guard = True
    except (ValueError, OSError):
        pass  # not the main thread
    try:
        try:
            r = f(args, prm)
        finally:
            if guard:
                signal.setitimer(signal.ITIMER_VIRTUAL, 0)
    except _CpuTimeout:
        TIMEOUTS[name] += 1
        return ("raised", "CpuTimeout")
    except RecursionError:
        return ("raised", "RecursionError")
    except ProtocolError as e:
        return ("protocol", str(e))
    except Exception as e:
        # only the exception TYPE is compared between calls (messages may contain addresses)
        return ("raised", type(e).__name__)
    return ("ok", canon_result(r))


def guarded(f, *a):
    """f(*a) under the CPU-time guard of call_entry (the in-place operations of the negative stage: tie_notes on a note of
    hundreds of quarters makes find_tie_split's search explode -- C11's business; here it only must not hang the run)."""
    import signal

    guard = False
    try:
        signal.signal(signal.SIGVTALRM, _on_vtalrm)
        signal.setitimer(signal.ITIMER_VIRTUAL, CALL_CPU_LIMIT)
        guard = True
    except (ValueError, OSError):
        pass
    try:
        try:
            return f(*a)
        finally:
            if guard:
                signal.setitimer(signal.ITIMER_VIRTUAL, 0)
    except _CpuTimeout:
        TIMEOUTS["inplace"] += 1
        raise RuntimeError("CpuTimeout")


def gen_params(rng, work):
    flags = {k: True for k in NA_FLAGS if rng.random() < 0.4}
    rflags = {k: True for k in ["include_pitch_spelling", "include_key_signature", "include_time_signature", "include_metrical_position",
                                "include_grace_notes", "include_staff", "collapse"] if rng.random() < 0.3}
    a = rng.choice([0.0, 0.1, 0.25, 0.5])
    return {"flags": flags, "rflags": rflags, "mode": rng.choice([0, 0, 1, 2, 3, 4, 5]), "anacrusis": rng.choice(["shift", "pad_bar", "time_sig_change"]),
            "time_div": rng.choice(["auto", 4, 8]), "return_idxs": rng.random() < 0.3, "onset_only": rng.random() < 0.2,
            "piano_range": rng.random() < 0.2, "update_ids": rng.random() < 0.7, "ignore_leaps": rng.random() < 0.7,
            "no_repeats": rng.random() < 0.2, "all_repeats": rng.random() < 0.3, "mono": rng.random() < 0.7,
            "interval": rng.choice([[2, "M", "up"], [3, "m", "down"], [5, "P", "up"], [1, "A", "up"], [3, "M", "up"], [2, "m", "down"]]),
            "mpq": rng.choice([500000, 400000]), "ppq": rng.choice([480, 96]), "merge": rng.random() < 0.3,
            "assume_unfolded": rng.random() < 0.3, "slice": [a, rng.choice([0.5, 0.75, 1.0])], "_work": work}


# ---------------------------------------------------------------------------------------
# 5. One case: build the argument, call the entry points in a seeded order, watch the
# fingerprint and the results.


def _cut_note_array(na, spec):
    """a note array as a client may hold it: the notes from the k-th on (so that the first onset is not 0), some fields
    dropped (track / channel: without them no entry point makes a filtered copy first)"""
    k = spec.get("na_skip", 0)
    if k and len(na) > k:
        na = na[k:].copy()
    drop = [f for f in spec.get("na_drop", []) if f in na.dtype.names]
    if drop:
        keep = [f for f in na.dtype.names if f not in drop]
        out = np.empty(len(na), dtype=[(f, na.dtype[f]) for f in keep])
        for f in keep:
            out[f] = na[f]
        na = out
    return na


def build_case(case):
    """case = {'kind': 'score'|'perf'|'align'|'file', 'spec': ...} -> (argument kind, args tuple)."""
    import partitura as pt
    import partitura.score as S

    k = case["kind"]
    if k == "score":
        spec = case["spec"]
        sc, structure, g = build_score(spec)
        how = _OLD_AS.get(spec.get("as"), spec.get("as", "Score"))
        if how == "Part":
            return how, (sc.parts[spec.get("part_index", 0) % len(sc.parts)],)
        if how == "PartList":
            return how, (list(sc.parts),)
        if how == "PartGroup":
            return how, (g,)
        if how == "GroupList":
            return how, (list(structure),)
        if how == "ScoreNoteArray":
            return how, (_cut_note_array(sc.note_array(**{f: True for f in spec.get("na_flags", [])}), spec),)
        if how == "NoteList":
            part = sc.parts[spec.get("part_index", 0) % len(sc.parts)]
            notes = list(part.notes_tied if spec.get("notelist_tied", True) else part.notes)
            order = spec.get("notelist_order", "asis")
            if order == "reversed":
                notes.reverse()
            elif order == "shuffled":
                import random

                random.Random(spec.get("notelist_seed", 0)).shuffle(notes)
            return how, (notes, part)
        return "Score", (sc,)
    if k == "perf":
        pf = build_perf(case["spec"])
        how = _OLD_AS.get(case["spec"].get("as"), case["spec"].get("as", "Performance"))
        if how == "PerformedPart":
            return how, (pf.performedparts[0],)
        if how == "PPartList":
            return how, (list(pf.performedparts),)
        if how == "PerfNoteArray":
            return how, (_cut_note_array(pf.note_array(), case["spec"]),)
        return "Performance", (pf,)
    if k == "align":
        how = case["spec"].get("as", "AlignPart")
        return how, tuple(build_alignment(case["spec"]))
    if k == "file":
        path = os.path.join(core.REPO, "tests", "data", case["path"])
        how = case.get("as")
        if case["loader"] == "score":
            sc = pt.load_score(path)
            if how == "PartList":
                return how, (list(sc.parts),)
            if how == "GroupList":
                return how, (list(sc.part_structure),)
            if how == "Part":
                return how, (sc.parts[0],)
            return "Score", (sc,)
        if case["loader"] == "perf":
            pf = pt.load_performance(path)
            if how == "PPartList":
                return how, (list(pf.performedparts),)
            return "Performance", (pf,)
        if case["loader"] == "match":
            perf, al, sc = pt.load_match(path, create_score=True)
            if how == "AlignScore":
                return how, (al, perf, sc)
            return "AlignPart", (al, perf[0], sc[0])
    raise ValueError(k)


def run_case(case, schedule, prm, fresh_checks=()):
    """Run `schedule` (list of entry names) on the built case.
    -> list of findings: dicts {type, entry, kind, fields, detail}, trace rows for the Coq trace checker, results."""
    kind, args = build_case(case)
    findings = []
    trace = []
    fp0 = fingerprint(args)
    fp_prev = fp0
    d_prev = fp_digest(fp0)
    results = {}
    dirty = False
    for step, name in enumerate(schedule):
        res = call_entry(name, args, prm)
        fp = fingerprint(args)
        d = fp_digest(fp)
        rd = hashlib.sha1(json.dumps(res, sort_keys=True, default=str).encode()).hexdigest()
        trace.append((name, kind, d_prev, d, rd, "ok" if res[0] == "ok" else "protocol" if res[0] == "protocol" else "raised:" + str(res[1])))
        if d != d_prev:
            paths, desc = describe_diff(fp_prev, fp)
            findings.append({"type": "mutates", "entry": name, "arg_kind": kind, "step": step, "fields": sorted({field_of(p) for p in paths}),
                             "npaths": len(paths), "detail": desc, "outcome": res[0]})
            dirty = True
        elif res[0] == "protocol":
            if not any(f["type"] == "protocol" for f in findings):
                findings.append({"type": "protocol", "entry": name, "arg_kind": kind, "step": step, "fields": [], "detail": [res[1][:400]], "outcome": "protocol"})
        elif name in results and results[name] != res and not dirty:
            findings.append({"type": "not_repeatable", "entry": name, "arg_kind": kind, "step": step, "fields": [],
                             "detail": [json.dumps(results[name], default=str)[:300], json.dumps(res, default=str)[:300]], "outcome": res[0]})
        results.setdefault(name, res)
        fp_prev, d_prev = fp, d
    # each call's result is a function of the initial store: compare with a call on a fresh, untouched build
    for name in fresh_checks:
        if name not in results or dirty:
            continue
        k2, args2 = build_case(case)
        res2 = call_entry(name, args2, prm)
        if res2 != results[name]:
            findings.append({"type": "history_dependent", "entry": name, "arg_kind": kind, "step": -1, "fields": [],
                             "detail": [json.dumps(results[name], default=str)[:300], json.dumps(res2, default=str)[:300]], "outcome": res2[0]})
    return findings, trace, results, kind


def observe_transpose(case, interval):
    """transpose twice on a fresh build of the case -> what the heap model (Model.C20.copy_modify) talks about:
    the cells of the argument (its notes, value = MIDI pitch) before / after, and the cells of the two results."""
    import partitura.score as S
    from partitura.utils.music import transpose

    try:
        kind, args = build_case(case)
        arg = args[0]
        notes0 = [n for p in _parts_of(arg) for n in p.notes]
    except Exception:
        return None
    if not notes0:
        return None
    before = [int(n.midi_pitch) for n in notes0]
    out = {"kind": kind, "before": before, "outcome": "ok", "res1": [], "res2": [], "shared": False}
    res = []
    for _ in range(2):
        try:
            r = transpose(arg, S.Interval(*interval))
            res.append([n for p in _parts_of(r) for n in p.notes])
        except Exception as e:
            out["outcome"] = "raised:" + type(e).__name__
            break
    notes1 = [n for p in _parts_of(arg) for n in p.notes]
    out["after"] = [int(n.midi_pitch) for n in notes1]
    out["same_objects"] = len(notes0) == len(notes1) and all(a is b for a, b in zip(notes0, notes1))
    if len(res) == 2:
        out["res1"] = [int(n.midi_pitch) for n in res[0]]
        out["res2"] = [int(n.midi_pitch) for n in res[1]]
        ids = {id(n) for n in notes0}
        out["shared"] = any(id(n) in ids for r in res for n in r)
    return out


# ---------------------------------------------------------------------------------------
# 6. Container protocol: histories over real Score / Performance objects


def build_container(spec):
    """spec = {'type': 'score'|'performance', 'labels': [0, 1, 0 ...]} -- equal labels = the same part object appearing
    more than once; or {'type': 'derived', ...} (section 6c), labelled by position.  -> (container, items, labels)"""
    import partitura.performance as P
    import partitura.score as S

    if spec["type"] == "derived":
        c = build_derived(spec)
        items = [c[i] for i in range(len(c))]
        labels = []
        for i, o in enumerate(items):
            labels.append(next(j for j, q in enumerate(items) if q is o))
        return c, items, labels
    labels = spec["labels"]
    objs = {}
    for l in labels:
        if l not in objs:
            if spec["type"] == "score":
                p = S.Part("P%d" % l, quarter_duration=1)
                p.add(S.Note("C", 4, id="n%d" % l, voice=1), 0, 1)
                objs[l] = p
            else:
                objs[l] = P.PerformedPart([{"midi_pitch": 60 + l, "note_on": 0.0, "note_off": 1.0, "velocity": 64, "id": "n%d" % l}], id="PP%d" % l)
    items = [objs[l] for l in labels]
    if spec["type"] == "score":
        c = S.Score(items, id="c")
    else:
        c = P.Performance(items, id="c", ensure_unique_tracks=False)
    return c, items, labels


def run_history(spec, hist):
    """hist: list of ['iter', k] | ['next', k] | ['len'] | ['get', i] -> observed results
    as tuples ('iter',) ('yield', label) ('stop',) ('len', n) ('item', label) ('indexerror',) ('other', text)."""
    c, items, labels = build_container(spec)
    spec = dict(spec, labels=labels)

    def lab(o):
        for it, l in zip(items, labels):
            if it is o:
                return l
        return -1

    its = {}
    out = []
    fp0 = fp_digest(fingerprint([c]))
    for o in hist:
        try:
            if o[0] == "iter":
                its[o[1]] = iter(c)
                out.append(("iter",))
            elif o[0] == "next":
                try:
                    out.append(("yield", lab(next(its[o[1]]))))
                except StopIteration:
                    out.append(("stop",))
            elif o[0] == "len":
                out.append(("len", len(c)))
            elif o[0] == "get":
                try:
                    out.append(("item", lab(c[o[1]])))
                except IndexError:
                    out.append(("indexerror",))
        except Exception as e:
            out.append(("other", type(e).__name__))
    unchanged = fp_digest(fingerprint([c])) == fp0
    return out, unchanged, labels


def oracle_history(labels, hist):
    """independent Python statement of O3: every handle has its own cursor."""
    cur = {}
    n = len(labels)
    out = []
    for o in hist:
        if o[0] == "iter":
            cur[o[1]] = 0
            out.append(("iter",))
        elif o[0] == "next":
            if cur[o[1]] < n:
                out.append(("yield", labels[cur[o[1]]]))
                cur[o[1]] += 1
            else:
                out.append(("stop",))
        elif o[0] == "len":
            out.append(("len", n))
        else:
            i = o[1]
            out.append(("item", labels[i]) if -n <= i < n else ("indexerror",))
    return out


def gen_history(rng, n, length, handles=4):
    hist = []
    bound = set()
    for _ in range(length):
        r = rng.random()
        if r < 0.17 or not bound and r < 0.5:
            k = rng.randrange(handles)
            bound.add(k)
            hist.append(["iter", k])
        elif r < 0.72 and bound:
            hist.append(["next", rng.choice(sorted(bound))])
        elif r < 0.82:
            hist.append(["len"])
        else:
            hist.append(["get", rng.randint(-n - 2, n + 1)])
    return hist


def enum_histories(maxlen):
    """all valid histories up to maxlen over {iter 0, iter 1, next 0, next 1, len, get -1}."""
    alpha = [["iter", 0], ["iter", 1], ["next", 0], ["next", 1], ["len"], ["get", -1]]
    out = []

    def rec(h, bound):
        if h:
            out.append(list(h))
        if len(h) == maxlen:
            return
        for o in alpha:
            if o[0] == "next" and o[1] not in bound:
                continue
            h.append(o)
            rec(h, bound | {o[1]} if o[0] == "iter" else bound)
            h.pop()

    rec([], frozenset())
    return out


def coq_op(o):
    if o[0] == "iter":
        return "(Iter %s)" % cnat(o[1])
    if o[0] == "next":
        return "(Next %s)" % cnat(o[1])
    if o[0] == "len":
        return "Len"
    return "(Get %s)" % cz(o[1])


def coq_res(r):
    return {"iter": lambda: "RIter", "yield": lambda: "(RYield %s)" % cz(r[1]), "stop": lambda: "RStop",
            "len": lambda: "(RLen %s)" % cnat(r[1]), "item": lambda: "(RItem %s)" % cz(r[1]),
            "indexerror": lambda: "RIndexError", "other": lambda: "RNoIter"}[r[0]]()


def hist_term(labels, hist, obs):
    return ctuple([clist([cz(l) for l in labels]), clist([coq_op(o) for o in hist]), clist([coq_res(r) for r in obs])])


# ---------------------------------------------------------------------------------------
# 6b. The container as a mutable object: construction from Part / PartGroup trees (Score.__init__, iter_parts),
# item assignment (c[i] = part) and the protocol afterwards (Model.C20_Mut: score_init, mstep FromParts, mhist_ok).
#
# constructor argument (JSON): ["part", l] | ["group", [tree ...]] | ["list", [tree ...]] | ["tuple", [tree ...]] | ["other"]
# tree: int label (a Part / PerformedPart; equal labels = the same object) | list of trees (a PartGroup)


def gen_tree(rng, depth, counter, reuse):
    if depth > 0 and rng.random() < (0.45 if depth >= 2 else 0.3):
        return [gen_tree(rng, depth - 1, counter, reuse) for _ in range(rng.choice([0, 1, 2, 2, 3]))]
    if reuse and counter[0] > 0 and rng.random() < 0.1:
        return rng.randrange(counter[0])
    counter[0] += 1
    return counter[0] - 1


def gen_container_arg(rng, typ):
    counter = [0]
    r = rng.random()
    if r < 0.03:
        return ["other"]
    if typ == "performance":
        if r < 0.15:
            return ["part", 0]
        n = rng.choice([0, 1, 2, 2, 3, 4])
        return [rng.choice(["list", "list", "tuple"]), [gen_tree(rng, 0, counter, True) for _ in range(n)]]
    if r < 0.12:
        return ["part", 0]
    if r < 0.27:
        return ["group", [gen_tree(rng, 2, counter, False) for _ in range(rng.choice([0, 1, 2, 3]))]]
    n = rng.choice([0, 1, 2, 2, 3, 4])
    return [rng.choice(["list", "list", "tuple"]), [gen_tree(rng, rng.choice([0, 1, 2, 3]), counter, True) for _ in range(n)]]


def tree_leaves(t):
    return [t] if isinstance(t, int) else [x for c in t for x in tree_leaves(c)]


def arg_leaves(arg):
    if arg[0] == "part":
        return [arg[1]]
    if arg[0] == "other":
        return None
    return [x for t in arg[1] for x in tree_leaves(t)]


class _Objs:
    """label -> Part / PerformedPart, created on demand"""

    def __init__(self, typ):
        self.typ = typ
        self.by_label = {}

    def get(self, l):
        import partitura.performance as P
        import partitura.score as S

        if l not in self.by_label:
            if self.typ == "score":
                p = S.Part("P%d" % l, quarter_duration=1)
                p.add(S.Note("C", 4, id="n%d" % l, voice=1), 0, 1)
                self.by_label[l] = p
            else:
                self.by_label[l] = P.PerformedPart([{"midi_pitch": 30 + l % 90, "note_on": 0.0, "note_off": 1.0, "velocity": 64, "id": "n%d" % l}], id="PP%d" % l)
        return self.by_label[l]

    def label(self, o):
        for l, x in self.by_label.items():
            if x is o:
                return l
        return -1


def build_from_arg(typ, arg, objs):
    """-> the container, or raises what the constructor raises"""
    import partitura.performance as P
    import partitura.score as S

    def tree(t):
        if isinstance(t, int):
            return objs.get(t)
        g = S.PartGroup(group_symbol="bracket", group_name="g", number=1)
        g.children = [tree(c) for c in t]
        for c in g.children:
            c.parent = g
        return g

    if arg[0] == "other":
        a = 5
    elif arg[0] == "part":
        a = objs.get(arg[1])
    elif arg[0] == "group":
        a = tree(list(arg[1]))
    else:
        a = [tree(t) for t in arg[1]]
        if arg[0] == "tuple":
            a = tuple(a)
    if typ == "score":
        return S.Score(a, id="c")
    return P.Performance(a, id="c", ensure_unique_tracks=False)


def structure_leaves(c, objs):
    """the leaves of Score.part_structure in depth-first order, walked by the harness itself"""
    import partitura.score as S

    def walk(x):
        if isinstance(x, S.PartGroup):
            return [l for ch in x.children for l in walk(ch)]
        return [objs.label(x)]

    if hasattr(c, "part_structure"):
        return [l for x in c.part_structure for l in walk(x)]
    return [objs.label(x) for x in c.performedparts]


def run_mhistory(typ, arg, hist):
    """-> None when the constructor raised, else (observed results, parts at construction, structure leaves at
    construction, container consistent at the end: None or the ProtocolError text)"""
    objs = _Objs(typ)
    try:
        c = build_from_arg(typ, arg, objs)
    except Exception:
        return None
    parts0 = [objs.label(c[i]) for i in range(len(c))]
    leaves0 = structure_leaves(c, objs)
    its = {}
    out = []
    for o in hist:
        try:
            if o[0] == "iter":
                its[o[1]] = iter(c)
                out.append(("iter",))
            elif o[0] == "next":
                try:
                    out.append(("yield", objs.label(next(its[o[1]]))))
                except StopIteration:
                    out.append(("stop",))
            elif o[0] == "len":
                out.append(("len", len(c)))
            elif o[0] == "get":
                try:
                    out.append(("item", objs.label(c[o[1]])))
                except IndexError:
                    out.append(("indexerror",))
            elif o[0] == "set":
                try:
                    c[o[1]] = objs.get(o[2])
                    out.append(("set",))
                except IndexError:
                    out.append(("setindexerror",))
        except Exception as e:
            out.append(("other", type(e).__name__))
    try:
        protocol_probe(c)
        final = None
    except ProtocolError as e:
        final = str(e)
    except Exception as e:
        final = "probe raised %s" % type(e).__name__
    return out, parts0, leaves0, final


def oracle_mhistory(arg, hist):
    """independent Python statement: every handle has its own cursor over the CURRENT items; results of next() on a
    handle bound before the latest successful item assignment are not constrained (None = masked)."""
    items = list(arg_leaves(arg))
    n = len(items)
    cur, born, gen = {}, {}, 0
    out = []
    for o in hist:
        if o[0] == "iter":
            cur[o[1]] = 0
            born[o[1]] = gen
            out.append(("iter",))
        elif o[0] == "next":
            k = o[1]
            if cur[k] < n:
                r = ("yield", items[cur[k]])
                cur[k] += 1
            else:
                r = ("stop",)
            out.append(r if born[k] == gen else None)
        elif o[0] == "len":
            out.append(("len", n))
        elif o[0] == "get":
            out.append(("item", items[o[1]]) if -n <= o[1] < n else ("indexerror",))
        else:
            if -n <= o[1] < n:
                items[o[1]] = o[2]
                gen += 1
                out.append(("set",))
            else:
                out.append(("setindexerror",))
    return out


def mhist_agrees(obs, exp):
    return len(obs) == len(exp) and all((e is None and o[0] in ("yield", "stop")) or o == e for o, e in zip(obs, exp))


def gen_mhistory(rng, n, length, handles=3):
    hist = []
    bound = set()
    fresh = [100]
    for _ in range(length):
        r = rng.random()
        if r < 0.17 or not bound and r < 0.45:
            k = rng.randrange(handles)
            bound.add(k)
            hist.append(["iter", k])
        elif r < 0.62 and bound:
            hist.append(["next", rng.choice(sorted(bound))])
        elif r < 0.70:
            hist.append(["len"])
        elif r < 0.82:
            hist.append(["get", rng.randint(-n - 2, n + 1)])
        else:
            if rng.random() < 0.25 and n > 0:
                lab = rng.randrange(n)  # an object that is in the container already
            else:
                lab = fresh[0]
                fresh[0] += 1
            hist.append(["set", rng.randint(-n - 1, n), lab])
    return hist


def coq_tree(t):
    return "(PLeaf %s)" % cz(t) if isinstance(t, int) else "(PGroup %s)" % ("(@nil (ptree Z))" if not t else clist([coq_tree(c) for c in t]))


def coq_arg(arg):
    if arg[0] == "other":
        return "(@ArgOther Z)"
    if arg[0] == "part":
        return "(ArgPart %s)" % cz(arg[1])
    ts = "(@nil (ptree Z))" if not arg[1] else clist([coq_tree(t) for t in arg[1]])
    return "(%s %s)" % ("ArgGroup" if arg[0] == "group" else "ArgList", ts)


def coq_mop(o):
    if o[0] == "set":
        return "(MSet %s %s)" % (cz(o[1]), cz(o[2]))
    return "(MO %s)" % coq_op(o)


def coq_mres(r):
    if r[0] == "set":
        return "MSetDone"
    if r[0] == "setindexerror":
        return "MSetIndexError"
    return "(MR %s)" % coq_res(r)


def czlist(xs):
    return "(@nil Z)" if not xs else clist([cz(x) for x in xs])


def mhist_term(arg, hist, obs):
    return ctuple([coq_arg(arg), "(@nil (mop Z))" if not hist else clist([coq_mop(o) for o in hist]),
                   "(@nil (mres Z))" if not obs else clist([coq_mres(r) for r in obs])])


# ---------------------------------------------------------------------------------------
# 6c. Containers DERIVED from a generated score / performance: the Score returned by unfold_part_maximal / minimal,
# transpose, copy.deepcopy; a Score / Performance after an item assignment.  Items are labelled by their position in
# [c[0] .. c[len(c)-1]] taken when the container is handed over.

DERIVED = ["unfold_part_maximal", "unfold_part_minimal", "transpose", "deepcopy", "setitem", "setitem_perf"]


def build_derived(spec):
    import copy

    import partitura.score as S
    from partitura.utils.music import transpose

    how = spec["how"]
    if how == "setitem_perf":
        c = build_perf(spec["perf"])
        c[spec["index"] % len(c)] = build_ppart(spec["other"])
        return c
    sc, _, _ = build_score(spec["score"])
    if how == "unfold_part_maximal":
        return S.unfold_part_maximal(sc)
    if how == "unfold_part_minimal":
        return S.unfold_part_minimal(sc)
    if how == "transpose":
        return transpose(sc, S.Interval(2, "M", "up"))
    if how == "deepcopy":
        return copy.deepcopy(sc)
    if how == "setitem":
        sc[spec["index"] % len(sc)] = build_part(spec["other"])
        return sc
    raise ValueError(how)


def gen_derived_spec(rng, how):
    if how == "setitem_perf":
        return {"type": "derived", "how": how, "perf": gen_perf_spec(rng), "other": gen_ppart_spec(rng, "PPx"), "index": rng.randrange(6)}
    ss = gen_score_spec(rng)
    ss["as"] = "Score"
    if how.startswith("unfold") and rng.random() < 0.7:
        # at least one part that really unfolds to something else
        ss["parts"][0]["repeats"] = ss["parts"][0]["repeats"] or [[0, ss["parts"][0]["beats"] * ss["parts"][0]["q"]]]
    if rng.random() < 0.6 and len(ss["parts"]) >= 2:
        ss["group"] = True
    spec = {"type": "derived", "how": how, "score": ss}
    if how == "setitem":
        spec["other"] = gen_part_spec(rng, "Px", n_meas=2)
        spec["index"] = rng.randrange(6)
    return spec


# ---------------------------------------------------------------------------------------
# 6d. Shallow copy + reference replacement on real Note / Slur / Tuplet objects (the mechanism of unfolding a Part:
# ScoreVariant.create_variant_part does  o_copy = copy(o); o_map[o] = o_copy  and later  o_copy.replace_refs(o_map)),
# observed as a heap and compared with Model.C20_Alias.variant FreshList.
#
# spec: {"notes": [{attr: target label | None | [labels]}], "links": [{"kind": "slur"|"tuplet", "start": l|None, "end": l|None}], "sel": [labels]}
# labels: notes 0..n-1, then the links.

NOTE_LISTS = ["slur_stops", "slur_starts", "tuplet_stops", "tuplet_starts"]


def gen_alias_spec(rng):
    nn = rng.randint(1, 5)
    nl = rng.randint(0, 4)
    notes = []
    for i in range(nn):
        # (ties point forward / backward in the population: no tie cycles, whose __str__ would recurse for ever)
        d = {"tie_prev": rng.randrange(i) if i > 0 and rng.random() < 0.35 else None,
             "tie_next": rng.randrange(i + 1, nn) if i + 1 < nn and rng.random() < 0.35 else None}
        for a in NOTE_LISTS:
            d[a] = [nn + rng.randrange(nl) for _ in range(rng.choice([0, 0, 1, 1, 2, 3]))] if nl else []
        notes.append(d)
    links = [{"kind": rng.choice(["slur", "tuplet"]), "start": rng.randrange(nn) if rng.random() < 0.85 else None,
              "end": rng.randrange(nn) if rng.random() < 0.85 else None} for _ in range(nl)]
    pop = list(range(nn + nl))
    rng.shuffle(pop)
    sel = pop[: rng.randint(0, len(pop))]
    return {"notes": notes, "links": links, "sel": sel}


def build_alias_population(spec):
    import partitura.score as S

    notes = [S.Note("C", 4, id="n%d" % i, voice=1) for i in range(len(spec["notes"]))]
    links = [(S.Slur() if l["kind"] == "slur" else S.Tuplet()) for l in spec["links"]]
    objs = notes + links
    for n, d in zip(notes, spec["notes"]):
        n.tie_prev = None if d["tie_prev"] is None else objs[d["tie_prev"]]
        n.tie_next = None if d["tie_next"] is None else objs[d["tie_next"]]
        for a in NOTE_LISTS:
            setattr(n, a, [objs[j] for j in d[a]])
    for o, l in zip(links, spec["links"]):
        # (the private attributes: the public setters register the link with the notes)
        o._start_note = None if l["start"] is None else objs[l["start"]]
        o._end_note = None if l["end"] is None else objs[l["end"]]
    return objs


def observe_heap(objs, list_addr, keep):
    """-> (objects: per object the values of its _ref_attrs, lists: address -> element labels); `list_addr` maps id(list) ->
    address and is extended in traversal order"""
    lab = {id(o): i for i, o in enumerate(objs)}
    rows = []
    for o in objs:
        row = []
        for a in o._ref_attrs:
            v = getattr(o, a)
            if v is None:
                row.append(("ref", None))
            elif isinstance(v, list):
                if id(v) not in list_addr:
                    list_addr[id(v)] = len(list_addr)
                    keep.append(v)
                row.append(("list", list_addr[id(v)]))
            else:
                row.append(("ref", lab.get(id(v), 4999)))
        rows.append(row)
    lists = [None] * len(list_addr)
    for v in keep:
        lists[list_addr[id(v)]] = [None if e is None else lab.get(id(e), 4999) for e in v]
    return rows, lists


def run_alias(spec):
    """copy the selected objects, replace the references of the copies (as create_variant_part does), observe the heap"""
    import copy
    import warnings

    objs = build_alias_population(spec)
    list_addr, keep = {}, []
    before = observe_heap(objs, list_addr, keep)
    copies = [copy.copy(objs[o]) for o in spec["sel"]]
    o_map = {}
    for o, c in zip(spec["sel"], copies):
        o_map[objs[o]] = c
    with warnings.catch_warnings():
        warnings.simplefilter("ignore")
        for c in copies:
            c.replace_refs(o_map)
    # number the lists the copies hold now (new ones in the order copy, attribute), then look at everything
    observe_heap(copies, list_addr, keep)
    after = observe_heap(objs + copies, list_addr, keep)
    return before, after


def coq_heap(h):
    rows, lists = h

    def attr(a):
        if a[0] == "list":
            return "(AList %s)" % cnat(a[1])
        return "(ARef %s)" % copt(a[1], cnat)

    return "(mk_aheap %s %s)" % ("(@nil (list attr))" if not rows else clist(["(@nil attr)" if not r else clist([attr(a) for a in r]) for r in rows]),
                                 "(@nil (list (option nat)))" if not lists else
                                 clist(["(@nil (option nat))" if not l else clist([copt(e, cnat) for e in l]) for l in lists]))


# ---------------------------------------------------------------------------------------
# 6e. Array views that copy: slice_notearray_by_time on integer note arrays (only *_div time columns, so that the
# comparison with Model.C20_Array.slice is exact).  rows = [onset_div, duration_div, pitch]


def gen_slice_case(rng):
    n = rng.choice([0, 1, 2, 3, 4, 5, 6, 8])
    rows = [[rng.randint(0, 20), rng.choice([0, 1, 2, 3, 6, 10]), rng.randint(40, 80)] for _ in range(n)]
    if rng.random() < 0.4:
        rows.sort()  # contiguous active rows (where returning a view is tempting)
    start = rng.randint(-2, 18)
    return {"rows": rows, "start": start, "stop": start + rng.randint(0, 12), "clip": rng.random() < 0.6}


def run_slice(case):
    from partitura.utils.music import slice_notearray_by_time

    na = np.array([tuple(r) for r in case["rows"]], dtype=[("onset_div", "i4"), ("duration_div", "i4"), ("pitch", "i4")])
    res = slice_notearray_by_time(na, case["start"], case["stop"], clip_onset_duration=case["clip"])

    def rows(a):
        return [[int(r["onset_div"]), int(r["duration_div"]), int(r["pitch"])] for r in a]

    return rows(res), rows(na)


def coq_rows(rs):
    return "(@nil (list Z))" if not rs else clist([clist([cz(x) for x in r]) for r in rs])


# ---------------------------------------------------------------------------------------
# 6c. save_performance_midi: argument dispatch; Performance(...): track renumbering (Model/C20_Track.v)

TRACK_KINDS = ["Performance", "PerformanceUnique", "PPart", "List", "List", "List", "Tuple", "ListForeign", "Other"]


def gen_track_case(rng):
    kind = rng.choice(TRACK_KINDS)
    style = rng.choice(["all_zero", "canonical", "mixed", "mixed", "sparse"])
    nparts = 1 if kind == "PPart" else 0 if kind == "Other" else rng.choice([0, 1, 2, 2, 2, 3])
    parts = []
    for i in range(nparts):
        pool = {"all_zero": [0], "canonical": [i], "mixed": [None, 0, 1, 2], "sparse": [None, 0, 3, 7]}[style]
        parts.append({"notes": [rng.choice(pool) for _ in range(rng.choice([0, 0, 1, 2, 3, 4]))],
                      "controls": [rng.choice(pool) for _ in range(rng.choice([0, 0, 1, 2]))],
                      "programs": [rng.choice(pool) for _ in range(rng.choice([0, 0, 0, 1]))]})
    return {"kind": kind, "style": style, "parts": parts, "foreign_at": rng.randint(0, nparts) if kind == "ListForeign" else None}


def build_track_parts(case):
    import partitura.performance as P

    pps = []
    for k, ps in enumerate(case["parts"]):
        def ev(base, t):
            if t is not None:
                base["track"] = t
            return base
        pps.append(P.PerformedPart(
            [ev({"midi_pitch": 60 + j, "note_on": 0.25 * j, "note_off": 0.25 * j + 0.25, "velocity": 64, "id": "n%d_%d" % (k, j)}, t)
             for j, t in enumerate(ps["notes"])], id="PP%d" % k,
            controls=[ev({"time": 0.25 * j, "number": 64, "value": 64}, t) for j, t in enumerate(ps["controls"])],
            programs=[ev({"time": 0.0, "program": 3 + j}, t) for j, t in enumerate(ps["programs"])]))
    return pps


def track_entries(pps):
    """the `track` entries of the notes / controls / programs of every part (None = key absent)"""
    def col(evs):
        return [e.get("track", None) for e in evs]
    return [[col(pp.notes), col(pp.controls), col(pp.programs)] for pp in pps]


def run_track(case):
    """-> (argument as the model sees it, outcome, entries afterwards, outcome of a second call, entries after it)"""
    import partitura.performance as P
    from partitura.io.exportmidi import save_performance_midi

    pps = build_track_parts(case)
    kind = case["kind"]
    if kind in ("Performance", "PerformanceUnique"):
        arg = P.Performance(pps, ensure_unique_tracks=(kind == "PerformanceUnique"))
    elif kind == "PPart":
        arg = pps[0]
    elif kind == "List":
        arg = list(pps)
    elif kind == "Tuple":
        arg = tuple(pps)
    elif kind == "ListForeign":
        arg = list(pps)
        arg.insert(case["foreign_at"], 5)
    else:
        arg = 5
    before = track_entries(pps)

    def call():
        try:
            mf = save_performance_midi(arg, None)
        except ValueError:
            return "ValueError"
        except IndexError:
            return "IndexError"
        return [sum(1 for m in t if m.type == "note_on") for t in mf.tracks]

    out1 = call()
    after1 = track_entries(pps)
    out2 = call()
    after2 = track_entries(pps)
    return before, out1, after1, out2, after2


def run_sanitize(case):
    """Performance(parts) on a fresh build: entries before, afterwards, num_tracks"""
    import partitura.performance as P

    pps = build_track_parts(case)
    before = track_entries(pps)
    perf = P.Performance(pps)
    return before, track_entries(pps), perf.num_tracks


def py_canonical(entries):
    """Model.C20_Track.canonical, independently: every event has a track entry and every (part, track) pair in use is numbered by its rank"""
    keys = sorted({(i, t) for i, e in enumerate(entries) for col in e for t in col if t is not None})
    return all(t is not None for e in entries for col in e for t in col) and all(k[1] == r for r, k in enumerate(keys))


def coq_pp(e):
    def tl(ts):
        return "(@nil (option Z))" if not ts else clist([copt(t, cz) for t in ts])
    return "(mk_pp %s %s %s)" % (tl(e[0]), tl(e[1]), tl(e[2]))


def coq_pps(es):
    return "(@nil ppart)" if not es else clist([coq_pp(e) for e in es])


def coq_track_arg(case, before):
    kind = case["kind"]
    if kind in ("Performance", "PerformanceUnique"):
        return "(APerformance %s)" % coq_pps(before)
    if kind == "PPart":
        return "(APPart %s)" % coq_pp(before[0])
    if kind == "Other":
        return "AOther"
    els = ["(Some %s)" % coq_pp(e) for e in before]
    if kind == "ListForeign":
        els.insert(case["foreign_at"], "None")
    return "(AIterable %s)" % ("(@nil (option ppart))" if not els else clist(els))


def coq_track_out(out):
    if out in ("ValueError", "IndexError"):
        return "O" + out
    return "(OFile %s)" % ("(@nil Z)" if not out else clist([cz(x) for x in out]))


# ---------------------------------------------------------------------------------------
# 6d. beat mode of a Part under histories of mode switches and exports (Model/C20_Beat.v)

BEAT_SIGS = [(6, 8), (4, 4), (3, 4), (9, 8), (12, 8), (2, 2), (5, 8)]


def gen_beat_case(rng):
    sigs = rng.sample(BEAT_SIGS, rng.choice([1, 2, 2, 3]))
    if rng.random() < 0.25:
        sigs.append(sigs[0])  # the same signature again later in the piece

    def table():
        if rng.random() < 0.2:
            return []
        keys = [sg for sg in sigs if rng.random() < 0.6]
        if rng.random() < 0.3:
            keys.append((7, 4))  # a key no time signature of the part has
        out = []
        for b, bt in keys:
            if (b, bt) not in [(x, y) for x, y, _ in out]:
                out.append((b, bt, rng.choice([1, 2, 3, b, 2 * b])))
        return out

    hist = []
    for _ in range(rng.choice([2, 3, 4, 5, 6])):
        r = rng.random()
        hist.append(["musical", table()] if r < 0.35 else ["notated"] if r < 0.5 else ["table", table()] if r < 0.65 else ["export", rng.choice(["midi_ts", "midi", "arrays"])])
    if rng.random() < 0.5:  # the shape seed j needs: musical beats with a user table, then the export
        hist = [["musical", table() or [(sigs[0][0], sigs[0][1], 3)]], ["export", "midi_ts"]] + hist[:3]
    return {"sigs": sigs, "measures": rng.choice([1, 2]), "pickup": rng.random() < 0.5, "history": hist}


class CpuGuard(object):
    """CPU-time guard (ITIMER_VIRTUAL, never wall clock) around one call; raises _CpuTimeout (a BaseException)"""

    def __init__(self, seconds):
        self.seconds, self.on = seconds, False

    def __enter__(self):
        import signal
        try:
            signal.signal(signal.SIGVTALRM, _on_vtalrm)
            signal.setitimer(signal.ITIMER_VIRTUAL, self.seconds)
            self.on = True
        except (ValueError, OSError):
            pass  # not the main thread
        return self

    def __exit__(self, *exc):
        import signal
        if self.on:
            signal.setitimer(signal.ITIMER_VIRTUAL, 0)
        return False


def build_beat_part(case):
    import partitura.score as S

    part = S.Part("P0", "beat", quarter_duration=8)
    t, number = 0, 1
    for k, (b, bt) in enumerate(case["sigs"]):
        part.add(S.TimeSignature(b, bt), t)
        full = b * 32 // bt
        for m in range(case["measures"]):
            ln = 32 // bt if (k == 0 and m == 0 and case["pickup"]) else full
            part.add(S.Measure(number=number), t, t + ln)
            part.add(S.Note(step="C", octave=4, voice=1, id="n%d" % number), t, t + ln)
            number += 1
            t += ln
    return part


def beat_state(part):
    import partitura.score as S

    return [bool(part._use_musical_beat), [[int(ts.beats), int(ts.beat_type), int(ts.musical_beats)] for ts in part.iter_all(S.TimeSignature)]]


def run_beat(case):
    """-> (state at the start, [state after each operation], [exception type of each export or None])"""
    import warnings
    from partitura.io.exportmidi import save_score_midi

    part = build_beat_part(case)
    start = beat_state(part)
    states, raised = [], []
    with warnings.catch_warnings():
        warnings.simplefilter("ignore")
        for op in case["history"]:
            if op[0] == "musical":
                part.use_musical_beat({"%d/%d" % (b, bt): m for b, bt, m in op[1]})
            elif op[0] == "notated":
                part.use_notated_beat()
            elif op[0] == "table":
                part.set_musical_beat_per_ts({"%d/%d" % (b, bt): m for b, bt, m in op[1]})
            else:
                try:
                    with CpuGuard(10):
                        if op[1] == "midi_ts":
                            save_score_midi(part, None, anacrusis_behavior="time_sig_change")
                        elif op[1] == "midi":
                            save_score_midi(part, None)
                        else:
                            part.note_array(include_metrical_position=True, include_time_signature=True)
                            part.beat_map(part.last_point.t)
                    raised.append(None)
                except _CpuTimeout:
                    raised.append("CpuTimeout")
                except Exception as e:
                    raised.append(type(e).__name__)
            states.append(beat_state(part))
    return start, states, raised


def coq_bstate(st):
    return "(%s, %s)" % (cbool(st[0]), "(@nil tsig)" if not st[1] else clist(["(mk_ts %s %s %s)" % (cz(b), cz(t), cz(m)) for b, t, m in st[1]]))


def coq_bop(op):
    def tbl(t):
        return "(@nil (Z * Z * Z))" if not t else clist([ctuple([cz(b), cz(bt), cz(m)]) for b, bt, m in t])
    return {"musical": lambda: "(BMusical %s)" % tbl(op[1]), "notated": lambda: "BNotated", "table": lambda: "(BSetTable %s)" % tbl(op[1]),
            "export": lambda: "BExport"}[op[0]]()


# ---------------------------------------------------------------------------------------
# 7. Negative side: documented in-place operations change the fingerprint; and the
# fingerprint is sensitive to every kind of small direct write (self-test of the observer).


def inplace_ops():
    import partitura.score as S

    def first_note(p):
        return next(iter(p.iter_all(S.Note)), None)

    def op_add(p):
        p.add(S.Note("C", 4, voice=1), 0, 1)

    def op_remove(p):
        p.remove(first_note(p))

    def op_set_q(p):
        p.set_quarter_duration(int(p.last_point.t) + 1, int(p._quarter_durations[-1]) + 1)

    must = {
        "Part.add": (op_add, lambda p: True),
        "Part.remove": (op_remove, lambda p: first_note(p) is not None),
        "add_measures": (S.add_measures, lambda p: not list(p.iter_all(S.Measure)) and list(p.iter_all(S.TimeSignature))),
        "use_musical_beat": (lambda p: p.use_musical_beat(), lambda p: not p._use_musical_beat),
        "add_segments": (S.add_segments, lambda p: not list(p.iter_all(S.Segment))),
        "set_quarter_duration": (op_set_q, lambda p: True),
    }
    may = {
        "tie_notes": S.tie_notes,
        "find_tuplets": S.find_tuplets,
        "fill_rests": lambda p: S.fill_rests(p),
        "merge_parts": lambda p: S.merge_parts([p, p]) if False else S.merge_parts([p]),
        "sanitize_part": S.sanitize_part,
        "remove_grace_notes": S.remove_grace_notes,
        "assign_note_ids": lambda p: S.assign_note_ids([p], keep=False),
        "use_notated_beat": lambda p: p.use_notated_beat(),
    }
    return must, may


def direct_writes(kind, args):
    """small direct writes on the argument -> list of (name, thunk); thunk returns False when not applicable."""
    import copy

    import partitura.performance as P
    import partitura.score as S

    W = []
    kind = family(kind) if kind in ALL_KINDS else kind
    if kind == "na":
        na = args[0]

        def w(name, cond, f):
            W.append((name, (lambda: (f() or True) if cond else False)))

        w("note array element", len(na) > 0, lambda: na["pitch"].__setitem__(0, int(na["pitch"][0]) % 127 + 1))
        fld = [f for f in na.dtype.names if f.startswith("onset")][0]
        w("note array onset", len(na) > 0, lambda: na[fld].__setitem__(len(na) - 1, na[fld][-1] + 1))
        w("note array order", len(na) > 1 and na[0] != na[-1], lambda: na.__setitem__(slice(None), na[::-1].copy()))
    elif kind == "notelist":
        nl, part = args

        def w(name, cond, f):
            W.append((name, (lambda: (f() or True) if cond else False)))

        w("note list order", len(nl) > 1 and nl[0] is not nl[-1], lambda: nl.reverse())
        w("note list length", len(nl) > 0, lambda: nl.pop())
        w("note list element voice", len(nl) > 0, lambda: setattr(nl[-1], "voice", (nl[-1].voice or 0) + 1))
        w("part of the note list: part_name", True, lambda: setattr(part, "part_name", "renamed"))
    elif kind == "score":
        x = args[0]
        parts = _parts_of(x)
        p = parts[0]
        notes = list(p.iter_all(S.Note))

        def w(name, cond, f):
            W.append((name, (lambda: (f() or True) if cond else False)))

        n0 = notes[0] if notes else None
        w("note.voice", n0, lambda: setattr(n0, "voice", (n0.voice or 0) + 1))
        w("note.id", n0, lambda: setattr(n0, "id", "zz"))
        w("note.staff", n0, lambda: setattr(n0, "staff", (n0.staff or 0) + 1))
        w("note.alter", n0, lambda: setattr(n0, "alter", (n0.alter or 0) + 1))
        w("note.symbolic_duration", n0, lambda: setattr(n0, "symbolic_duration", {"type": "long", "dots": 3}))
        # (the getter returns a fresh estimate when no symbolic duration is stored: write the stored dict)
        w("note.symbolic_duration[dots]", n0 is not None and isinstance(getattr(n0, "_sym_dur", None), dict),
          lambda: n0._sym_dur.__setitem__("dots", 7))
        w("note.tie_next", len(notes) > 1, lambda: setattr(notes[0], "tie_next", notes[-1] if notes[0].tie_next is not notes[-1] else None))
        w("note.new_attribute", n0, lambda: setattr(n0, "cached_thing", 1))
        w("timepoint.quarter", len(p._points) > 0, lambda: setattr(p._points[0], "quarter", (p._points[0].quarter or 0) + 1))
        w("timepoint.next", len(p._points) > 1, lambda: setattr(p._points[0], "next", None))
        w("timepoint.prev", len(p._points) > 1, lambda: setattr(p._points[1], "prev", None))

        def free_t():
            ts = [tp.t for tp in p._points]
            for a, b in zip(ts, ts[1:]):
                if b - a > 1:
                    return int(a) + 1
            return (int(ts[-1]) if ts else 0) + 1

        # what a careless lookup does: part.get_or_add_point(t) at a time where nothing starts or ends
        w("time point inserted where nothing starts or ends", True, lambda: p.get_or_add_point(free_t()))
        w("time point: int time replaced by the equal float", len(p._points) > 0 and isinstance(p._points[-1].t, int),
          lambda: setattr(p._points[-1], "t", float(p._points[-1].t)))
        w("part._quarter_times", True, lambda: p._quarter_times.append(10 ** 6))
        w("part.part_name", True, lambda: setattr(p, "part_name", "renamed"))
        w("part._quarter_durations", True, lambda: p._quarter_durations.append(99))
        w("part.new_attribute", True, lambda: setattr(p, "_cache", {}))
        tp_multi = [tp for tp in p._points for cls, objs in tp.starting_objects.items() if len(objs) > 1]

        def reorder():
            tp = tp_multi[0]
            for cls, objs in tp.starting_objects.items():
                if len(objs) > 1:
                    items = list(objs)
                    objs.clear()
                    for o in reversed(items):
                        objs.add(o)
                    return

        w("order of objects in a time point", tp_multi, reorder)

        def replace_by_copy():
            o = n0
            c = copy.copy(o)
            tbl = o.start.starting_objects[type(o)]
            items = [c if z is o else z for z in tbl]
            tbl.clear()
            for z in items:
                tbl.add(z)

        w("object replaced by an equal copy (identity)", n0, replace_by_copy)
        slurs = [sl for sl in p.iter_all(S.Slur) if sl.end_note is not None]
        w("slur.end_note", slurs, lambda: setattr(slurs[0], "end_note", None))
        meas = list(p.iter_all(S.Measure))
        w("measure.number", meas, lambda: setattr(meas[0], "number", (meas[0].number or 0) + 100))
        if isinstance(x, S.PartGroup):
            w("partgroup.group_name", True, lambda: setattr(x, "group_name", "other"))
            w("partgroup.children order", len(x.children) > 1, lambda: x.children.reverse())
        if isinstance(x, list):
            w("argument list order", len(x) > 1 and x[0] is not x[-1], lambda: x.reverse())
            w("argument list length", len(x) > 0, lambda: x.pop())
            pl = parts[-1]
            w("last part of the list: part_name", True, lambda: setattr(pl, "part_name", "renamed"))
        if isinstance(x, S.Score):
            w("score.title", True, lambda: setattr(x, "title", "other"))
            w("score.iter_idx (new attribute)", True, lambda: setattr(x, "iter_idx", 0))
            w("score.parts order", len(x.parts) > 1 and x.parts[0] is not x.parts[-1], lambda: x.parts.reverse())
    elif kind == "perf":
        x = args[0]
        pps = _pparts_of(x)
        pp = pps[0]

        def w(name, cond, f):
            W.append((name, (lambda: (f() or True) if cond else False)))

        w("pnote velocity", pp.notes, lambda: pp.notes[0].pnote_dict.__setitem__("velocity", pp.notes[0]["velocity"] % 127 + 1))
        w("pnote new key", pp.notes, lambda: pp.notes[0].pnote_dict.__setitem__("note_on_tick", 5))
        w("control value", pp.controls, lambda: pp.controls[0].__setitem__("value", (pp.controls[0]["value"] + 1) % 128))
        w("controls order", len(pp.controls) > 1 and pp.controls[0] != pp.controls[-1], lambda: pp.controls.reverse())
        w("notes order", len(pp.notes) > 1, lambda: pp.notes.reverse())
        w("time signature entry", pp.time_signatures, lambda: pp.time_signatures[0].__setitem__("time_tick", 3))
        w("meta event entry", pp.meta_other, lambda: pp.meta_other[-1].__setitem__("track", 5))
        w("ppart.id", True, lambda: setattr(pp, "id", "other"))
        w("ppart._sustain_pedal_threshold", True, lambda: setattr(pp, "_sustain_pedal_threshold", pp._sustain_pedal_threshold + 1))
        if isinstance(x, P.Performance):
            w("performance.iter_idx (new attribute)", True, lambda: setattr(x, "iter_idx", 0))
            w("performance.title", True, lambda: setattr(x, "title", "other"))
    elif kind == "align":
        al, ppart, part = args
        sp = _parts_of(part)[0]
        sn = list(sp.iter_all(S.Note))
        ppn = _pparts_of(ppart)[0]

        def w(name, cond, f):
            W.append((name, (lambda: (f() or True) if cond else False)))

        w("alignment label", al, lambda: al[0].__setitem__("label", "x"))
        w("alignment score_id", [a for a in al if "score_id" in a],
          lambda: [a for a in al if "score_id" in a][0].__setitem__("score_id", "q-1"))
        w("alignment length", al, lambda: al.pop())
        w("alignment element replaced by equal dict (identity)", al, lambda: al.__setitem__(0, dict(al[0])))
        w("score note id (second argument)", sn, lambda: setattr(sn[0], "id", "zz"))
        w("performed note velocity (third argument)", ppn.notes, lambda: ppn.notes[0].pnote_dict.__setitem__("velocity", ppn.notes[0]["velocity"] % 127 + 1))
    return W


# ---------------------------------------------------------------------------------------
# 8. The check

FIXTURES = [
    {"kind": "file", "loader": "score", "path": "musicxml/test_unfold_timeline.xml"},
    {"kind": "file", "loader": "score", "path": "musicxml/test_unfold_complex.xml"},
    {"kind": "file", "loader": "score", "path": "musicxml/test_unfold_dacapo.xml"},
    {"kind": "file", "loader": "score", "path": "musicxml/test_unfold_volta_numbers.xml"},
    {"kind": "file", "loader": "score", "path": "musicxml/test_note_ties.xml"},
    {"kind": "file", "loader": "score", "path": "musicxml/test_tuplet_attributes.musicxml"},
    {"kind": "file", "loader": "score", "path": "musicxml/test_part_group.xml", "thorough": True},
    {"kind": "file", "loader": "score", "path": "musicxml/mozart_k265_var1.musicxml", "thorough": True},
    {"kind": "file", "loader": "score", "path": "midi/test_basic_midi.mid"},
    {"kind": "file", "loader": "perf", "path": "midi/mozart_k265_var1.mid"},
    {"kind": "file", "loader": "match", "path": "match/mozart_k265_var1.match"},
    # the same files given as other argument kinds
    {"kind": "file", "loader": "score", "path": "musicxml/test_unfold_volta_numbers.xml", "as": "PartList"},
    {"kind": "file", "loader": "score", "path": "musicxml/test_note_ties.xml", "as": "Part"},
    {"kind": "file", "loader": "score", "path": "musicxml/test_part_group.xml", "as": "GroupList", "thorough": True},
    {"kind": "file", "loader": "perf", "path": "midi/mozart_k265_var1.mid", "as": "PPartList", "thorough": True},
    {"kind": "file", "loader": "match", "path": "match/mozart_k265_var1.match", "as": "AlignScore", "thorough": True},
]

K1 = "C20-K1"


def _k1_matcher(obj):
    """unfold_part_alignment renames the score ids of the alignment it is given (appends '-1'):
    exactly that entry point, exactly that argument, exactly that rewrite."""
    f = obj.get("finding", {})
    return (obj.get("kind") == "footprint" and f.get("type") == "mutates" and f.get("entry") == "unfold_part_alignment"
            and f.get("fields") == ["arg0[]"] and f.get("alignment_rename_only") is True)


def make_schedule(rng, names, tier_rounds):
    """each entry once, twice in a row, then `tier_rounds` seeded random orders of all entries."""
    sched = []
    first = list(names)
    rng.shuffle(first)
    for n in first:
        sched += [n, n]
    for _ in range(tier_rounds):
        perm = list(names)
        rng.shuffle(perm)
        sched += perm
    return sched


def _alignment_rename_only(before, after):
    if len(before) != len(after):
        return False
    changed = False
    for b, a in zip(before, after):
        if a == b:
            continue
        if set(a) != set(b) or "score_id" not in b:
            return False
        if any(a[k] != b[k] for k in b if k != "score_id") or a["score_id"] != "%s-1" % b["score_id"]:
            return False
        changed = True
    return changed


def check_case(case, schedule, prm, fresh):
    """run_case + the extra shape information needed by the known-finding matcher."""
    findings, trace, results, akind = run_case(case, schedule, prm, fresh_checks=fresh)
    for f in findings:
        if f["type"] == "mutates" and f["entry"] == "unfold_part_alignment" and f["fields"] == ["arg0[]"]:
            # recompute on a fresh build to see exactly what was rewritten
            kind, args = build_case(case)
            before = [dict(a) for a in args[0]]
            call_entry("unfold_part_alignment", args, prm)
            f["alignment_rename_only"] = _alignment_rename_only(before, args[0])
    return findings, trace, results, akind


def shrink_schedule(case, schedule, prm, finding):
    def fails(sub):
        try:
            fs = run_case(case, sub, prm)[0]
        except Exception:
            return False
        return any(f["type"] == finding["type"] and f["entry"] == finding["entry"] and f["fields"] == finding["fields"] for f in fs)

    try:
        upto = schedule[: finding["step"] + 1] if finding.get("step", -1) >= 0 else list(schedule)
        if fails(upto):
            return core.ddmin(upto, fails)
    except Exception:
        pass
    return list(schedule)


def _same_finding(f, finding):
    return f["type"] == finding["type"] and f["entry"] == finding["entry"] and (f["fields"] == finding["fields"] or set(f["fields"]) & set(finding["fields"]))


def shrink_case(case, schedule, prm, finding, budget=260, cpu=25.0):
    """greedy reduction of a generated score-side case that keeps the finding (same type, entry point, an overlapping write set):
    fewer parts, no links / directions / navigation, fewer notes and rests, fewer timeline features.  -> (case, finding on it)"""
    import copy
    import time

    if case.get("kind") != "score":
        return case, None
    t0 = time.process_time()
    n = [0]

    def check(c):
        n[0] += 1
        try:
            fs = run_case(c, schedule, prm)[0]
        except Exception:
            return None
        for f in fs:
            if _same_finding(f, finding):
                return f
        return None

    def candidates(c):
        spec = c["spec"]
        if len(spec["parts"]) > 1:
            for i in range(len(spec["parts"])):
                d = copy.deepcopy(c)
                del d["spec"]["parts"][i]
                d["spec"]["nested_group"] = False
                yield d
        for key in ("na_flags",):
            if spec.get(key):
                d = copy.deepcopy(c)
                d["spec"][key] = []
                yield d
        for pi, ps in enumerate(spec["parts"]):
            for key in ("slurs", "tuplets", "ties", "dirs", "clefs", "repeats", "endings", "nav", "attrs_at", "open", "zero"):
                if ps.get(key):
                    d = copy.deepcopy(c)
                    d["spec"]["parts"][pi][key] = []
                    d["spec"]["parts"][pi].pop("link_cluster", None)
                    yield d
            for key in ("keysig", "ts2", "mb_table", "musical_beat", "segments", "pickup", "float_times", "name"):
                if ps.get(key):
                    d = copy.deepcopy(c)
                    d["spec"]["parts"][pi][key] = None if key in ("keysig", "name", "float_times") else False
                    if key == "ts2":
                        d["spec"]["parts"][pi].pop("ts2")
                    yield d
            if ps.get("staves", 1) > 1:
                d = copy.deepcopy(c)
                d["spec"]["parts"][pi]["staves"] = 1
                for o in d["spec"]["parts"][pi]["notes"] + d["spec"]["parts"][pi]["rests"]:
                    o["staff"] = 1
                yield d
            for k in range(len(ps.get("qchanges", []))):
                d = copy.deepcopy(c)
                del d["spec"]["parts"][pi]["qchanges"][k]
                yield d
            if not (ps.get("slurs") or ps.get("tuplets") or ps.get("ties")):
                for key in ("notes", "rests"):
                    m = len(ps[key])
                    if m > 4:
                        for lo, hi in ((0, m // 2), (m // 2, m)):
                            d = copy.deepcopy(c)
                            del d["spec"]["parts"][pi][key][lo:hi]
                            yield d
                    for k in range(m):
                        d = copy.deepcopy(c)
                        del d["spec"]["parts"][pi][key][k]
                        yield d

    cur, best = copy.deepcopy(case), None
    progress = True
    while progress and n[0] < budget and time.process_time() - t0 < cpu:
        progress = False
        for d in candidates(cur):
            if n[0] >= budget or time.process_time() - t0 > cpu:
                break
            f = check(d)
            if f is not None:
                cur, best, progress = d, f, True
                break
    if best is None:
        best = check(cur)
    return cur, best


def describe_case(case):
    """one line about a (shrunk) generated score-side argument, for the violation text"""
    if case.get("kind") != "score":
        return ""
    out = []
    for ps in case["spec"]["parts"][:2]:
        off = ps.get("offset", 0)
        d = ["Part(quarter_duration=%s), %s/4, %d measure(s)%s" % (ps["q"], ps["beats"], ps["n_meas"], "" if ps.get("measures") else " (no Measure objects)")]
        if off:
            d.append("all times shifted by %s" % off)
        if ps.get("qchanges"):
            d.append("set_quarter_duration%s (%s)" % ("".join("(%s, %s)" % tuple(c) for c in ps["qchanges"]), ps.get("qstage")))
        d.append("notes [start, end) %s" % ["%s-%s" % (n["t"] + off, n["t"] + n["d"] + off) for n in ps["notes"]][:12])
        if ps["rests"]:
            d.append("rests %s" % ["%s-%s" % (n["t"] + off, n["t"] + n["d"] + off) for n in ps["rests"]][:8])
        for key in ("attrs_at", "open", "zero", "trim", "float_times", "pickup"):
            if ps.get(key):
                d.append("%s=%s" % (key, json.dumps(ps[key])))
        out.append("; ".join(d))
    return (" | argument: " + " || ".join(out))[:700]


def dz(hexdigest):
    return int(hexdigest[:15], 16)


def run(ctx):
    import partitura.score as S

    quick = ctx.tier != "thorough"
    ctx.rule = ("footprint cases: generated scores (1-3 parts, 2-6 measures, voices/chords/ties/slurs/tuplets/grace notes, 40% of parts with a "
                "cluster of 2-3 slurs/tuplets stopping or starting at the same note created against their number order, notes with and "
                "without symbolic durations/ids/staff, optional measures, 80% with navigation: repeat, volta 1/2, repeat+Fine+D.C., "
                "segno/coda, two repeats; 30% of parts with add_segments called beforehand; part groups, also nested), performances (1-3 performed "
                "parts, notes in onset order or not, controls, programs, hand-built time/key signatures and meta events), alignments (part + derived "
                "performance), plus fixture files. The ARGUMENT KIND goes round robin per family: Score, Part, PartGroup, list of Parts, list with "
                "PartGroups, score note array | Performance, PerformedPart, list of PerformedParts, performance note array | (alignment, "
                "PerformedPart, Part), (alignment, Performance, Score), (alignment, [PerformedPart], [Part]), (alignment, PerformedPart, PartGroup). "
                "Every read-only entry point is given the argument as it is for every kind of its family (where it raises, the argument must still "
                "be unchanged and the same exception type raised again); it is called once, twice in a row and in 1 (quick) / 3 (thorough) seeded "
                "random orders with a deep fingerprint of all arguments before and after every call, and on a fresh build; the footprint is "
                "tabulated per (entry point, argument kind). distinct non-trivial = distinct (argument spec, entry point) pairs whose call returned "
                "normally; plus distinct container histories that contain at least two live iterators. history cases: random interleavings of "
                "iter/next/len/index over real Score/Performance objects with 0-5 parts (incl. the same part twice) and all valid histories up to "
                "length 4 (quick) / 6 (thorough) over {iter 0, iter 1, next 0, next 1, len, c[-1]} on a two-part Score and Performance; client "
                "iteration (nested, zip(c, c), two live iterators, len/index during an iteration) on every generated Score / Performance and on every "
                "Score / Performance an entry point returns. mutable container: histories that also contain item assignments c[i] = part on Scores built "
                "from a Part, a PartGroup, lists / tuples of Parts and PartGroups nested up to depth 3 and on Performances (distinct non-trivial = "
                "distinct (constructor argument, history) with at least one successful assignment); the same read-only histories on containers derived "
                "from generated scores (returned by unfold_part_maximal / minimal, transpose, deepcopy; after c[i] = part). alias cases: populations of "
                "1-5 real Notes and 0-4 Slurs / Tuplets with ties and link lists, a random selection copied and reference-replaced (non-trivial = a "
                "copied object holds a non-empty list). slice cases: integer note arrays of 0-8 rows, windows before / inside / after the notes, 60% "
                "with clipping (non-trivial = clipping touches a selected row). Further argument kind: a caller's note list (given / reversed / "
                "shuffled) with its Part for note_array_from_note_list; note-array arguments start at 0 or later and come with and without "
                "track / channel fields; 20% of parts have a measure in which nothing starts, 25% polyphony inside a voice, 20% a pickup measure, "
                "15% use_musical_beat with a 6/8 signature.")
    ctx.trusted = ["Coq 8.16.1 kernel incl. vm_compute", "harness/props/c20.py: the fingerprint (what it reads of the objects), the generators and "
                   "the canonical form of results", "CPython object identity (id) while the objects are alive",
                   "that an entry point's footprint on the sampled arguments is representative (the footprints are OBSERVED, not proved)"]
    ctx.assumptions = ["empty per-class slots of TimePoint.starting_objects/ending_objects (created by every read through defaultdict) are not part "
                       "of the argument's state: unobservable through iter_starting/iter_ending/iter_all/iter_prev/iter_next/pretty/remove",
                       "an exception raised by an entry point is not a C20 violation by itself (the argument must still be unchanged and the "
                       "same exception type must be raised again)",
                       "an iterator created BEFORE an item assignment c[i] = part and advanced after it is not constrained beyond yielding or "
                       "stopping (the code shows the new item, a snapshot would satisfy the property as well); direct assignment to "
                       "score.parts / score.part_structure is not an operation of the protocol",
                       "what slice_notearray_by_time writes into a row when clipping is not compared (only that it is written into a copy)"]
    ctx.matchers[K1] = _k1_matcher

    ok, why = ctx.coq_props(expect_min=62)
    proof_ok = ok
    nviol0 = len(ctx.violations)

    # ---- (a) container protocol ------------------------------------------------------
    rng = ctx.rng
    hcases = []  # (spec, hist)
    n_rand = 400 if quick else 4000
    for i in range(n_rand):
        n = rng.choice([0, 1, 2, 2, 3, 3, 4, 5])
        labels = list(range(n))
        if n >= 2 and rng.random() < 0.15:
            labels[rng.randrange(1, n)] = labels[0]
        spec = {"type": rng.choice(["score", "performance"]), "labels": labels}
        hcases.append((spec, gen_history(rng, n, rng.randint(3, 40))))
    for typ in ("score", "performance"):
        for h in enum_histories(4 if quick else 6):
            hcases.append(({"type": typ, "labels": [0, 1]}, h))
    # the documented witnesses: nested loops
    for typ in ("score", "performance"):
        hcases.append(({"type": typ, "labels": [0, 1]},
                       [["iter", 0], ["next", 0], ["iter", 1], ["next", 1], ["next", 1], ["next", 1], ["next", 0], ["iter", 1],
                        ["next", 1], ["next", 1], ["next", 1], ["next", 0]]))
    # containers DERIVED from generated scores / performances: what unfold_part_maximal / minimal, transpose and deepcopy return for
    # a Score, and a Score / Performance after c[i] = part (every kind in every run)
    full_walk = [["iter", 0], ["next", 0], ["iter", 1], ["next", 1], ["len"], ["get", 0], ["get", -1], ["next", 0], ["next", 1], ["next", 0],
                 ["next", 1], ["next", 0], ["next", 1], ["next", 0], ["next", 1], ["get", 1], ["get", 2], ["get", -3], ["len"]]
    for r in range(2 if quick else 12):
        for how in DERIVED:
            dspec = gen_derived_spec(rng, how)
            hcases.append((dspec, full_walk if r == 0 else gen_history(rng, 3, rng.randint(8, 30))))
    terms = []
    hist_bad = []

    def show(spec):
        return "%s(%s)" % (spec["how"], "generated " + ("performance" if "perf" in spec else "score")) if spec["type"] == "derived" else spec["type"]

    for idx, (spec, hist) in enumerate(hcases):
        try:
            obs, unchanged, labels = run_history(spec, hist)
        except Exception as e:
            if spec["type"] != "derived":
                raise
            ctx.count("derived container could not be built/%s/%s" % (spec["how"], type(e).__name__))
            continue
        exp = oracle_history(labels, hist)
        ctx.evaluations += 1
        ctx.count("history/" + (spec["type"] if spec["type"] != "derived" else "derived/" + spec["how"]))
        live = len({o[1] for o in hist if o[0] == "iter"})
        if live >= 2:
            ctx.nontrivial(["hist", spec, hist])
        if obs != exp or not unchanged:
            hist_bad.append(idx)
            n_ans = sum(1 for v in ctx.violations[nviol0:] if "(and the container" not in v[0])
            n_fp = len(ctx.violations) - nviol0 - n_ans
            if (obs != exp and n_ans < 3) or (obs == exp and n_fp < 2):
                # shrink the history
                answers_wrong = obs != exp

                def fails(sub, spec=spec, answers_wrong=answers_wrong):
                    # shrink towards the same kind of failure (wrong answers before "container changed")
                    try:
                        o2, u2, l2 = run_history(spec, sub)
                        return o2 != oracle_history(l2, sub) if answers_wrong else not u2
                    except Exception:
                        return False
                small = core.ddmin(hist, fails) if fails(hist) else hist
                o2, u2, l2 = run_history(spec, small)
                ctx.violation("container protocol: %s with parts %s (labels = positions in [c[0] .. c[len-1]]; -1 = an object that is none of them), "
                              "history %s answered %s, expected %s%s"
                              % (show(spec), l2, small, o2, oracle_history(l2, small),
                                 "" if u2 else " (and the container's fingerprint changed)"),
                              {"kind": "history", "spec": spec, "history": small, "observed": [list(x) for x in o2],
                               "expected": [list(x) for x in oracle_history(l2, small)], "container_unchanged": u2})
        terms.append((idx, hist_term(labels, hist, obs)))
        if idx < 2:
            ctx.sample({"container": spec, "history": hist, "observed": [list(x) for x in obs]})
    term_idx = [i for i, _ in terms]
    terms = [t for _, t in terms]
    try:
        failing = [term_idx[i] for i in ctx.coq_failing("hist", "From PV Require Import Lib.Base Model.C20.", "", terms, "hist_ok", shard=600)]
        detail = "" if not failing else "cases %s e.g. %s" % (failing[:5], json.dumps(hcases[failing[0]], default=str)[:600])
    except RuntimeError as e:
        failing, detail = [-1], str(e)[-800:]
    ctx.obligation("correspondence: Score/Performance (built directly; returned by unfold_part_maximal/minimal, transpose, deepcopy of a Score; after "
                   "c[i] = part) answer %d interleaved iter/next/len/index histories exactly as Model.C20.run_fresh (Coq hist_ok)"
                   % len(terms), not failing, detail)
    ctx.obligation("direct oracle: every iterator handle visits every part once in order in all %d histories; container fingerprint unchanged" % len(hcases),
                   not hist_bad, hist_bad[:5])
    for i in failing:
        if i >= 0 and i not in hist_bad:
            spec, hist = hcases[i]
            obs, _, labels = run_history(spec, hist)
            ctx.violation("container protocol: implementation and Coq model disagree on %s parts %s history %s observed %s" % (show(spec), labels, hist, obs),
                          {"kind": "history", "spec": spec, "history": hist, "observed": [list(x) for x in obs]})
            break
    if failing == [-1]:
        ctx.violation("Coq evaluation of the container model failed: " + detail, {"kind": "coq"}, no_input=True)

    # ---- (a2) the container as a mutable object: construction from trees, item assignment ----------
    mcases = []  # (typ, arg, hist)
    for i in range(300 if quick else 3000):
        typ = rng.choice(["score", "score", "performance"])
        arg = gen_container_arg(rng, typ)
        leaves = arg_leaves(arg)
        mcases.append((typ, arg, [] if leaves is None else gen_mhistory(rng, len(leaves), rng.randint(2, 30))))
    # every bounded shape: all trees with up to 3 leaves nested up to depth 2 would be many; the shapes the dispatch distinguishes
    for typ, arg in (("score", ["part", 0]), ("score", ["group", [0, 1]]), ("score", ["group", [[0], [1, [2]]]]), ("score", ["list", [[0, 1], 2]]),
                     ("score", ["tuple", [0, [1]]]), ("score", ["list", []]), ("score", ["group", []]), ("score", ["list", [[], 0, [[]]]]),
                     ("performance", ["part", 0]), ("performance", ["list", [0, 1]]), ("performance", ["tuple", [0, 1, 0]]), ("score", ["other"]),
                     ("performance", ["other"])):
        n = len(arg_leaves(arg) or [])
        walk = [["set", 1, 50], ["iter", 0]] + [["next", 0]] * (n + 1) + [["get", j] for j in range(-n, n)] + [["len"], ["set", -1, 51], ["set", n, 52],
                                                                                                              ["iter", 1]] + [["next", 1]] * (n + 1)
        mcases.append((typ, arg, [] if arg[0] == "other" else walk))
    mterms, iterms, m_bad, init_bad, raised_bad = [], [], [], [], []
    for idx, (typ, arg, hist) in enumerate(mcases):
        ob = run_mhistory(typ, arg, hist)
        ctx.evaluations += 1
        ctx.count("mutable container/%s/%s%s" % (typ, arg[0], "" if arg[0] in ("part", "other") or all(isinstance(t, int) for t in arg[1]) else " with groups"))
        if ob is None:
            if arg[0] != "other":
                raised_bad.append(idx)
            mterms.append(mhist_term(arg, [], []))
            continue
        obs, parts0, leaves0, final = ob
        if arg[0] == "other":
            raised_bad.append(idx)
            continue
        nsets = sum(1 for r in obs if r == ("set",))
        ctx.count("mutable container/successful item assignments in the history: %s" % (nsets if nsets < 3 else "3+"))
        if nsets:
            ctx.nontrivial(["mhist", typ, arg, hist])
        exp = oracle_mhistory(arg, hist)
        if not mhist_agrees(obs, exp) or final is not None:
            m_bad.append(idx)
            if len(m_bad) <= 2:
                def mfails(sub, typ=typ, arg=arg):
                    bound = set()
                    for op in sub:  # a next() needs its iter()
                        if op[0] == "iter":
                            bound.add(op[1])
                        elif op[0] == "next" and op[1] not in bound:
                            return False
                    try:
                        o = run_mhistory(typ, arg, sub)
                        return o is not None and (not mhist_agrees(o[0], oracle_mhistory(arg, sub)) or o[3] is not None)
                    except Exception:
                        return False
                small = core.ddmin(hist, mfails) if mfails(hist) else hist
                o2 = run_mhistory(typ, arg, small)
                ctx.violation("container protocol after item assignment: %s built from %s, history %s answered %s, expected %s (None = not constrained)%s"
                              % (typ, arg, small, o2[0], oracle_mhistory(arg, small),
                                 "" if o2[3] is None else "; afterwards len / indexing / iteration of the container disagree: " + o2[3][:300]),
                              {"kind": "mhistory", "type": typ, "arg": arg, "history": small, "observed": [list(x) for x in o2[0]],
                               "expected": [None if x is None else list(x) for x in oracle_mhistory(arg, small)], "final": o2[3]})
        if parts0 != arg_leaves(arg) or leaves0 != arg_leaves(arg):
            init_bad.append(idx)
            if len(init_bad) == 1:
                ctx.violation("container construction: %s(%s) holds parts %s and structure leaves %s, expected the depth-first leaves %s"
                              % (typ, arg, parts0, leaves0, arg_leaves(arg)),
                              {"kind": "mhistory", "type": typ, "arg": arg, "history": [], "parts": parts0, "leaves": leaves0})
        mterms.append(mhist_term(arg, hist, obs))
        iterms.append(ctuple([coq_arg(arg), czlist(parts0), czlist(leaves0)]))
        if idx < 2:
            ctx.sample({"container": typ, "constructor argument": arg, "history": hist, "observed": [list(x) for x in obs]})
    imp = "From PV Require Import Lib.Base Model.C20 Model.C20_Mut."
    try:
        mfail = ctx.coq_failing("mhist", imp, "", mterms, "mhist_ok", shard=400)
        ifail = ctx.coq_failing("minit", imp, "", iterms, "init_ok", shard=2000)
        mdetail = ""
    except RuntimeError as e:
        mfail, ifail, mdetail = [-1], [-1], str(e)[-800:]
    ctx.obligation("correspondence: Score / Performance built from %d constructor arguments (a Part, a PartGroup, lists / tuples of Parts and nested "
                   "PartGroups, the same part twice, something else) hold the parts and the structure Model.C20_Mut.score_init computes (Coq init_ok), "
                   "and raise exactly where it returns None" % len(iterms), not ifail and not raised_bad, mdetail or (ifail[:5], raised_bad[:5]))
    ctx.obligation("correspondence: %d histories of iter/next/len/index AND item assignment c[i] = part on these containers answered as "
                   "Model.C20_Mut.mstep FromParts (Coq mhist_ok; next() of an iterator bound before an assignment is only required to yield or stop)"
                   % len(mterms), not mfail, mdetail or mfail[:5])
    ctx.obligation("direct oracle: after every such history len, indexing, list(c), nested / zipped / interleaved iteration of the container agree "
                   "(the item assigned is visited, the item replaced is not); construction flattens depth first", not m_bad and not init_bad,
                   (m_bad[:5], init_bad[:5]))
    if (mfail or ifail or raised_bad) and not m_bad and not init_bad:
        j = (mfail + ifail + raised_bad)[0]
        ctx.violation("container model (Model.C20_Mut) and implementation disagree: %s %s"
                      % (mdetail[:300], json.dumps(mcases[j], default=str)[:500] if 0 <= j < len(mcases) else ""),
                      {"kind": "mhistory", "type": mcases[j][0], "arg": mcases[j][1], "history": mcases[j][2]} if 0 <= j < len(mcases) else {"kind": "coq"},
                      no_input=not (0 <= j < len(mcases)))

    # the same protocol used through Python's own loop constructs
    idiom_bad = []
    for typ in ("score", "performance"):
        for labels in ([], [0], [0, 1], [0, 1, 2], [0, 1, 0], [0, 1, 2, 3]):
            c, items, _ = build_container({"type": typ, "labels": labels})
            n = len(items)
            idx = {id(o): i for i, o in reversed(list(enumerate(items)))}
            got = {
                "nested": [(idx[id(a)], idx[id(b)]) for a in c for b in c],
                "triple": [(idx[id(a)], idx[id(b)], idx[id(d)]) for a in c for b in c for d in c],
                "zip": [(idx[id(a)], idx[id(b)]) for a, b in zip(c, c)],
                "list_twice": [[idx[id(a)] for a in c], [idx[id(a)] for a in c]],
                "reversed": [idx[id(a)] for a in reversed(c)] if n else [],
                "contains": [o in c for o in items],
                "len": len(c),
                "index": [idx[id(c[i])] for i in range(-n, n)],
            }
            first = [idx[id(o)] for o in items]
            exp = {
                "nested": [(a, b) for a in first for b in first],
                "triple": [(a, b, d) for a in first for b in first for d in first],
                "zip": [(a, a) for a in first],
                "list_twice": [first, first],
                "reversed": first[::-1],
                "contains": [True] * n,
                "len": n,
                "index": first + first,
            }
            ctx.evaluations += 1
            for k in exp:
                if got[k] != exp[k]:
                    idiom_bad.append((typ, labels, k))
                    if len(idiom_bad) == 1:
                        ctx.violation("container protocol: %s over parts %s: %s gives %s, expected %s" % (typ, labels, k, got[k], exp[k]),
                                      {"kind": "idiom", "type": typ, "labels": labels, "idiom": k, "got": got[k], "expected": exp[k]})
    ctx.obligation("direct oracle: nested / triple-nested for loops, zip(c, c), list(c) twice, reversed, in, len and c[-n..n-1] over Score and Performance "
                   "with 0-4 parts give the full products / the parts in order", not idiom_bad, idiom_bad[:5])
    ctx.log("container protocol: %d histories, %d disagreeing" % (len(hcases), len(hist_bad)))

    # ---- (b) footprints ----------------------------------------------------------------
    n_cases = 64 if quick else 520
    rounds = 1 if quick else 3
    cases = [{k: v for k, v in c.items() if k != "thorough"} for c in FIXTURES if not (quick and c.get("thorough"))]
    # generated arguments: the argument KIND goes round robin inside each family (shuffled start), so that every
    # kind is met in every run however small; the family mix is fixed (62% score side, 18% performance side, 20% alignments)
    fam_n = {"score": round(n_cases * 0.62), "perf": round(n_cases * 0.18)}
    fam_n["align"] = n_cases - fam_n["score"] - fam_n["perf"]
    fam_list = [f for f, n in sorted(fam_n.items()) for _ in range(n)]
    rng.shuffle(fam_list)
    cyc = {}
    for fam, kinds in (("score", SCORE_KINDS + NOTELIST_KINDS), ("perf", PERF_KINDS), ("align", ALIGN_KINDS)):
        order = list(kinds)
        rng.shuffle(order)
        cyc[fam] = [order, 0]
    for fam in fam_list:
        order, i = cyc[fam]
        cyc[fam][1] += 1
        spec = {"score": gen_score_spec, "perf": gen_perf_spec, "align": gen_alignment_spec}[fam](rng)
        spec["as"] = order[i % len(order)]
        if fam == "score":
            spec["part_index"] = rng.randrange(3)
            if spec["as"] == "ScoreNoteArray":
                spec["na_skip"] = rng.choice([0, 1, 2, 3])
            if spec["as"] == "NoteList":
                spec.update(notelist_order=rng.choice(["asis", "reversed", "shuffled", "shuffled"]), notelist_seed=rng.randrange(1 << 20),
                            notelist_tied=rng.random() < 0.6)
        if fam == "perf" and spec["as"] == "PerfNoteArray":
            spec["na_skip"] = rng.choice([0, 1, 2])
            spec["na_drop"] = rng.choice([[], ["track", "channel"], ["track", "channel"], ["channel"]])
        cases.append({"kind": fam, "spec": spec})
    # timeline stream: small one-part scores whose TIMELINE has the shapes the read-only entry points branch on (see
    # gen_timeline_features), given as every object kind of the score family; measured below (`timeline/...`)
    tl_kinds = ["Part", "Score", "PartList", "PartGroup", "GroupList", "Part", "Score", "NoteList"]
    rng.shuffle(tl_kinds)
    for i in range(20 if quick else 160):
        ps = gen_part_spec(rng, "P0", n_meas=rng.choice([1, 2, 2, 3]), timeline=True)
        spec = {"parts": [ps], "group": False, "title": None, "as": tl_kinds[i % len(tl_kinds)], "nested_group": False, "na_flags": [],
                "part_index": 0, "timeline_stream": True}
        if spec["as"] == "NoteList":
            spec.update(notelist_order="shuffled", notelist_seed=rng.randrange(1 << 20), notelist_tied=False)
        cases.append({"kind": "score", "spec": spec})
    # ... and a fixed checklist: one small part per POSITION of a divisions change (no random weights: every position is met in every run)
    for i, ps in enumerate(directed_timeline_specs()):
        cases.append({"kind": "score", "spec": {"parts": [ps], "group": False, "title": None, "as": ["Part", "Score", "PartList", "GroupList", "PartGroup"][i % 5],
                                                "nested_group": False, "na_flags": [], "part_index": 0, "timeline_stream": "directed"}})
    traces = []
    mut_entries = defaultdict(int)
    outcome = defaultdict(lambda: [0, 0])
    by_ek = {}  # (entry, kind) -> {"calls", "ok", "raised": {type: n}, "written": set(fields), "args": n}
    n_calls = 0
    reported = set()
    for ci, case in enumerate(cases):
        prm = gen_params(rng, ctx.work)
        try:
            kind, args = build_case(case)
        except Exception as e:
            ctx.count("build_failed/" + type(e).__name__)
            continue
        names = entries_for(kind)
        sched = make_schedule(rng, names, 1 if case["kind"] == "file" else rounds)
        fresh = names if (not quick or ci % 3 == 0) else rng.sample(names, min(4, len(names)))
        try:
            tl_parts = _parts_of(args[0]) if family(kind) == "score" else [args[1]] if kind == "NoteList" else _parts_of(args[2]) if family(kind) == "align" else []
            for tp_ in tl_parts:
                ctx.count("timeline/parts measured")
                for feat in timeline_stats(tp_):
                    ctx.count("timeline/" + feat)
        except Exception as e:
            ctx.count("timeline/stats failed %s" % type(e).__name__)
        findings, trace, results, kind = check_case(case, sched, prm, fresh)
        del args
        n_calls += len(sched)
        ctx.evaluations += len(sched)
        ctx.count("argument/" + kind + ("/file" if case["kind"] == "file" else ""))
        if kind in ("ScoreNoteArray", "PerfNoteArray"):
            try:
                na0 = build_case(case)[1][0]
                on = [f for f in na0.dtype.names if f.startswith("onset")][0]
                ctx.count("note array/%s" % ("empty" if len(na0) == 0 else "first onset is 0" if float(na0[on].min()) == 0 else "first onset is not 0"))
                ctx.count("note array/%s channel field" % ("with" if "channel" in na0.dtype.names else "without"))
            except Exception:
                pass
        if case["kind"] == "score":
            for ps in case["spec"]["parts"]:
                nav = "+".join(sorted((["repeat"] if ps["repeats"] else []) + (["volta"] if ps["endings"] else []) + [k for k, _ in ps["nav"]])) or "none"
                ctx.count("navigation/" + nav)
                if ps.get("segments"):
                    ctx.count("part/add_segments called beforehand")
                    if any(k in ("fine", "tocoda") for k, _ in ps["nav"]):
                        ctx.count("part/add_segments called beforehand + Fine or To Coda")
                if ps.get("link_cluster"):
                    ctx.count("part/link cluster %s %s %s" % tuple(ps["link_cluster"][:3]))
                if any(n["sym"] is None for n in ps["notes"]):
                    ctx.count("part/has notes without symbolic duration")
                for feat in ("empty_measure", "voice_polyphony", "pickup", "musical_beat", "mb_table"):
                    if ps.get(feat) not in (None, False):
                        ctx.count("part/" + feat)
        key = json.dumps(case, sort_keys=True, default=str)
        for n, v in results.items():
            outcome[n][0 if v[0] == "ok" else 1] += 1
            if v[0] == "ok":
                ctx.nontrivial([key, n])
        seen_here = set()
        for n, k, b, a, r, oc in trace:
            rec = by_ek.setdefault((n, k), {"calls": 0, "ok": 0, "raised": defaultdict(int), "written": set(), "args": 0})
            rec["calls"] += 1
            if oc == "ok":
                rec["ok"] += 1
            else:
                rec["raised"][oc] += 1
            if (n, k) not in seen_here:
                seen_here.add((n, k))
                rec["args"] += 1
        for f in findings:
            if f["type"] == "mutates":
                by_ek[(f["entry"], kind)]["written"].update(f["fields"])
        traces.append((dz(trace[0][2]) if trace else 0, [(n, k, dz(b), dz(a), dz(r)) for n, k, b, a, r, oc in trace], ci))
        if ci < 14 and ci >= 11:
            ctx.sample({"case": case["kind"], "argument kind": kind, "entries": names, "calls": len(sched), "findings": len(findings),
                        "spec": json.dumps(case.get("spec", case), default=str)[:700]})
        for f in findings:
            mut_entries[(f["type"], f["entry"], kind)] += 1
            obj = {"kind": "footprint", "case": case, "schedule": sched, "params": {k: v for k, v in prm.items() if k != "_work"}, "finding": f}
            is_known = any(ctx.matchers.get(k["id"]) and ctx.matchers[k["id"]](obj) for k in ctx.known)
            # one report per (finding type, entry point, argument kind); findings matched by a known finding are all
            # passed on (they are counted), and never hide an unmatched finding of the same entry point
            sig = (f["type"], f["entry"], kind, is_known)
            if sig in reported:
                if is_known:
                    ctx.violation("", obj)
                continue
            reported.add(sig)
            if not is_known:
                if sum(1 for r in reported if not r[3]) > 8:
                    continue
                small = shrink_schedule(case, sched, {**prm}, f)
                obj["schedule"] = small
                # shrink the argument as well (fewer parts, links, notes, timeline features) and report what the SHRUNK case does
                try:
                    scase, sf = shrink_case(case, small, {**prm}, f)
                    if sf is not None:
                        obj["case"], obj["finding"], f = scase, sf, sf
                except Exception as e:
                    ctx.count("shrink_case failed %s" % type(e).__name__)
            what = {"mutates": "read-only entry point %s given a %s changed its argument: wrote %s (%s)",
                    "not_repeatable": "entry point %s given a %s gave a different result when called again on the unchanged argument%s: %s",
                    "history_dependent": "entry point %s given a %s gives a different result after other read-only calls than on a fresh argument%s: %s",
                    "protocol": "client iteration (%s) over a %s: len / indexing / nested, zipped or interleaved iteration are inconsistent%s: %s"}[f["type"]]
            ctx.violation(what % (f["entry"], kind, ", ".join(f["fields"][:3]) if f["type"] == "mutates" else "", (describe_case(obj["case"]).lstrip(" |") + " ; " + "; ".join(map(str, f["detail"][:3])))[:1100]), obj)
    ctx.extra["cpu_timeouts"] = dict(TIMEOUTS)
    ctx.extra["entry_outcomes"] = {n: {"ok": v[0], "raised": v[1]} for n, v in sorted(outcome.items())}
    ctx.extra["never_succeeded"] = sorted(n for n, v in outcome.items() if v[0] == 0)
    # the observed footprint per (entry point, argument kind)
    table = {}
    for (n, k), rec in sorted(by_ek.items()):
        table.setdefault(n, {})[k] = {"arguments": rec["args"], "calls": rec["calls"], "returned": rec["ok"], "raised": dict(sorted(rec["raised"].items())),
                                      "written": sorted(rec["written"])}
    ctx.extra["footprint_by_entry_and_kind"] = table
    planned = sorted((n, k) for n, (f, kinds) in ENTRY.items() for k in kinds)
    missing = [p for p in planned if p not in by_ek]
    nonempty = sorted("%s(%s): %s" % (n, k, sorted(rec["written"])[:4]) for (n, k), rec in by_ek.items() if rec["written"])
    ctx.extra["entry_kind_pairs_never_returned"] = sorted("%s(%s)" % (n, k) for (n, k), rec in by_ek.items() if rec["ok"] == 0)
    ctx.obligation("footprint per (entry point, argument kind): all %d planned pairs (%d entry points x the kinds Score, Part, PartGroup, list of Parts, "
                   "list with PartGroups, score note array, Performance, PerformedPart, list of PerformedParts, performance note array, 4 alignment "
                   "shapes, a caller's note list with its Part) were exercised" % (len(planned), len(ENTRY)), not missing, missing[:8])
    k1_pairs = {"unfold_part_alignment(%s)" % k for k in ALIGN_KINDS}
    ctx.obligation("footprint per (entry point, argument kind): the observed write set is EMPTY for every pair (known finding %s excluded); "
                   "%d pairs returned normally at least once, %d only raised (argument still unchanged)"
                   % (K1, sum(1 for r in by_ek.values() if r["ok"]), sum(1 for r in by_ek.values() if not r["ok"])),
                   all(x.split(":")[0] in k1_pairs for x in nonempty), nonempty[:8])
    nbad = sum(mut_entries.values())
    ctx.obligation("footprints: %d calls of %d read-only entry points on %d arguments left the deep fingerprint unchanged, repeated calls agreed, "
                   "results equal those on a fresh argument (known findings excluded: %s)" % (n_calls, len(outcome), len(cases), dict(ctx.known_hits)),
                   len(ctx.violations) == nviol0 or all(v[0].startswith("container") for v in ctx.violations[nviol0:]),
                   dict(("%s/%s/%s" % k, v) for k, v in mut_entries.items()))
    # the same traces through the Coq trace checker (effect model): K1 traces are expected to fail there
    tterms = [ctuple([cz(init), clist([ctuple(["(E_%s, K_%s)" % (n, k), cz(b), cz(a), cz(r)]) for n, k, b, a, r in rows])]) for init, rows, _ in traces]
    try:
        tfail = ctx.coq_failing("trace", "From PV Require Import Lib.Base Model.C20.", "", tterms, "trace_ok", shard=40)
        tdetail = ""
    except RuntimeError as e:
        tfail, tdetail = [-1], str(e)[-800:]
    py_bad = set()
    for ti, (init, rows, ci) in enumerate(traces):
        res_of = {}
        for n, k, b, a, r in rows:
            if b != init or a != init or res_of.setdefault((n, k), r) != r:
                py_bad.add(ti)
    ctx.obligation("correspondence: %d observed call traces (rows: entry point, argument kind, store digest before/after, result digest) accepted by the Coq "
                   "effect-model checker trace_ok exactly when the Python oracle accepts them (rejected: %d, all explained by reported/known findings)"
                   % (len(tterms), len(py_bad)),
                   tfail != [-1] and set(tfail) == py_bad, tdetail or "coq %s python %s" % (tfail[:8], sorted(py_bad)[:8]))
    if tfail == [-1] or set(tfail) != py_bad:
        ctx.violation("Coq trace checker and Python oracle disagree on observed traces: %s vs %s %s" % (tfail[:8], sorted(py_bad)[:8], tdetail[:300]),
                      {"kind": "coq"}, no_input=True)
    # the observed footprint table, one row per (entry point, argument kind), judged inside Coq (Model.C20.table_empty /
    # table_covers; meaning: Props/C20.v empty_footprint_table_pure).  The known finding's pairs are left out.
    rows = [((n, k), rec) for (n, k), rec in sorted(by_ek.items()) if "%s(%s)" % (n, k) not in k1_pairs]
    fields_all = sorted({f for _, rec in rows for f in rec["written"]})
    tab = clist([ctuple(["(E_%s, K_%s)" % nk, clist([cnat(fields_all.index(f)) for f in sorted(rec["written"])]) if rec["written"] else "(@nil nat)"]) for nk, rec in rows])
    plan = clist(["(E_%s, K_%s)" % nk for nk in planned if "%s(%s)" % nk not in k1_pairs])
    try:
        tabfail = ctx.coq_failing("fptable", "From PV Require Import Lib.Base Model.C20.",
                                  "Definition planned : list call := %s.\nDefinition table_check (t : fp_table) : bool := "
                                  "table_empty t && forallb (table_covers t) planned." % plan, [tab], "table_check")
        tabdetail = ""
    except RuntimeError as e:
        tabfail, tabdetail = [-1], str(e)[-800:]
    ctx.obligation("correspondence: the observed footprint table (%d rows (entry point, argument kind) -> written locations) is empty and covers all "
                   "planned pairs (Coq table_empty / table_covers)" % len(rows), not tabfail, tabdetail or nonempty[:6] or missing[:6])
    if tabfail and len(ctx.violations) == nviol0:
        ctx.violation("the observed footprint table is not empty / not complete: %s %s %s" % (nonempty[:4], missing[:4], tabdetail[:300]),
                      {"kind": "coq", "nonempty": nonempty, "missing": ["%s(%s)" % m for m in missing]}, no_input=True)

    # ---- (b2) deep copy before modification: transpose on every argument kind against the heap model ----
    cow_terms = []
    cow_cases = []
    cow_bad = []
    cow_stats = defaultdict(int)
    score_cases = [c for c in cases if c["kind"] == "score" and c["spec"]["as"] not in ("ScoreNoteArray", "NoteList")]
    for case in score_cases:
        for interval in ([2, "M", "up"], [3, "m", "down"]) if not quick else (rng.choice([[2, "M", "up"], [3, "m", "down"], [5, "P", "up"]]),):
            ob = observe_transpose(case, interval)
            ctx.evaluations += 1
            if ob is None:
                cow_stats["skipped (no notes or build failed)"] += 1
                continue
            cow_stats["%s/%s" % (ob["kind"], ob["outcome"])] += 1
            if ob["outcome"] != "ok":
                ob["res1"], ob["res2"] = [], []
            cow_terms.append(ctuple(["K_" + ob["kind"], clist([cz(x) for x in ob["before"]]), clist([cz(x) for x in ob["after"]]),
                                     clist([cz(x) for x in ob["res1"]]), clist([cz(x) for x in ob["res2"]])]))
            cow_cases.append((case, interval, ob))
            if ob["shared"]:
                cow_stats["result shares note objects with the argument"] += 1
            if ob["outcome"] == "ok":
                cow_stats["%s/result %s" % (ob["kind"], "transposed" if ob["res1"] != ob["before"] else "equal to the argument")] += 1
            if ob["after"] != ob["before"] or ob["res1"] != ob["res2"] or not ob["same_objects"]:
                cow_bad.append(len(cow_cases) - 1)
    try:
        cowfail = ctx.coq_failing("cow", "From PV Require Import Lib.Base Model.C20.", "", cow_terms, "cow_ok", shard=200)
        cowdetail = ""
    except RuntimeError as e:
        cowfail, cowdetail = [-1], str(e)[-800:]
    ctx.extra["transpose_copy_then_modify"] = dict(sorted(cow_stats.items()))
    ctx.obligation("correspondence: transpose called twice on %d arguments of the kinds %s: the pitches of the argument's notes afterwards are those the "
                   "copy-then-modify model leaves (Coq cow_ok: argument cells unchanged, both results equal)" % (len(cow_terms), sorted({o["kind"] for _, _, o in cow_cases})),
                   not cowfail, cowdetail or cowfail[:5])
    ctx.obligation("direct oracle: transpose twice leaves the same note objects with the same pitches in the argument and returns equal results (%d arguments)"
                   % len(cow_cases), not cow_bad, cow_bad[:5])
    for i in sorted(set(cow_bad) | {j for j in cowfail if j >= 0})[:1]:
        case, interval, ob = cow_cases[i]
        if not any("transpose" in v[0] for v in ctx.violations[nviol0:]):
            ctx.violation("transpose(%s, %s) called twice: pitches of the argument's notes %s -> %s; results %s / %s%s"
                          % (ob["kind"], interval, ob["before"][:8], ob["after"][:8], ob["res1"][:8], ob["res2"][:8],
                             "" if ob["same_objects"] else " (the argument holds other note objects than before)"),
                          {"kind": "transpose", "case": case, "interval": interval, "observed": {k: v for k, v in ob.items()}})
    if cowfail == [-1]:
        ctx.violation("Coq evaluation of the copy-then-modify model failed: " + cowdetail[:600], {"kind": "coq"}, no_input=True)
    ctx.log("footprints: %d cases, %d calls, %d (entry, kind) pairs, findings %s; transpose/heap model: %d" % (len(cases), n_calls, len(by_ek), dict(mut_entries), len(cow_terms)))

    # ---- (b3) shallow copy + replace_refs on real objects against the aliasing heap model --------------
    aterms, acases, a_bad = [], [], []
    for i in range(150 if quick else 1500):
        aspec = gen_alias_spec(rng)
        try:
            before, after = run_alias(aspec)
        except Exception as e:
            ctx.count("alias/raised %s" % type(e).__name__)
            continue
        ctx.evaluations += 1
        nobj = len(before[0])
        ctx.count("alias/%s" % ("nothing copied" if not aspec["sel"] else "all copied" if len(aspec["sel"]) == nobj else "some copied"))
        if aspec["sel"] and any(a[0] == "list" and after[1][a[1]] for o in aspec["sel"] for a in before[0][o]):
            ctx.nontrivial(["alias", aspec])
        # direct oracle (the property): every original object and every original list is as before; no copy holds an original list
        ok_arg = after[0][:nobj] == before[0] and after[1][: len(before[1])] == before[1]
        shared = [a for row in after[0][nobj:] for a in row if a[0] == "list" and a[1] < len(before[1])]
        if not ok_arg or shared:
            a_bad.append(len(acases))
        acases.append((aspec, before, after))
        aterms.append(ctuple([coq_heap(before), "(@nil nat)" if not aspec["sel"] else clist([cnat(o) for o in aspec["sel"]]), coq_heap(after)]))
    try:
        afail = ctx.coq_failing("alias", "From PV Require Import Lib.Base Model.C20 Model.C20_Mut Model.C20_Alias.", "", aterms, "alias_ok", shard=400)
        adetail = ""
    except RuntimeError as e:
        afail, adetail = [-1], str(e)[-800:]
    ctx.obligation("correspondence: copy.copy + ReplaceRefMixin.replace_refs on %d populations of real Note / Slur / Tuplet objects (ties, slur and "
                   "tuplet lists, links to copied and to uncopied objects) leave the heap Model.C20_Alias.variant FreshList computes: originals and "
                   "their lists untouched, every list of a copy newly allocated, references mapped through o_map (Coq alias_ok)" % len(aterms),
                   not afail, adetail or afail[:5])
    ctx.obligation("direct oracle: after copying and replacing references every original object and list is as before and no copy holds a list of an "
                   "original (%d populations)" % len(acases), not a_bad, a_bad[:5])
    for i in sorted(set(a_bad) | {j for j in afail if j >= 0})[:1]:
        aspec, before, after = acases[i]
        ctx.violation("shallow copy + replace_refs (the mechanism of unfolding a Part): objects %s copied; reference attributes / lists before %s, "
                      "afterwards %s (objects: originals then copies; ('list', a) = the list at address a; lists: address -> elements)"
                      % (aspec["sel"], json.dumps(before, default=str)[:500], json.dumps(after, default=str)[:700]),
                      {"kind": "alias", "spec": aspec, "before": before, "after": after})
    if afail == [-1]:
        ctx.violation("Coq evaluation of the aliasing model failed: " + adetail[:600], {"kind": "coq"}, no_input=True)

    # ---- (b4) array views that copy: slice_notearray_by_time against the buffer / view model ------------------
    sterms, scases, s_bad = [], [], []
    for i in range(200 if quick else 2000):
        sc_ = gen_slice_case(rng)
        try:
            res, after = run_slice(sc_)
        except Exception as e:
            ctx.count("slice/raised %s" % type(e).__name__)
            continue
        ctx.evaluations += 1
        act = [r for r in sc_["rows"] if (sc_["start"] <= r[0] < sc_["stop"]) or (r[0] < sc_["start"] < r[0] + r[1])]
        ctx.count("slice/%s, %s" % ("clipping" if sc_["clip"] else "no clipping",
                                    "nothing selected" if not act else "everything selected" if len(act) == len(sc_["rows"]) else "some rows selected"))
        if sc_["clip"] and any(r[0] < sc_["start"] or r[0] + r[1] > sc_["stop"] for r in act):
            ctx.nontrivial(["slice", sc_])
        if after != sc_["rows"] or len(res) != len(act) or (not sc_["clip"] and res != act):
            s_bad.append(len(scases))
        scases.append((sc_, res, after))
        sterms.append(ctuple([coq_rows(sc_["rows"]), cz(sc_["start"]), cz(sc_["stop"]), cbool(sc_["clip"]), coq_rows(res), coq_rows(after)]))
    try:
        sfail = ctx.coq_failing("slice", "From PV Require Import Lib.Base Model.C20 Model.C20_Mut Model.C20_Array.", "", sterms, "slice_ok", shard=500)
        sdetail = ""
    except RuntimeError as e:
        sfail, sdetail = [-1], str(e)[-800:]
    ctx.obligation("correspondence: slice_notearray_by_time on %d integer note arrays (sorted and unsorted rows, windows before / inside / after the "
                   "notes, with and without clipping): the argument afterwards and the selected rows are those of Model.C20_Array.slice TakeCopy "
                   "(Coq slice_ok; what clipping writes into a row is not compared)" % len(sterms), not sfail, sdetail or sfail[:5])
    ctx.obligation("direct oracle: the note array given to slice_notearray_by_time is unchanged, the slice has one row per active note and, without "
                   "clipping, exactly those rows (%d arrays)" % len(scases), not s_bad, s_bad[:5])
    for i in sorted(set(s_bad) | {j for j in sfail if j >= 0})[:1]:
        sc_, res, after = scases[i]
        ctx.violation("slice_notearray_by_time(rows %s [onset_div, duration_div, pitch], %s, %s, clip_onset_duration=%s) returned %s and left the "
                      "argument as %s" % (sc_["rows"], sc_["start"], sc_["stop"], sc_["clip"], res, after),
                      {"kind": "slice", "case": sc_, "result": res, "after": after})
    if sfail == [-1]:
        ctx.violation("Coq evaluation of the array model failed: " + sdetail[:600], {"kind": "coq"}, no_input=True)

    # ---- (b5) save_performance_midi's argument dispatch and the Performance constructor's track renumbering -----------
    tterms, tcases, t_bad, zterms, zcases, z_bad = [], [], [], [], [], []
    for i in range(160 if quick else 1600):
        tc_ = gen_track_case(rng)
        try:
            before, out1, after1, out2, after2 = run_track(tc_)
            sb, sa, sn = run_sanitize(tc_)
        except Exception as e:
            ctx.count("track/raised %s" % type(e).__name__)
            t_bad.append(len(tcases))
            tcases.append((tc_, None, "raised %s: %s" % (type(e).__name__, e), None))
            tterms.append("(AOther, OIndexError, (@nil ppart))")
            continue
        ctx.evaluations += 3
        ctx.count("track/argument %s" % tc_["kind"])
        ctx.count("track/outcome %s" % (out1 if isinstance(out1, str) else "file with %s track(s)" % min(len(out1), 3)))
        if any(t is None for e in before for col in e for t in col):
            ctx.count("track/an event without a track entry")
        renumbers = sa != sb
        if py_canonical(sb) == renumbers:
            z_bad.append(len(zcases))
        ctx.count("track/part list %s" % ("canonical (the constructor leaves it alone)" if py_canonical(sb) else "not canonical"))
        if renumbers:
            ctx.count("track/parts the Performance constructor renumbers" + (" (list / tuple argument)" if tc_["kind"] in ("List", "Tuple") else ""))
            if tc_["kind"] in ("List", "Tuple"):
                ctx.nontrivial(["track", tc_])
        if after1 != before or after2 != before or out2 != out1:
            t_bad.append(len(tcases))
        tcases.append((tc_, before, out1, after1))
        tterms.append(ctuple([coq_track_arg(tc_, before), coq_track_out(out1), coq_pps(after1)]))
        zcases.append((tc_, sb, sa, sn))
        zterms.append(ctuple([coq_pps(sb), coq_pps(sa), cnat(sn)]))
    timp = "From PV Require Import Lib.Base Model.C20 Model.C20_Mut Model.C20_Track."
    try:
        tfail = ctx.coq_failing("track", timp, "", tterms, "track_ok", shard=600)
        zfail = ctx.coq_failing("sanitize", timp, "", zterms, "sanitize_ok", shard=600)
        tdetail = ""
    except RuntimeError as e:
        tfail, zfail, tdetail = [-1], [-1], str(e)[-800:]
    ctx.obligation("correspondence: save_performance_midi on %d arguments (Performance built with and without ensure_unique_tracks, PerformedPart, "
                   "list, tuple, list with a foreign element, int; 0-3 parts, track entries missing / all 0 / already unique / mixed): the outcome "
                   "(ValueError / IndexError / note_on messages per MIDI track) and the track entries of the argument's notes, controls and "
                   "programs afterwards are those of Model.C20_Track.save_perf_midi Direct (Coq track_ok)" % len(tterms), not tfail, tdetail or tfail[:5])
    ctx.obligation("correspondence: Performance(parts) on %d fresh builds of the same parts rewrites the track entries to "
                   "Model.C20_Track.sanitize and reports num_tracks (Coq sanitize_ok) -- the in-place operation a dispatch through the "
                   "constructor would run on the caller's parts" % len(zterms), not zfail, tdetail or zfail[:5])
    ctx.obligation("direct oracle: the track entries of every part given to save_performance_midi are as before after one and after two calls and "
                   "both calls have the same outcome (%d arguments)" % len(tcases), not t_bad, t_bad[:5])
    for i in sorted(set(t_bad) | {j for j in tfail if j >= 0})[:1]:
        tc_, before, out1, after1 = tcases[i]
        ctx.violation("save_performance_midi given a %s of parts with track entries [notes, controls, programs] %s: outcome %s, track entries "
                      "afterwards %s" % (tc_["kind"], before, out1, after1), {"kind": "track", "case": tc_, "before": before, "outcome": out1, "after": after1})
    ctx.obligation("direct oracle: Performance(parts) leaves the track entries of the parts alone exactly when the list is canonical (every event has "
                   "a track, every (part, track) pair in use is numbered by its rank; theorem sanitize_fixpoint_iff) (%d part lists)" % len(zcases),
                   not z_bad, z_bad[:5])
    for i in sorted(set(z_bad) | {j for j in zfail if j >= 0})[:1]:
        tc_, sb, sa, sn = zcases[i]
        ctx.violation("Performance(parts) with track entries [notes, controls, programs] %s left them as %s, num_tracks %s: not the renumbering "
                      "Model.C20_Track.sanitize computes" % (sb, sa, sn), {"kind": "sanitize", "case": tc_, "before": sb, "after": sa, "num_tracks": sn})
    if tfail == [-1]:
        ctx.violation("Coq evaluation of the track model failed: " + tdetail[:600], {"kind": "coq"}, no_input=True)


    # ---- (b6) beat mode: histories of mode switches (in place, documented) and exports (must only read) ---------------
    bterms, bcases, b_bad = [], [], []
    for i in range(120 if quick else 1200):
        bc_ = gen_beat_case(rng)
        try:
            bstart, bstates, braised = run_beat(bc_)
        except Exception as e:
            ctx.count("beat/raised %s" % type(e).__name__)
            continue
        ctx.evaluations += len(bstates)
        ops = [o[0] for o in bc_["history"]]
        for o in bc_["history"]:
            ctx.count("beat/op %s" % (o[0] if o[0] != "export" else "export " + o[1]))
        for r in braised:
            if r is not None:
                ctx.count("beat/export raised %s" % r)
        prev, seedj_shape = bstart, False
        for o, st in zip(bc_["history"], bstates):
            if o[0] == "export":
                if prev[0] and any(m != (2 if b == 6 else 3 if b == 9 else 4 if b == 12 else b) for b, _, m in prev[1]):
                    seedj_shape = seedj_shape or o[1] == "midi_ts"
                    ctx.count("beat/export in musical-beat mode with non-default musical beats")
                if st != prev and len(bcases) not in b_bad:
                    b_bad.append(len(bcases))
            prev = st
        if seedj_shape:
            ctx.nontrivial(["beat", bc_])
        bcases.append((bc_, bstart, bstates))
        bterms.append(ctuple([coq_bstate(bstart), "(@nil bop)" if not bc_["history"] else clist([coq_bop(o) for o in bc_["history"]]),
                              "(@nil bstate)" if not bstates else clist([coq_bstate(x) for x in bstates])]))
    try:
        bfail = ctx.coq_failing("beat", "From PV Require Import Lib.Base Model.C20 Model.C20_Mut Model.C20_Beat.", "", bterms, "beat_ok", shard=600)
        bdetail = ""
    except RuntimeError as e:
        bfail, bdetail = [-1], str(e)[-800:]
    ctx.obligation("correspondence: %d histories of use_musical_beat(table) / use_notated_beat() / set_musical_beat_per_ts(table) and exports "
                   "(save_score_midi with anacrusis_behavior='time_sig_change' and default, note_array with metrical positions + beat_map) on real "
                   "Parts with 1-4 time signatures (with / without pickup measure): (Part._use_musical_beat, musical_beats of every TimeSignature) "
                   "after EVERY operation is the state Model.C20_Beat.brun ReadOnly computes (Coq beat_ok)" % len(bterms), not bfail, bdetail or bfail[:5])
    ctx.obligation("direct oracle: every export inside a history of beat-mode switches leaves the beat mode and all musical_beats as they were "
                   "(%d histories)" % len(bcases), not b_bad, b_bad[:5])
    for i in sorted(set(b_bad) | {j for j in bfail if j >= 0})[:1]:
        bc_, bstart, bstates = bcases[i]
        ctx.violation("beat mode of a Part with time signatures %s (start state %s) under the history %s: states [use_musical_beat, [beats, beat_type, "
                      "musical_beats]] after each operation %s -- an export changed the state, or a mode switch did not do what "
                      "Model.C20_Beat computes" % (bc_["sigs"], bstart, bc_["history"], bstates), {"kind": "beat", "case": bc_, "start": bstart, "states": bstates})
    if bfail == [-1]:
        ctx.violation("Coq evaluation of the beat-mode model failed: " + bdetail[:600], {"kind": "coq"}, no_input=True)


    # ---- negative side + sensitivity of the observer -------------------------------------
    must, may = inplace_ops()
    n_neg = 12 if quick else 80
    neg_fail = []
    changed_counts = defaultdict(lambda: [0, 0, 0])
    for i in range(n_neg):
        ps = gen_part_spec(rng, "P0")
        if i % 3 == 0:
            ps["measures"] = False
        for name, (f, cond) in must.items():
            p = build_part(ps)
            try:
                if not cond(p):
                    continue
                a = fp_digest(fingerprint([p]))
                guarded(f, p)
                b = fp_digest(fingerprint([p]))
            except Exception as e:
                ctx.count("inplace_raised/%s/%s" % (name, type(e).__name__))
                continue
            ctx.evaluations += 1
            changed_counts[name][0 if a != b else 1] += 1
            if a == b:
                neg_fail.append((name, ps))
        for name, f in may.items():
            p = build_part(ps)
            try:
                a = fp_digest(fingerprint([p]))
                guarded(f, p)
                b = fp_digest(fingerprint([p]))
                changed_counts[name][0 if a != b else 1] += 1
            except Exception as e:
                changed_counts[name][2] += 1
    ctx.extra["inplace_changed_unchanged_raised"] = {k: v for k, v in sorted(changed_counts.items())}
    ctx.obligation("negative side: the documented in-place operations %s changed the fingerprint whenever their precondition held (%d applications)"
                   % (sorted(must), sum(v[0] + v[1] for k, v in changed_counts.items() if k in must)), not neg_fail, [n for n, _ in neg_fail[:5]])
    for name, ps in neg_fail[:1]:
        ctx.violation("in-place operation %s did not change the fingerprint of its argument (observer blind or operation ineffective)" % name,
                      {"kind": "inplace", "op": name, "part": ps})
    sens_fail = []
    sens_n = 0
    for i in range(10 if quick else 60):
        for kindname, mk in (("score", lambda: {"kind": "score", "spec": gen_score_spec(rng)}), ("perf", lambda: {"kind": "perf", "spec": gen_perf_spec(rng)}),
                             ("align", lambda: {"kind": "align", "spec": gen_alignment_spec(rng)}),
                             ("notelist", lambda: {"kind": "score", "spec": dict(gen_score_spec(rng), **{"as": "NoteList", "notelist_order": "shuffled"})})):
            case = mk()
            try:
                kind, args = build_case(case)
                nwrites = len(direct_writes(kind, args))
            except Exception:
                continue
            for wi in range(nwrites):
                kind, args = build_case(case)
                name, thunk = direct_writes(kind, args)[wi]
                a = fp_digest(fingerprint(args))
                try:
                    applied = thunk()
                except Exception:
                    continue
                if not applied:
                    continue
                sens_n += 1
                if fp_digest(fingerprint(args)) == a:
                    sens_fail.append(name)
    ctx.obligation("observer self-test: each of %d small direct writes (attribute, dict entry, order inside a time point, identity of an object, "
                   "links, performed-note and control fields, alignment entries, container attributes) changed the fingerprint" % sens_n,
                   not sens_fail and sens_n > 0, sorted(set(sens_fail)))
    if sens_fail or sens_n == 0:
        ctx.violation("fingerprint blind to direct writes: %s" % sorted(set(sens_fail)), {"kind": "selftest", "writes": sorted(set(sens_fail))}, no_input=True)

    if not proof_ok and len(ctx.violations) == nviol0:
        ctx.violation("Coq development for C20 no longer checks: " + why[:1500], {"kind": "coq", "why": why[:3000]}, no_input=True)


def replay(obj):
    r = obj.get("replay", obj)
    if r.get("kind") == "history":
        obs, unchanged, labels = run_history(r["spec"], r["history"])
        print("container :", json.dumps(r["spec"], default=str)[:800])
        print("parts     :", labels, "(positions in [c[0] .. c[len-1]])")
        print("history   :", r["history"])
        print("observed  :", obs, "(container unchanged: %s)" % unchanged)
        print("expected  :", oracle_history(labels, r["history"]))
        return 0
    if r.get("kind") == "mhistory":
        ob = run_mhistory(r["type"], r["arg"], r["history"])
        print("container :", r["type"], "built from", r["arg"])
        print("history   :", r["history"])
        if ob is None:
            print("observed  : the constructor raised")
            return 0
        print("at constr.:", "parts", ob[1], "structure leaves", ob[2])
        print("observed  :", ob[0])
        print("expected  :", oracle_mhistory(r["arg"], r["history"]), "(None = not constrained)")
        print("afterwards:", ob[3] or "len / indexing / iteration agree")
        return 0
    if r.get("kind") == "footprint":
        prm = dict(r["params"])
        prm["_work"] = os.path.join(core.WORKROOT, "C20_replay")
        os.makedirs(prm["_work"], exist_ok=True)
        findings, trace, results, akind = check_case(r["case"], r["schedule"], prm, [r["finding"]["entry"]])
        print("arg kind  :", akind)
        print("case      :", json.dumps(r["case"])[:600])
        print("schedule  :", r["schedule"])
        print("stored    :", json.dumps(r["finding"], default=str)[:800])
        print("now       :", json.dumps(findings, default=str)[:1600] if findings else "no finding (argument unchanged, results repeatable)")
        return 0
    if r.get("kind") == "slice":
        res, after = run_slice(r["case"])
        print("case      :", r["case"])
        print("result    :", res)
        print("argument  :", after, "(unchanged: %s)" % (after == r["case"]["rows"]))
        print("stored    :", r["result"], r["after"])
        return 0
    if r.get("kind") in ("track", "sanitize"):
        print("case      :", r["case"])
        if r["kind"] == "track":
            before, out1, after1, out2, after2 = run_track(r["case"])
            print("before    :", before)
            print("outcome   :", out1, "| second call:", out2)
            print("afterwards:", after1, "(unchanged: %s)" % (after1 == before and after2 == before))
            print("stored    :", r["outcome"], r["after"])
        else:
            sb, sa, sn = run_sanitize(r["case"])
            print("before    :", sb)
            print("afterwards:", sa, "num_tracks", sn)
            print("stored    :", r["after"], r["num_tracks"])
        return 0
    if r.get("kind") == "beat":
        bstart, bstates, braised = run_beat(r["case"])
        print("case      :", r["case"])
        print("start     :", bstart)
        print("states    :", bstates, "(exports raised: %s)" % braised)
        print("stored    :", r["states"])
        return 0
    if r.get("kind") == "alias":
        before, after = run_alias(r["spec"])
        print("population:", json.dumps(r["spec"])[:800])
        print("before    :", before)
        print("after     :", after)
        print("stored    :", json.dumps(r["after"], default=str)[:800])
        return 0
    if r.get("kind") == "transpose":
        ob = observe_transpose(r["case"], r["interval"])
        print("case      :", json.dumps(r["case"])[:600])
        print("interval  :", r["interval"])
        print("stored    :", json.dumps(r["observed"], default=str)[:800])
        print("now       :", json.dumps(ob, default=str)[:800])
        return 0
    print(json.dumps(r, indent=1, default=str)[:3000])
    return 0
