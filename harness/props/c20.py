"""C20 -- exports, views and analyses never modify their argument and are repeatable;
Score / Performance support len, indexing and (re-entrant) iteration consistently.

Proof side (coq/Props/C20.v): the container protocol as a state machine over histories
(Model/C20.v: `fresh` = what score.py/performance.py implement, `shared` = the old design,
refuted) and the effect discipline (read-only operations compose to the identity on the
store, results are functions of the initial store).

Tie to the source (this module):
 * container protocol: generated interleavings of several live iterators / len / indexing
   over real Score and Performance objects, observed results evaluated against the Coq model
   (`ctx.coq_failing`, checker `C20.hist_ok`) and against a direct Python oracle;
 * footprints: a deep canonical fingerprint of the argument before / after every read-only
   entry point (once, twice, seeded random orders); observed traces are also passed to the
   Coq trace checker `C20.trace_ok` (every store digest equals the initial one, equal
   operations give equal result digests), whose soundness/completeness w.r.t. the effect
   model is proved;
 * negative side: the documented in-place operations do change the fingerprint (this is
   also the sensitivity self-test of the fingerprint).
"""
import hashlib
import io
import json
import os
import sys
import traceback
import types
from collections import defaultdict
from fractions import Fraction

import numpy as np

import core
from core import cz, cnat, cstr, clist, ctuple, copt, cbool

# ---------------------------------------------------------------------------------------
# 1. Deep canonical fingerprint
#
# fingerprint(x, identity) -> dict path -> canonical JSON-able value.  `identity=True` adds
# the Python identity of every timed object / time point / performed note / part, which is
# what "same objects" means; results of two calls are compared with identity=False.
#
# Ignored on purpose (and only this): EMPTY per-class slots of TimePoint.starting_objects /
# ending_objects.  They are created by every read (`defaultdict.__getitem__` inside
# TimePoint.iter_starting / iter_ending, i.e. by every Part.iter_all / Part.notes ...), the
# accessors iter_starting/iter_ending/iter_all/iter_prev/iter_next enumerate classes through
# the class hierarchy (not through the dict keys), Part.pretty sorts the classes by name and
# drops empty ones, Part.remove/_cleanup_point sum the lengths.  So an empty slot cannot be
# observed through the public API; the relative order of the NON-empty classes and the order
# of the objects inside each class are kept in the fingerprint.


def _is_timed(o):
    import partitura.score as S

    return isinstance(o, S.TimedObject)


class _FP:
    def __init__(self, identity):
        self.identity = identity
        self.out = {}
        self.num = {}  # id(obj) -> label of numbered objects (timed objects, parts, pnotes)
        self.keep = []  # keep referenced objects alive (ids stay unique)

    def ident(self, o):
        return id(o) if self.identity else 0

    # -- generic canonical value
    def canon(self, v, depth=0, seen=()):
        import partitura.score as S
        import partitura.performance as P

        if v is None or isinstance(v, (bool, str)):
            return v
        if isinstance(v, (int,)):
            return ["i", int(v)]
        if isinstance(v, float):
            return ["f", repr(v)]
        if isinstance(v, (np.integer,)):
            return ["ni", str(v.dtype), int(v)]
        if isinstance(v, (np.floating,)):
            return ["nf", str(v.dtype), repr(float(v))]
        if isinstance(v, np.bool_):
            return ["nb", bool(v)]
        if isinstance(v, Fraction):
            return ["q", v.numerator, v.denominator]
        if isinstance(v, bytes):
            return ["b", hashlib.sha1(v).hexdigest()]
        if id(v) in self.num:
            return ["ref", self.num[id(v)]]
        if isinstance(v, S.TimePoint):
            return ["tp", v.t, self.ident(v)]
        if isinstance(v, np.ndarray):
            if v.dtype == object:
                return ["ndo", list(v.shape), [self.canon(x, depth + 1, seen) for x in v.ravel().tolist()]]
            return ["nd", str(v.dtype), list(v.shape), hashlib.sha1(np.ascontiguousarray(v).tobytes()).hexdigest()]
        if id(v) in seen or depth > 12:
            return ["cycle", type(v).__name__]
        seen = seen + (id(v),)
        if isinstance(v, (list, tuple)):
            return ["l" if isinstance(v, list) else "t", [self.canon(x, depth + 1, seen) for x in v]]
        if isinstance(v, (set, frozenset)):
            return ["s", sorted((self.canon(x, depth + 1, seen) for x in v), key=lambda z: json.dumps(z, sort_keys=True, default=str))]
        if isinstance(v, dict):
            items = [(self.canon(k, depth + 1, seen), self.canon(x, depth + 1, seen)) for k, x in v.items()]
            items.sort(key=lambda kv: json.dumps(kv[0], sort_keys=True, default=str))
            return ["d", type(v).__name__, [[k, x] for k, x in items]]
        if isinstance(v, (types.FunctionType, types.MethodType, types.BuiltinFunctionType, type)):
            return ["fn", getattr(v, "__qualname__", str(v))]
        if isinstance(v, S.TimedObject):
            # a timed object that is not registered in the fingerprinted part(s)
            return ["ext", type(v).__name__, self.ident(v), v.start.t if v.start is not None else None,
                    v.end.t if v.end is not None else None,
                    self.canon({k: x for k, x in vars(v).items() if k not in ("start", "end")}, depth + 1, seen)]
        d = getattr(v, "__dict__", None)
        if d is not None:
            return ["o", type(v).__name__, self.canon(dict(d), depth + 1, seen)]
        slots = getattr(type(v), "__slots__", None)
        if slots:
            return ["o", type(v).__name__, self.canon({s: getattr(v, s, None) for s in slots}, depth + 1, seen)]
        return ["r", type(v).__name__, repr(v)]

    # -- score side
    def number_part(self, part, pfx):
        self.num[id(part)] = pfx
        n = 0
        for tp in part._points:
            for table in (tp.starting_objects, tp.ending_objects):
                for cls, objs in table.items():
                    for o in objs:
                        if id(o) not in self.num:
                            self.num[id(o)] = "%s/o%d:%s" % (pfx, n, type(o).__name__)
                            n += 1

    def part(self, part, pfx):
        out = self.out
        out[pfx + "/class"] = [type(part).__name__, self.ident(part)]
        for k, v in vars(part).items():
            if k == "_points":
                continue
            if k == "parent":
                out["%s/attr/parent" % pfx] = None if v is None else [type(v).__name__, self.ident(v), getattr(v, "group_name", None),
                                                                        len(getattr(v, "children", []))]
                continue
            out["%s/attr/%s" % (pfx, k)] = self.canon(v)
        pts = list(part._points)
        out[pfx + "/npoints"] = len(pts)
        done = set()
        for j, tp in enumerate(pts):
            rec = {"t": self.canon(tp.t), "id": self.ident(tp),
                   "prev_is_pred": (tp.prev is (pts[j - 1] if j > 0 else None)),
                   "next_is_succ": (tp.next is (pts[j + 1] if j + 1 < len(pts) else None)),
                   "prev": self.canon(tp.prev), "next": self.canon(tp.next)}
            for k, v in vars(tp).items():
                if k in ("t", "prev", "next"):
                    continue
                if k in ("starting_objects", "ending_objects"):
                    rec[k] = [[cls.__name__, [self.num[id(o)] for o in objs]] for cls, objs in v.items() if len(objs) > 0]
                    rec[k + "_type"] = [type(v).__name__, sorted({type(objs).__name__ for objs in v.values() if len(objs) > 0})]
                else:
                    rec[k] = self.canon(v)
            for k in sorted(rec):
                out["%s/tp%d/%s" % (pfx, j, k)] = rec[k]
            for table in (tp.starting_objects, tp.ending_objects):
                for cls, objs in table.items():
                    for o in objs:
                        if id(o) in done:
                            continue
                        done.add(id(o))
                        lab = self.num[id(o)]
                        out[lab + "/id()"] = self.ident(o)
                        for k, v in vars(o).items():
                            out["%s/%s" % (lab, k)] = self.canon(v)

    def group(self, g, parts_index):
        import partitura.score as S

        if isinstance(g, S.Part):
            return ["part", self.num.get(id(g), "?")]
        if isinstance(g, S.PartGroup):
            d = {k: self.canon(v) for k, v in vars(g).items() if k not in ("children", "parent")}
            return ["group", self.ident(g), d, [self.group(c, parts_index) for c in g.children],
                    None if g.parent is None else ["parent", self.ident(g.parent), type(g.parent).__name__]]
        return self.canon(g)

    def scorelike(self, x, pfx="S"):
        import partitura.score as S
        import partitura.performance as P

        if isinstance(x, S.Part):
            self.number_part(x, pfx + "/P0")
            self.part(x, pfx + "/P0")
            self.out[pfx + "/parent"] = self.group(x.parent, None) if x.parent is not None else None
        elif isinstance(x, S.Score):
            for i, p in enumerate(x.parts):
                self.number_part(p, "%s/P%d" % (pfx, i))
            self.out[pfx + "/class"] = ["Score", self.ident(x)]
            for k, v in vars(x).items():
                if k == "parts":
                    self.out[pfx + "/attr/parts"] = [self.num[id(p)] for p in v]
                elif k == "part_structure":
                    self.out[pfx + "/attr/part_structure"] = [self.group(g, None) for g in v]
                else:
                    self.out["%s/attr/%s" % (pfx, k)] = self.canon(v)
            for i, p in enumerate(x.parts):
                self.part(p, "%s/P%d" % (pfx, i))
        elif isinstance(x, S.PartGroup):
            parts = list(S.iter_parts(x))
            for i, p in enumerate(parts):
                self.number_part(p, "%s/P%d" % (pfx, i))
            self.out[pfx + "/group"] = self.group(x, None)
            for i, p in enumerate(parts):
                self.part(p, "%s/P%d" % (pfx, i))
        elif isinstance(x, P.PerformedPart):
            self.ppart(x, pfx + "/PP0")
        elif isinstance(x, P.Performance):
            self.out[pfx + "/class"] = ["Performance", self.ident(x)]
            for k, v in vars(x).items():
                if k == "performedparts":
                    self.out[pfx + "/attr/performedparts"] = len(v)
                else:
                    self.out["%s/attr/%s" % (pfx, k)] = self.canon(v)
            for i, pp in enumerate(x.performedparts):
                self.ppart(pp, "%s/PP%d" % (pfx, i))
        elif isinstance(x, (list, tuple)) and x and all(isinstance(e, (S.Part, S.PartGroup, S.Score, P.PerformedPart, P.Performance)) for e in x):
            self.out[pfx + "/len"] = len(x)
            for i, e in enumerate(x):
                self.scorelike(e, "%s[%d]" % (pfx, i))
        elif isinstance(x, list):
            # e.g. an alignment: list of dicts
            self.out[pfx + "/len"] = len(x)
            for i, e in enumerate(x):
                self.out["%s[%d]" % (pfx, i)] = [self.ident(e) if isinstance(e, dict) else 0, self.canon(e)]
        else:
            self.out[pfx] = self.canon(x)

    def ppart(self, pp, pfx):
        out = self.out
        out[pfx + "/class"] = [type(pp).__name__, self.ident(pp)]
        for k, v in vars(pp).items():
            if k in ("notes", "controls", "programs") and isinstance(v, list):
                out["%s/attr/%s/len" % (pfx, k)] = len(v)
                for i, e in enumerate(v):
                    if hasattr(e, "pnote_dict"):
                        out["%s/%s[%d]" % (pfx, k, i)] = [type(e).__name__, self.ident(e), self.canon(vars(e))]
                    else:
                        out["%s/%s[%d]" % (pfx, k, i)] = [type(e).__name__, self.ident(e), self.canon(e)]
            else:
                out["%s/attr/%s" % (pfx, k)] = self.canon(v)


def fingerprint(args, identity=True):
    """args: tuple/list of the (mutable) arguments of one call -> flat dict path -> value."""
    fp = _FP(identity)
    for i, a in enumerate(args):
        fp.scorelike(a, "A%d" % i)
    return fp.out


def fp_digest(fpd):
    return hashlib.sha1(json.dumps(fpd, sort_keys=True, default=str).encode()).hexdigest()


def fp_diff(a, b, limit=8):
    """paths written (changed / added / removed) between two fingerprints."""
    ks = sorted(set(a) | set(b))
    diff = [k for k in ks if a.get(k, "<absent>") != b.get(k, "<absent>")]
    return diff


def describe_diff(a, b, limit=6):
    d = fp_diff(a, b)
    out = []
    for k in d[:limit]:
        out.append("%s: %s -> %s" % (k, json.dumps(a.get(k, "<absent>"), default=str)[:160], json.dumps(b.get(k, "<absent>"), default=str)[:160]))
    return d, out


def field_of(path):
    """strip object numbers: 'A0/S/P0/o12:Note/symbolic_duration' -> 'Note.symbolic_duration'."""
    import re

    m = re.search(r"/o\d+:(\w+)/(.+)$", path)
    if m:
        return "%s.%s" % (m.group(1), m.group(2))
    m = re.search(r"/tp\d+/(.+)$", path)
    if m:
        return "TimePoint.%s" % m.group(1)
    m = re.search(r"/(P|PP)\d+/attr/(.+)$", path)
    if m:
        return "%s.%s" % ("Part" if m.group(1) == "P" else "PerformedPart", m.group(2))
    m = re.search(r"/PP\d+/(\w+)\[\d+\]$", path)
    if m:
        return "PerformedPart.%s[]" % m.group(1)
    m = re.search(r"/attr/(.+)$", path)
    if m:
        return "container.%s" % m.group(1)
    m = re.search(r"^A(\d+)\[\d+\]$", path)
    if m:
        return "arg%s[]" % m.group(1)
    return re.sub(r"\d+", "#", path)


# ---------------------------------------------------------------------------------------
# 2. Canonical form of results (for "calling again gives an identical result")


def canon_result(r):
    """Result of an entry point -> JSON-able canonical value (identity-free)."""
    import partitura.score as S
    import partitura.performance as P

    if isinstance(r, (S.Part, S.Score, S.PartGroup, P.PerformedPart, P.Performance)):
        return ["obj", fp_digest(fingerprint([r], identity=False))]
    if isinstance(r, np.ndarray):
        if r.dtype == object:
            return ["ndo", [canon_result(x) for x in r.ravel().tolist()]]
        return ["nd", str(r.dtype), list(r.shape), hashlib.sha1(np.ascontiguousarray(r).tobytes()).hexdigest()]
    if hasattr(r, "tocsc") and hasattr(r, "nnz"):
        c = r.tocsc()
        c.sort_indices()
        return ["sp", list(c.shape), canon_result(np.asarray(c.data)), canon_result(np.asarray(c.indices)), canon_result(np.asarray(c.indptr))]
    if isinstance(r, (list, tuple)):
        return ["l", [canon_result(x) for x in r]]
    if isinstance(r, dict):
        return ["d", sorted(([str(k), canon_result(v)] for k, v in r.items()), key=lambda kv: kv[0])]
    if isinstance(r, bytes):
        return ["b", len(r), hashlib.sha1(r).hexdigest()]
    if isinstance(r, (S.TimedObject,)):
        return ["timed", type(r).__name__, r.start.t if r.start is not None else None, r.end.t if r.end is not None else None,
                _FP(False).canon({k: v for k, v in vars(r).items() if k not in ("start", "end")})]
    if isinstance(r, S.Path):
        return ["path", str(r)]
    if type(r).__name__ == "MatchFile":
        return ["match", [str(l.matchline) if hasattr(l, "matchline") else str(l) for l in r.lines]]
    return _FP(False).canon(r)


# ---------------------------------------------------------------------------------------
# 3. Generators (everything is a JSON-able spec; build_* turn a spec into live objects)

STEPS = ["C", "D", "E", "F", "G", "A", "B"]
SYM = {Fraction(4): "whole", Fraction(2): "half", Fraction(1): "quarter", Fraction(1, 2): "eighth",
       Fraction(1, 4): "16th", Fraction(3): ("half", 1), Fraction(3, 2): ("quarter", 1), Fraction(3, 4): ("eighth", 1)}


def gen_part_spec(rng, pid="P0", rich=True, n_meas=None):
    q = rng.choice([1, 2, 4, 4, 12, 12, 480])
    beats = rng.choice([4, 4, 3, 2])
    n_meas = n_meas or rng.randint(2, 6)
    mlen = beats * q
    total = n_meas * mlen
    grid = q // 2 if q % 2 == 0 else q
    if q % 12 == 0 and rng.random() < 0.4:
        grid = q // 3
    spec = {"id": pid, "q": q, "beats": beats, "n_meas": n_meas, "name": rng.choice([None, "Piano", "Vl"]),
            "notes": [], "rests": [], "ties": [], "slurs": [], "tuplets": [], "repeats": [], "endings": [], "nav": [],
            "keysig": None, "clefs": [], "dirs": [], "measures": rng.random() < 0.85, "pickup": False,
            "ids": rng.choice(["all", "all", "none", "some"]), "staves": rng.choice([1, 1, 2])}
    nvoices = rng.choice([1, 1, 2, 3])
    sym_mode = rng.choice(["all", "none", "some", "some"])
    nid = 0
    for v in range(1, nvoices + 1):
        t = 0
        if v > 1:
            t = rng.choice([0, grid, mlen]) if rng.random() < 0.5 else 0
        while t < total:
            d = rng.choice([1, 1, 2, 2, 3, 4]) * grid
            if rng.random() < 0.12:
                d = rng.choice([mlen, mlen + grid, 2 * mlen])  # crosses barlines
            d = min(d, total - t)
            if d <= 0:
                break
            kind = "note" if rng.random() < 0.85 else "rest"
            staff = 1 if spec["staves"] == 1 else rng.choice([1, 2])
            qd = Fraction(d, q)
            sd = None
            if sym_mode == "all" or (sym_mode == "some" and rng.random() < 0.5):
                s = SYM.get(qd)
                if s is not None:
                    sd = {"type": s} if isinstance(s, str) else {"type": s[0], "dots": s[1]}
            has_id = spec["ids"] == "all" or (spec["ids"] == "some" and rng.random() < 0.5)
            if kind == "note":
                chord = 1 if rng.random() < 0.8 else rng.choice([2, 3])
                base = rng.randint(0, 6)
                for c in range(chord):
                    spec["notes"].append({"t": t, "d": d, "step": STEPS[(base + 2 * c) % 7], "alter": rng.choice([None, None, 0, 1, -1]),
                                          "oct": rng.randint(2, 6), "voice": rng.choice([v, v, None]) if rng.random() < 0.1 else v,
                                          "staff": staff if rng.random() < 0.9 else None, "sym": sd,
                                          "id": ("n%d" % nid) if has_id else None,
                                          "grace": False})
                    nid += 1
                if rng.random() < 0.06:
                    spec["notes"].append({"t": t, "d": 0, "step": rng.choice(STEPS), "alter": None, "oct": 5, "voice": v, "staff": staff,
                                          "sym": {"type": "eighth"}, "id": ("n%d" % nid) if has_id else None, "grace": True})
                    nid += 1
            else:
                spec["rests"].append({"t": t, "d": d, "voice": v, "staff": staff, "sym": sd, "id": ("r%d" % nid) if has_id else None})
                nid += 1
            t += d
    nn = len(spec["notes"])
    real = [i for i, n in enumerate(spec["notes"]) if not n["grace"]]
    if rich and len(real) >= 2:
        # ties between consecutive same-voice notes (pitch copied)
        for _ in range(rng.choice([0, 0, 1, 2])):
            i = rng.choice(real)
            a = spec["notes"][i]
            cands = [j for j in real if spec["notes"][j]["t"] == a["t"] + a["d"] and spec["notes"][j]["voice"] == a["voice"]]
            if cands:
                j = cands[0]
                for k in ("step", "alter", "oct"):
                    spec["notes"][j][k] = a[k]
                if all(i != x and j != y for x, y in spec["ties"]):
                    spec["ties"].append([i, j])
        for _ in range(rng.choice([0, 1, 1, 2])):
            i, j = sorted(rng.sample(real, 2))
            spec["slurs"].append([i, j])
        for _ in range(rng.choice([0, 0, 1])):
            i, j = sorted(rng.sample(real, 2))
            spec["tuplets"].append([i, j, 3, 2])
    if rich:
        if rng.random() < 0.6:
            spec["keysig"] = [rng.randint(-5, 5), rng.choice(["major", "minor", None])]
        for s in range(1, spec["staves"] + 1):
            if rng.random() < 0.6:
                spec["clefs"].append([0, s, rng.choice([["G", 2], ["F", 4], ["C", 3]])])
        if rng.random() < 0.2:
            spec["clefs"].append([mlen, 1, ["F", 4]])
        for _ in range(rng.choice([0, 0, 1, 2])):
            spec["dirs"].append([rng.choice(["f", "p", "tempo", "cresc", "words", "fermata"]), rng.randrange(0, total, grid)])
        if rng.random() < 0.15:
            spec["ts2"] = [rng.randrange(1, n_meas) * mlen, rng.choice([[3, 4], [6, 8], [2, 4]])]
        # navigation: weights on the combinations singled out by the property (segments are created lazily)
        r = rng.random()
        bars = [k * mlen for k in range(n_meas + 1)]
        if r < 0.25 and n_meas >= 2:
            e = rng.choice(bars[1:])
            s = rng.choice([b for b in bars if b < e])
            spec["repeats"].append([s, e])
        elif r < 0.45 and n_meas >= 3:
            k = rng.randint(1, n_meas - 2)
            spec["repeats"].append([0, bars[k + 1]])
            spec["endings"].append([bars[k], bars[k + 1], "1"])
            spec["endings"].append([bars[k + 1], bars[k + 2], "2"])
        elif r < 0.65 and n_meas >= 3:
            spec["repeats"].append([0, bars[1]])
            spec["nav"].append(["fine", bars[2]])
            spec["nav"].append(["dacapo", bars[-1]])
        elif r < 0.75 and n_meas >= 4:
            spec["nav"].append(["segno", bars[1]])
            spec["nav"].append(["tocoda", bars[2]])
            spec["nav"].append(["dalsegno", bars[3]])
            spec["nav"].append(["coda", bars[3]])
        elif r < 0.8 and n_meas >= 4:
            spec["repeats"].append([0, bars[1]])
            spec["repeats"].append([bars[2], bars[3]])
    return spec


def build_part(spec):
    import partitura.score as S

    q = spec["q"]
    p = S.Part(spec["id"], part_name=spec.get("name"), quarter_duration=q)
    mlen = spec["beats"] * q
    total = spec["n_meas"] * mlen
    p.add(S.TimeSignature(spec["beats"], 4), 0)
    if spec.get("ts2"):
        p.add(S.TimeSignature(*spec["ts2"][1]), spec["ts2"][0])
    if spec.get("keysig"):
        p.add(S.KeySignature(spec["keysig"][0], spec["keysig"][1]), 0)
    for t, staff, (sign, line) in spec.get("clefs", []):
        p.add(S.Clef(staff=staff, sign=sign, line=line, octave_change=0), t)
    objs = []
    for n in spec["notes"]:
        if n["grace"]:
            o = S.GraceNote("acciaccatura", step=n["step"], octave=n["oct"], alter=n["alter"], id=n["id"], voice=n["voice"], staff=n["staff"],
                            symbolic_duration=dict(n["sym"]) if n["sym"] else None)
            p.add(o, n["t"], n["t"])
        else:
            o = S.Note(step=n["step"], octave=n["oct"], alter=n["alter"], id=n["id"], voice=n["voice"], staff=n["staff"],
                       symbolic_duration=dict(n["sym"]) if n["sym"] else None)
            p.add(o, n["t"], n["t"] + n["d"])
        objs.append(o)
    for r in spec["rests"]:
        p.add(S.Rest(id=r["id"], voice=r["voice"], staff=r["staff"], symbolic_duration=dict(r["sym"]) if r["sym"] else None), r["t"], r["t"] + r["d"])
    for i, j in spec["ties"]:
        objs[i].tie_next = objs[j]
        objs[j].tie_prev = objs[i]
    for i, j in spec["slurs"]:
        sl = S.Slur(objs[i], objs[j])
        p.add(sl, objs[i].start.t, objs[j].end.t)
    for i, j, an, nn in spec["tuplets"]:
        tu = S.Tuplet(objs[i], objs[j], actual_notes=an, normal_notes=nn)
        p.add(tu, objs[i].start.t, objs[j].end.t)
    for kind, t in spec.get("dirs", []):
        if kind in ("f", "p"):
            p.add(S.ConstantLoudnessDirection(kind), t)
        elif kind == "tempo":
            p.add(S.Tempo(96, "q"), t)
        elif kind == "cresc":
            p.add(S.IncreasingLoudnessDirection("cresc."), t, min(total, t + mlen))
        elif kind == "words":
            p.add(S.Words("dolce"), t)
        elif kind == "fermata":
            p.add(S.Fermata(None), t)
    for s, e in spec["repeats"]:
        p.add(S.Repeat(), s, e)
    for s, e, num in spec["endings"]:
        p.add(S.Ending(num), s, e)
    for kind, t in spec["nav"]:
        cls = {"fine": S.Fine, "dacapo": S.DaCapo, "segno": S.Segno, "dalsegno": S.DalSegno, "coda": S.Coda, "tocoda": S.ToCoda}[kind]
        p.add(cls(), t)
    if spec.get("measures", True):
        S.add_measures(p)
    if spec.get("segments"):
        S.add_segments(p)
    if spec.get("musical_beat"):
        p.use_musical_beat()
    return p


def gen_score_spec(rng):
    npart = rng.choice([1, 1, 2, 2, 3])
    n_meas = rng.randint(2, 5)
    parts = [gen_part_spec(rng, "P%d" % i, n_meas=n_meas) for i in range(npart)]
    return {"parts": parts, "group": npart >= 2 and rng.random() < 0.5, "title": rng.choice([None, "T"]),
            "as": rng.choice(["score", "score", "score", "part", "list"])}


def build_score(spec):
    import partitura.score as S

    parts = [build_part(ps) for ps in spec["parts"]]
    if spec.get("group") and len(parts) >= 2:
        g = S.PartGroup(group_symbol="bracket", group_name="G", number=1)
        g.children = parts[:2]
        for p in parts[:2]:
            p.parent = g
        structure = [g] + parts[2:]
    else:
        structure = parts
    sc = S.Score(structure, id="sc", title=spec.get("title"), composer="anon")
    return sc


def gen_ppart_spec(rng, pid="PP0"):
    n = rng.randint(0, 14) if rng.random() < 0.1 else rng.randint(3, 14)
    notes = []
    t = 0.0
    for i in range(n):
        t += rng.choice([0.0, 0.125, 0.25, 0.5])
        d = rng.choice([0.125, 0.25, 0.5, 1.0])
        nd = {"midi_pitch": rng.randint(30, 100), "note_on": t, "note_off": t + d, "velocity": rng.randint(1, 127)}
        if rng.random() < 0.8:
            nd["id"] = "pn%d" % i
        if rng.random() < 0.5:
            nd["track"] = rng.choice([0, 1])
            nd["channel"] = rng.choice([0, 1, 9])
        notes.append(nd)
    controls = []
    for _ in range(rng.choice([0, 0, 2, 5])):
        c = {"time": rng.choice([0.0, 0.25, 0.75, 1.5, 3.0]), "number": rng.choice([64, 64, 67, 7]), "value": rng.choice([0, 20, 64, 100, 127])}
        if rng.random() < 0.5:
            c["track"] = 0
            c["channel"] = 0
        controls.append(c)
    programs = []
    if rng.random() < 0.3:
        programs.append({"time": 0.0, "program": rng.randint(0, 20), "track": 0, "channel": 0})
    return {"id": pid, "notes": notes, "controls": controls, "programs": programs,
            "threshold": rng.choice([64, 64, 30, 127]), "ppq": rng.choice([480, 96]), "mpq": rng.choice([500000, 600000])}


def build_ppart(spec):
    import partitura.performance as P

    return P.PerformedPart([dict(n) for n in spec["notes"]], id=spec["id"], part_name="perf",
                           controls=[dict(c) for c in spec["controls"]], programs=[dict(c) for c in spec["programs"]],
                           sustain_pedal_threshold=spec["threshold"], ppq=spec["ppq"], mpq=spec["mpq"])


def gen_perf_spec(rng):
    n = rng.choice([1, 1, 2, 3])
    return {"pparts": [gen_ppart_spec(rng, "PP%d" % i) for i in range(n)], "as": rng.choice(["performance", "performance", "ppart", "list"]),
            "unique_tracks": rng.random() < 0.3}


def build_perf(spec):
    import partitura.performance as P

    return P.Performance([build_ppart(s) for s in spec["pparts"]], id="perf", performer="x", title="t",
                         ensure_unique_tracks=bool(spec.get("unique_tracks")))


def gen_alignment_spec(rng):
    """A part (ids on every note), a performed part derived from it, and an alignment."""
    ps = gen_part_spec(rng, "P0")
    ps["ids"] = "all"
    k = 0
    for n in ps["notes"]:
        n["id"] = "n%d" % k
        k += 1
    return {"part": ps, "bpm": rng.choice([60, 100, 120]), "drop": rng.random(), "seed": rng.randrange(1 << 30)}


def build_alignment(spec):
    import random

    import partitura.score as S
    from partitura.utils.music import performance_from_part

    part = build_part(spec["part"])
    rr = random.Random(spec["seed"])
    ppart = None
    perf = performance_from_part(part, bpm=spec["bpm"])
    ppart = perf[0] if not hasattr(perf, "notes") else perf
    sids = [n.id for n in part.notes_tied]
    al = []
    pids = {pn["id"]: pn for pn in ppart.notes}
    for sid in sids:
        r = rr.random()
        if sid in pids and r < 0.8:
            al.append({"label": "match", "score_id": sid, "performance_id": sid})
        elif sid in pids and r < 0.9:
            al.append({"label": "deletion", "score_id": sid})
            al.append({"label": "insertion", "performance_id": sid})
        else:
            al.append({"label": "deletion", "score_id": sid})
            if sid in pids:
                al.append({"label": "insertion", "performance_id": sid})
    return al, ppart, part


# ---------------------------------------------------------------------------------------
# 4. Read-only entry points.  Each takes the argument tuple and a parameter dict (JSON-able,
# part of the replay) and returns the raw result.  kind: which argument shapes it accepts.

MAPS = ["beat_map", "inv_beat_map", "quarter_map", "inv_quarter_map", "quarter_duration_map", "time_signature_map",
        "key_signature_map", "measure_map", "measure_number_map", "metrical_position_map", "clef_map"]
VIEWS = ["notes", "notes_tied", "measures", "rests", "repeats", "key_sigs", "time_sigs", "dynamics", "articulations",
         "first_point", "last_point", "number_of_staves", "measure_number_map", "quarter_durations", "note_array_default"]


def _parts_of(x):
    import partitura.score as S

    if isinstance(x, S.Part):
        return [x]
    if isinstance(x, S.Score):
        return list(x.parts)
    return list(S.iter_parts(x))


def _times_of(part):
    ts = sorted({int(tp.t) for tp in part._points})
    if not ts:
        return np.array([0, 1])
    out = set(ts)
    for a, b in zip(ts, ts[1:]):
        out.add((a + b) // 2)
    out.add(ts[-1] + 3)
    return np.array(sorted(out))


def ep_save_musicxml(args, prm):
    import partitura as pt

    return pt.save_musicxml(args[0], out=None)


def ep_save_score_midi(args, prm):
    import partitura as pt

    buf = io.BytesIO()
    pt.save_score_midi(args[0], buf, part_voice_assign_mode=prm.get("mode", 0), anacrusis_behavior=prm.get("anacrusis", "shift"))
    return buf.getvalue()


def ep_note_array(args, prm):
    import partitura.score as S
    from partitura.utils.music import note_array_from_part_list

    x = args[0]
    kw = dict(prm.get("flags", {}))
    if isinstance(x, (S.Part, S.Score)):
        return x.note_array(**kw)
    return note_array_from_part_list(x, **kw)


def ep_rest_array(args, prm):
    import partitura.score as S
    from partitura.utils.music import rest_array_from_part_list

    import inspect

    x = args[0]
    kw = dict(prm.get("rflags", {}))
    if isinstance(x, S.Part):
        return x.rest_array(**kw)
    ok = set(inspect.signature(rest_array_from_part_list).parameters)
    return rest_array_from_part_list(_parts_of(x), **{k: v for k, v in kw.items() if k in ok})


def ep_ensure_notearray(args, prm):
    from partitura.utils.music import ensure_notearray

    return ensure_notearray(args[0])


def ep_pianoroll(args, prm):
    from partitura.utils.music import compute_pianoroll

    return compute_pianoroll(args[0], time_div=prm.get("time_div", "auto"), return_idxs=prm.get("return_idxs", False),
                             onset_only=prm.get("onset_only", False), piano_range=prm.get("piano_range", False))


def ep_maps(args, prm):
    out = []
    for p in _parts_of(args[0]):
        ts = _times_of(p)
        for m in MAPS:
            try:
                f = getattr(p, m)
                out.append([m, f(ts), f(int(ts[0]))])
            except Exception as e:  # a crashing map is not C20's business; its effect on the argument is
                out.append([m, "raised", type(e).__name__])
    return out


def ep_pretty(args, prm):
    return [p.pretty() for p in _parts_of(args[0])]


def ep_views(args, prm):
    out = []
    for p in _parts_of(args[0]):
        for v in VIEWS:
            try:
                if v == "quarter_durations":
                    r = p.quarter_durations()
                elif v == "note_array_default":
                    r = p.note_array()
                elif v == "measure_number_map":
                    r = p.measure_number_map(_times_of(p))
                else:
                    r = getattr(p, v)
                if isinstance(r, list):
                    r = [[type(o).__name__, getattr(o, "id", None), o.start.t if getattr(o, "start", None) is not None else None] for o in r]
                elif hasattr(r, "t") and hasattr(r, "starting_objects"):
                    r = ["tp", r.t]
                out.append([v, r])
            except Exception as e:
                out.append([v, "raised", type(e).__name__])
    return out


def ep_unfold_max(args, prm):
    import partitura.score as S

    return S.unfold_part_maximal(args[0], update_ids=prm.get("update_ids", True), ignore_leaps=prm.get("ignore_leaps", True))


def ep_unfold_min(args, prm):
    import partitura.score as S

    return S.unfold_part_minimal(args[0])


def ep_iter_unfolded(args, prm):
    import partitura.score as S

    out = []
    for p in _parts_of(args[0]):
        for k, u in enumerate(S.iter_unfolded_parts(p, update_ids=prm.get("update_ids", True))):
            out.append(u)
            if k >= 5:
                break
    return out


def ep_paths(args, prm):
    import partitura.score as S

    out = []
    for p in _parts_of(args[0]):
        out.append([str(x) for x in S.get_paths(p, no_repeats=prm.get("no_repeats", False), all_repeats=prm.get("all_repeats", False),
                                                ignore_leap_info=prm.get("ignore_leaps", True))][:64])
    return out


def ep_segments(args, prm):
    import partitura.score as S

    out = []
    for p in _parts_of(args[0]):
        segs = p.segments
        out.append([[s.id, list(s.to), list(s.await_to), s.type, s.info, s.force_full_sequence, s.start.t, s.end.t] for s in segs])
        out.append(S.pretty_segments(p))
    return out


def ep_spelling(args, prm):
    from partitura.musicanalysis import estimate_spelling

    return [estimate_spelling(p) for p in _parts_of(args[0])]


def ep_voices(args, prm):
    from partitura.musicanalysis import estimate_voices

    return [estimate_voices(p, monophonic_voices=prm.get("mono", True)) for p in _parts_of(args[0])]


def ep_key(args, prm):
    from partitura.musicanalysis import estimate_key

    return [estimate_key(p) for p in _parts_of(args[0])]


def ep_transpose(args, prm):
    import partitura.score as S
    from partitura.utils.music import transpose

    num, qual, direction = prm.get("interval", [2, "M", "up"])
    return transpose(args[0], S.Interval(num, qual, direction))


def ep_iterate(args, prm):
    """the container protocol used as a client would: nested loops, list(), len, indexing."""
    c = args[0]
    if not hasattr(c, "__len__") or isinstance(c, list):
        return None
    n = len(c)
    items = [c[i] for i in range(n)]
    pairs = [(items.index(a), items.index(b)) for a in c for b in c]
    return [n, [items.index(a) for a in c], pairs, [items.index(a) for a in reversed(c)] if n else []]


def ep_save_performance_midi(args, prm):
    import partitura as pt

    buf = io.BytesIO()
    pt.save_performance_midi(args[0], buf, mpq=prm.get("mpq", 500000), ppq=prm.get("ppq", 480),
                             merge_tracks_save=prm.get("merge", False))
    return buf.getvalue()


def ep_perf_note_array(args, prm):
    from partitura.utils.music import note_array_from_part_list

    x = args[0]
    if isinstance(x, list):
        return note_array_from_part_list(x)
    return x.note_array()


def ep_perf_views(args, prm):
    import partitura.performance as P

    x = args[0]
    out = []
    if isinstance(x, P.Performance):
        out.append(["num_tracks", x.num_tracks])
    pps = [x] if isinstance(x, P.PerformedPart) else list(x.performedparts) if isinstance(x, P.Performance) else list(x)
    for pp in pps:
        out.append([pp.sustain_pedal_threshold, pp.num_tracks if hasattr(pp, "num_tracks") else None, str(pp.notes[0]) if pp.notes else None])
    return out


def ep_matchfile(args, prm):
    from partitura.io.exportmatch import matchfile_from_alignment

    al, ppart, part = args
    return matchfile_from_alignment(al, ppart, part, assume_part_unfolded=prm.get("assume_unfolded", False),
                                    performer="p", composer="c", piece="x")


def ep_save_match(args, prm):
    import partitura as pt

    al, ppart, part = args
    path = os.path.join(prm["_work"], "c20_out.match")
    pt.save_match(al, ppart, part, out=path, assume_unfolded=prm.get("assume_unfolded", False))
    with open(path, "rb") as f:
        data = f.read()
    os.remove(path)
    return data


def ep_unfold_alignment(args, prm):
    import partitura.score as S

    al, ppart, part = args
    return S.unfold_part_alignment(part, al)


ENTRY = {
    # name: (function, kinds)
    "save_musicxml": (ep_save_musicxml, ("score",)),
    "save_score_midi": (ep_save_score_midi, ("score",)),
    "note_array": (ep_note_array, ("score",)),
    "rest_array": (ep_rest_array, ("score",)),
    "ensure_notearray": (ep_ensure_notearray, ("score1",)),
    "compute_pianoroll": (ep_pianoroll, ("score", "perf")),
    "maps": (ep_maps, ("score",)),
    "pretty": (ep_pretty, ("score",)),
    "views": (ep_views, ("score",)),
    "unfold_part_maximal": (ep_unfold_max, ("score1",)),
    "unfold_part_minimal": (ep_unfold_min, ("score1",)),
    "iter_unfolded_parts": (ep_iter_unfolded, ("score",)),
    "get_paths": (ep_paths, ("score",)),
    "segments": (ep_segments, ("score",)),
    "estimate_spelling": (ep_spelling, ("score",)),
    "estimate_voices": (ep_voices, ("score",)),
    "estimate_key": (ep_key, ("score",)),
    "transpose": (ep_transpose, ("score1",)),
    "iterate": (ep_iterate, ("score", "perf")),
    "save_performance_midi": (ep_save_performance_midi, ("perf",)),
    "perf_note_array": (ep_perf_note_array, ("perf",)),
    "perf_views": (ep_perf_views, ("perf",)),
    "matchfile_from_alignment": (ep_matchfile, ("align",)),
    "save_match": (ep_save_match, ("align",)),
    "unfold_part_alignment": (ep_unfold_alignment, ("align",)),
}


def entries_for(kind, arg):
    import partitura.score as S

    out = []
    for name, (f, kinds) in ENTRY.items():
        if kind in kinds:
            out.append(name)
        elif kind == "score" and "score1" in kinds and isinstance(arg, (S.Part, S.Score)):
            out.append(name)
    return out


def call_entry(name, args, prm):
    """-> ('ok', canonical result) | ('raised', exception type name)."""
    f = ENTRY[name][0]
    try:
        r = f(args, prm)
    except RecursionError:
        return ("raised", "RecursionError")
    except Exception as e:
        return ("raised", type(e).__name__ + ":" + str(e)[:80])
    return ("ok", canon_result(r))


def gen_params(rng, work):
    flags = {k: True for k in ["include_pitch_spelling", "include_key_signature", "include_time_signature", "include_metrical_position",
                               "include_grace_notes", "include_staff", "include_divs_per_quarter"] if rng.random() < 0.4}
    rflags = {k: True for k in ["include_pitch_spelling", "include_key_signature", "include_time_signature", "include_metrical_position",
                                "include_grace_notes", "include_staff", "collapse"] if rng.random() < 0.3}
    return {"flags": flags, "rflags": rflags, "mode": rng.choice([0, 0, 1, 2, 3, 4, 5]), "anacrusis": rng.choice(["shift", "pad_bar", "time_sig_change"]),
            "time_div": rng.choice(["auto", 4, 8]), "return_idxs": rng.random() < 0.3, "onset_only": rng.random() < 0.2,
            "piano_range": rng.random() < 0.2, "update_ids": rng.random() < 0.7, "ignore_leaps": rng.random() < 0.7,
            "no_repeats": rng.random() < 0.2, "all_repeats": rng.random() < 0.3, "mono": rng.random() < 0.7,
            "interval": rng.choice([[2, "M", "up"], [3, "m", "down"], [5, "P", "up"], [1, "A", "up"]]),
            "mpq": rng.choice([500000, 400000]), "ppq": rng.choice([480, 96]), "merge": rng.random() < 0.3,
            "assume_unfolded": rng.random() < 0.3, "_work": work}


# ---------------------------------------------------------------------------------------
# 5. One case: build the argument, call the entry points in a seeded order, watch the
# fingerprint and the results.


def build_case(case):
    """case = {'kind': 'score'|'perf'|'align'|'file', 'spec': ...} -> (kind, args tuple)."""
    import partitura as pt
    import partitura.score as S

    k = case["kind"]
    if k == "score":
        sc = build_score(case["spec"])
        how = case["spec"].get("as", "score")
        if how == "part":
            return "score", (sc.parts[0],)
        if how == "list":
            return "score", (list(sc.parts),)
        return "score", (sc,)
    if k == "perf":
        pf = build_perf(case["spec"])
        how = case["spec"].get("as", "performance")
        if how == "ppart":
            return "perf", (pf.performedparts[0],)
        if how == "list":
            return "perf", (list(pf.performedparts),)
        return "perf", (pf,)
    if k == "align":
        return "align", tuple(build_alignment(case["spec"]))
    if k == "file":
        path = os.path.join(core.REPO, "tests", "data", case["path"])
        if case["loader"] == "score":
            return "score", (pt.load_score(path),)
        if case["loader"] == "perf":
            return "perf", (pt.load_performance(path),)
        if case["loader"] == "match":
            perf, al, sc = pt.load_match(path, create_score=True)
            return "align", (al, perf[0], sc[0])
    raise ValueError(k)


def run_case(case, schedule, prm, fresh_checks=()):
    """Run `schedule` (list of entry names) on the built case.
    -> list of findings: dicts {type, entry, fields, detail}, plus trace rows for the Coq trace checker."""
    kind, args = build_case(case)
    findings = []
    trace = []
    fp0 = fingerprint(args)
    fp_prev = fp0
    d_prev = fp_digest(fp0)
    results = {}
    dirty = False
    for step, name in enumerate(schedule):
        res = call_entry(name, args, prm)
        fp = fingerprint(args)
        d = fp_digest(fp)
        rd = hashlib.sha1(json.dumps(res, sort_keys=True, default=str).encode()).hexdigest()
        trace.append((name, d_prev, d, rd))
        if d != d_prev:
            paths, desc = describe_diff(fp_prev, fp)
            findings.append({"type": "mutates", "entry": name, "step": step, "fields": sorted({field_of(p) for p in paths}),
                             "npaths": len(paths), "detail": desc, "outcome": res[0]})
            dirty = True
        elif name in results and results[name] != res and not dirty:
            findings.append({"type": "not_repeatable", "entry": name, "step": step, "fields": [],
                             "detail": [json.dumps(results[name], default=str)[:300], json.dumps(res, default=str)[:300]], "outcome": res[0]})
        results.setdefault(name, res)
        fp_prev, d_prev = fp, d
    # each call's result is a function of the initial store: compare with a call on a fresh, untouched build
    for name in fresh_checks:
        if name not in results or dirty:
            continue
        k2, args2 = build_case(case)
        res2 = call_entry(name, args2, prm)
        if res2 != results[name]:
            findings.append({"type": "history_dependent", "entry": name, "step": -1, "fields": [],
                             "detail": [json.dumps(results[name], default=str)[:300], json.dumps(res2, default=str)[:300]], "outcome": res2[0]})
    return findings, trace, results
