"""C20 -- exports, views and analyses never modify their argument and are repeatable;
Score / Performance support len, indexing and (re-entrant) iteration consistently.

Proof side (coq/Props/C20.v): the container protocol as a state machine over histories
(Model/C20.v: `fresh` = what score.py/performance.py implement, `shared` = the old design,
refuted) and the effect discipline (read-only operations compose to the identity on the
store, results are functions of the initial store).

Tie to the source (this module):
 * container protocol: generated interleavings of several live iterators / len / indexing
   over real Score and Performance objects, observed results evaluated against the Coq model
   (`ctx.coq_failing`, checker `C20.hist_ok`) and against a direct Python oracle;
 * footprints: a deep canonical fingerprint of the argument before / after every read-only
   entry point (once, twice, seeded random orders); observed traces are also passed to the
   Coq trace checker `C20.trace_ok` (every store digest equals the initial one, equal
   operations give equal result digests), whose soundness/completeness w.r.t. the effect
   model is proved;
 * negative side: the documented in-place operations do change the fingerprint (this is
   also the sensitivity self-test of the fingerprint).
"""
import hashlib
import io
import json
import os
import sys
import traceback
import types
from collections import defaultdict
from fractions import Fraction

import numpy as np

import core
from core import cz, cnat, cstr, clist, ctuple, copt, cbool

# ---------------------------------------------------------------------------------------
# 1. Deep canonical fingerprint
#
# fingerprint(x, identity) -> dict path -> canonical JSON-able value.  `identity=True` adds
# the Python identity of every timed object / time point / performed note / part, which is
# what "same objects" means; results of two calls are compared with identity=False.
#
# Ignored on purpose (and only this): EMPTY per-class slots of TimePoint.starting_objects /
# ending_objects.  They are created by every read (`defaultdict.__getitem__` inside
# TimePoint.iter_starting / iter_ending, i.e. by every Part.iter_all / Part.notes ...), the
# accessors iter_starting/iter_ending/iter_all/iter_prev/iter_next enumerate classes through
# the class hierarchy (not through the dict keys), Part.pretty sorts the classes by name and
# drops empty ones, Part.remove/_cleanup_point sum the lengths.  So an empty slot cannot be
# observed through the public API; the relative order of the NON-empty classes and the order
# of the objects inside each class are kept in the fingerprint.


def _is_timed(o):
    import partitura.score as S

    return isinstance(o, S.TimedObject)


class _FP:
    def __init__(self, identity):
        self.identity = identity
        self.out = {}
        self.num = {}  # id(obj) -> label of numbered objects (timed objects, parts, pnotes)
        self.keep = []  # keep referenced objects alive (ids stay unique)

    def ident(self, o):
        return id(o) if self.identity else 0

    # -- generic canonical value
    def canon(self, v, depth=0, seen=()):
        import partitura.score as S
        import partitura.performance as P

        if v is None or isinstance(v, (bool, str)):
            return v
        if isinstance(v, (int,)):
            return ["i", int(v)]
        if isinstance(v, float):
            return ["f", repr(v)]
        if isinstance(v, (np.integer,)):
            return ["ni", str(v.dtype), int(v)]
        if isinstance(v, (np.floating,)):
            return ["nf", str(v.dtype), repr(float(v))]
        if isinstance(v, np.bool_):
            return ["nb", bool(v)]
        if isinstance(v, Fraction):
            return ["q", v.numerator, v.denominator]
        if isinstance(v, bytes):
            return ["b", hashlib.sha1(v).hexdigest()]
        if id(v) in self.num:
            return ["ref", self.num[id(v)]]
        if isinstance(v, S.TimePoint):
            return ["tp", v.t, self.ident(v)]
        if isinstance(v, np.ndarray):
            if v.dtype == object:
                return ["ndo", list(v.shape), [self.canon(x, depth + 1, seen) for x in v.ravel().tolist()]]
            return ["nd", str(v.dtype), list(v.shape), hashlib.sha1(np.ascontiguousarray(v).tobytes()).hexdigest()]
        if id(v) in seen or depth > 12:
            return ["cycle", type(v).__name__]
        seen = seen + (id(v),)
        if isinstance(v, (list, tuple)):
            return ["l" if isinstance(v, list) else "t", [self.canon(x, depth + 1, seen) for x in v]]
        if isinstance(v, (set, frozenset)):
            return ["s", sorted((self.canon(x, depth + 1, seen) for x in v), key=lambda z: json.dumps(z, sort_keys=True, default=str))]
        if isinstance(v, dict):
            items = [(self.canon(k, depth + 1, seen), self.canon(x, depth + 1, seen)) for k, x in v.items()]
            items.sort(key=lambda kv: json.dumps(kv[0], sort_keys=True, default=str))
            return ["d", type(v).__name__, [[k, x] for k, x in items]]
        if isinstance(v, (types.FunctionType, types.MethodType, types.BuiltinFunctionType, type)):
            return ["fn", getattr(v, "__qualname__", str(v))]
        if isinstance(v, S.TimedObject):
            # a timed object that is not registered in the fingerprinted part(s)
            return ["ext", type(v).__name__, self.ident(v), v.start.t if v.start is not None else None,
                    v.end.t if v.end is not None else None,
                    self.canon({k: x for k, x in vars(v).items() if k not in ("start", "end")}, depth + 1, seen)]
        d = getattr(v, "__dict__", None)
        if d is not None:
            return ["o", type(v).__name__, self.canon(dict(d), depth + 1, seen)]
        slots = getattr(type(v), "__slots__", None)
        if slots:
            return ["o", type(v).__name__, self.canon({s: getattr(v, s, None) for s in slots}, depth + 1, seen)]
        return ["r", type(v).__name__, repr(v)]

    # -- score side
    def number_part(self, part, pfx):
        self.num[id(part)] = pfx
        n = 0
        for tp in part._points:
            for table in (tp.starting_objects, tp.ending_objects):
                for cls, objs in table.items():
                    for o in objs:
                        if id(o) not in self.num:
                            self.num[id(o)] = "%s/o%d:%s" % (pfx, n, type(o).__name__)
                            n += 1

    def part(self, part, pfx):
        out = self.out
        out[pfx + "/class"] = [type(part).__name__, self.ident(part)]
        for k, v in vars(part).items():
            if k == "_points":
                continue
            out["%s/attr/%s" % (pfx, k)] = self.canon(v)
        pts = list(part._points)
        out[pfx + "/npoints"] = len(pts)
        done = set()
        for j, tp in enumerate(pts):
            rec = {"t": self.canon(tp.t), "id": self.ident(tp),
                   "prev_is_pred": (tp.prev is (pts[j - 1] if j > 0 else None)),
                   "next_is_succ": (tp.next is (pts[j + 1] if j + 1 < len(pts) else None)),
                   "prev": self.canon(tp.prev), "next": self.canon(tp.next)}
            for k, v in vars(tp).items():
                if k in ("t", "prev", "next"):
                    continue
                if k in ("starting_objects", "ending_objects"):
                    rec[k] = [[cls.__name__, [self.num[id(o)] for o in objs]] for cls, objs in v.items() if len(objs) > 0]
                    rec[k + "_type"] = [type(v).__name__, sorted({type(objs).__name__ for objs in v.values()})]
                else:
                    rec[k] = self.canon(v)
            for k in sorted(rec):
                out["%s/tp%d/%s" % (pfx, j, k)] = rec[k]
            for table in (tp.starting_objects, tp.ending_objects):
                for cls, objs in table.items():
                    for o in objs:
                        if id(o) in done:
                            continue
                        done.add(id(o))
                        lab = self.num[id(o)]
                        out[lab + "/id()"] = self.ident(o)
                        for k, v in vars(o).items():
                            out["%s/%s" % (lab, k)] = self.canon(v)

    def group(self, g, parts_index):
        import partitura.score as S

        if isinstance(g, S.Part):
            return ["part", self.num.get(id(g), "?")]
        if isinstance(g, S.PartGroup):
            d = {k: self.canon(v) for k, v in vars(g).items() if k not in ("children", "parent")}
            return ["group", self.ident(g), d, [self.group(c, parts_index) for c in g.children],
                    None if g.parent is None else ["parent", self.ident(g.parent), type(g.parent).__name__]]
        return self.canon(g)

    def scorelike(self, x, pfx="S"):
        import partitura.score as S
        import partitura.performance as P

        if isinstance(x, S.Part):
            self.number_part(x, pfx + "/P0")
            self.part(x, pfx + "/P0")
            self.out[pfx + "/parent"] = self.group(x.parent, None) if x.parent is not None else None
        elif isinstance(x, S.Score):
            for i, p in enumerate(x.parts):
                self.number_part(p, "%s/P%d" % (pfx, i))
            self.out[pfx + "/class"] = ["Score", self.ident(x)]
            for k, v in vars(x).items():
                if k == "parts":
                    self.out[pfx + "/attr/parts"] = [self.num[id(p)] for p in v]
                elif k == "part_structure":
                    self.out[pfx + "/attr/part_structure"] = [self.group(g, None) for g in v]
                else:
                    self.out["%s/attr/%s" % (pfx, k)] = self.canon(v)
            for i, p in enumerate(x.parts):
                self.part(p, "%s/P%d" % (pfx, i))
        elif isinstance(x, S.PartGroup):
            parts = list(S.iter_parts(x))
            for i, p in enumerate(parts):
                self.number_part(p, "%s/P%d" % (pfx, i))
            self.out[pfx + "/group"] = self.group(x, None)
            for i, p in enumerate(parts):
                self.part(p, "%s/P%d" % (pfx, i))
        elif isinstance(x, P.PerformedPart):
            self.ppart(x, pfx + "/PP0")
        elif isinstance(x, P.Performance):
            self.out[pfx + "/class"] = ["Performance", self.ident(x)]
            for k, v in vars(x).items():
                if k == "performedparts":
                    self.out[pfx + "/attr/performedparts"] = len(v)
                else:
                    self.out["%s/attr/%s" % (pfx, k)] = self.canon(v)
            for i, pp in enumerate(x.performedparts):
                self.ppart(pp, "%s/PP%d" % (pfx, i))
        elif isinstance(x, (list, tuple)) and x and all(isinstance(e, (S.Part, S.PartGroup, S.Score, P.PerformedPart, P.Performance)) for e in x):
            self.out[pfx + "/len"] = len(x)
            for i, e in enumerate(x):
                self.scorelike(e, "%s[%d]" % (pfx, i))
        elif isinstance(x, list):
            # e.g. an alignment: list of dicts
            self.out[pfx + "/len"] = len(x)
            for i, e in enumerate(x):
                self.out["%s[%d]" % (pfx, i)] = [self.ident(e) if isinstance(e, dict) else 0, self.canon(e)]
        else:
            self.out[pfx] = self.canon(x)

    def ppart(self, pp, pfx):
        out = self.out
        out[pfx + "/class"] = [type(pp).__name__, self.ident(pp)]
        for k, v in vars(pp).items():
            if k in ("notes", "controls", "programs") and isinstance(v, list):
                out["%s/attr/%s/len" % (pfx, k)] = len(v)
                for i, e in enumerate(v):
                    if hasattr(e, "pnote_dict"):
                        out["%s/%s[%d]" % (pfx, k, i)] = [type(e).__name__, self.ident(e), self.canon(vars(e))]
                    else:
                        out["%s/%s[%d]" % (pfx, k, i)] = [type(e).__name__, self.ident(e), self.canon(e)]
            else:
                out["%s/attr/%s" % (pfx, k)] = self.canon(v)


def fingerprint(args, identity=True):
    """args: tuple/list of the (mutable) arguments of one call -> flat dict path -> value."""
    fp = _FP(identity)
    for i, a in enumerate(args):
        fp.scorelike(a, "A%d" % i)
    return fp.out


def fp_digest(fpd):
    return hashlib.sha1(json.dumps(fpd, sort_keys=True, default=str).encode()).hexdigest()


def fp_diff(a, b, limit=8):
    """paths written (changed / added / removed) between two fingerprints."""
    ks = sorted(set(a) | set(b))
    diff = [k for k in ks if a.get(k, "<absent>") != b.get(k, "<absent>")]
    return diff


def describe_diff(a, b, limit=6):
    d = fp_diff(a, b)
    out = []
    for k in d[:limit]:
        out.append("%s: %s -> %s" % (k, json.dumps(a.get(k, "<absent>"), default=str)[:160], json.dumps(b.get(k, "<absent>"), default=str)[:160]))
    return d, out


def field_of(path):
    """strip object numbers: 'A0/S/P0/o12:Note/symbolic_duration' -> 'Note.symbolic_duration'."""
    import re

    m = re.search(r"/o\d+:(\w+)/(.+)$", path)
    if m:
        return "%s.%s" % (m.group(1), m.group(2))
    m = re.search(r"/tp\d+/(.+)$", path)
    if m:
        return "TimePoint.%s" % m.group(1)
    m = re.search(r"/(P|PP)\d+/attr/(.+)$", path)
    if m:
        return "%s.%s" % ("Part" if m.group(1) == "P" else "PerformedPart", m.group(2))
    m = re.search(r"/PP\d+/(\w+)\[\d+\]$", path)
    if m:
        return "PerformedPart.%s[]" % m.group(1)
    m = re.search(r"/attr/(.+)$", path)
    if m:
        return "container.%s" % m.group(1)
    m = re.search(r"^A(\d+)\[\d+\]$", path)
    if m:
        return "arg%s[]" % m.group(1)
    return re.sub(r"\d+", "#", path)


# ---------------------------------------------------------------------------------------
# 2. Canonical form of results (for "calling again gives an identical result")


def canon_result(r):
    """Result of an entry point -> JSON-able canonical value (identity-free)."""
    import partitura.score as S
    import partitura.performance as P

    if isinstance(r, (S.Part, S.Score, S.PartGroup, P.PerformedPart, P.Performance)):
        return ["obj", fp_digest(fingerprint([r], identity=False))]
    if isinstance(r, np.ndarray):
        if r.dtype == object:
            return ["ndo", [canon_result(x) for x in r.ravel().tolist()]]
        return ["nd", str(r.dtype), list(r.shape), hashlib.sha1(np.ascontiguousarray(r).tobytes()).hexdigest()]
    if hasattr(r, "tocsc") and hasattr(r, "nnz"):
        c = r.tocsc()
        c.sort_indices()
        return ["sp", list(c.shape), canon_result(np.asarray(c.data)), canon_result(np.asarray(c.indices)), canon_result(np.asarray(c.indptr))]
    if isinstance(r, (list, tuple)):
        return ["l", [canon_result(x) for x in r]]
    if isinstance(r, dict):
        return ["d", sorted(([str(k), canon_result(v)] for k, v in r.items()), key=lambda kv: kv[0])]
    if isinstance(r, bytes):
        return ["b", len(r), hashlib.sha1(r).hexdigest()]
    if isinstance(r, (S.TimedObject,)):
        return ["timed", type(r).__name__, r.start.t if r.start is not None else None, r.end.t if r.end is not None else None,
                _FP(False).canon({k: v for k, v in vars(r).items() if k not in ("start", "end")})]
    if isinstance(r, S.Path):
        return ["path", str(r)]
    if type(r).__name__ == "MatchFile":
        return ["match", [str(l.matchline) if hasattr(l, "matchline") else str(l) for l in r.lines]]
    return _FP(False).canon(r)
