"""C15 -- merging parts keeps every note at the same musical time in disjoint voices.

What runs here (see design.d/C15.md):
  * generator of merge cases (JSON): 1-4 parts over one metrical layout, one divisions value per part
    (pairs/triples whose lcm exceeds all of them, equal values), notes / grace notes / tied notes /
    rests / unpitched notes (GenericNotes that are neither Note nor Rest) with 1-4 voices (with gaps, voices
    used by rests or unpitched notes only), staves present / missing / mixed (staves used only by rests,
    clefs, words or directions), non-structural elements (slurs, tuplets, words, directions, repeats, ...),
    structural elements in several parts, the arguments merge_parts accepts (list, tuple, Score, PartGroup,
    a Part; random forests of groups), the three reassign modes; two-step histories (a merged part
    merged again); one instance of every TimedObject class of the live partitura.score (class sweep);
    inputs are rebuilt for every call (merge_parts modifies its input);
  * direct oracle (Python, independent of the Coq model): the property statement evaluated on the
    real merged part (see check_case) and on load_score_as_part of exported files (check_loader);
  * correspondence: the Gallina model (coq/Model/C15.v) evaluated by vm_compute on the same input
    must give the same result: which part is returned / the lcm and every element of the merged part
    (origin, class, start, end, voice, staff), the closed forms (offsets as running sums, structural
    elements of the first input) on the observed elements, the merged part's note array with staff, the
    score-level note array, the link between the two, and the loader's note array.
"""
import inspect
import json
import math
import os
from fractions import Fraction

import core
from core import cz, clist, copt, cnat

MODES = ["voice", "staff", "auto"]
CMODE = {"voice": "MVoice", "staff": "MStaff", "auto": "MAuto"}
PC = [("C", 0), ("C", 1), ("D", 0), ("D", 1), ("E", 0), ("F", 0), ("F", 1), ("G", 0), ("G", 1), ("A", 0), ("A", 1), ("B", 0)]
DIRECTIONS = ["ConstantLoudnessDirection", "IncreasingLoudnessDirection", "SustainPedalDirection",
              "ConstantTempoDirection", "Direction"]
OTHERS = ["Repeat", "Segno", "Coda", "DalSegno", "ToCoda", "Harmony", "OctaveShiftDirection", "Staff", "Phrase"]
# element classes of the specifications that are GenericNote objects (carry the voice that gets renumbered);
# "UnpitchedNote" (percussion) and a bare "GenericNote" are GenericNotes that are neither Note nor Rest
GENERIC_CLS = ("Note", "GraceNote", "Rest", "UnpitchedNote", "GenericNote")
SOUNDING_CLS = ("Note", "GraceNote")           # rows of the note array
GENERIC_KINDS = ("KNote", "KGrace", "KRest", "KUnpitched")
STAFFED_KINDS = GENERIC_KINDS + ("KWords", "KDirection", "KClef")
# classes the documentation of merge_parts lists as "only taken from the first part"
DOC_STRUCTURAL = ["KBarline", "KPage", "KSystem", "KClef", "KMeasure", "KTimeSig", "KKeySig"]
# classes merge_parts drops from later parts although the documentation does not list them (C15-K2)
UNDOCUMENTED_DROPS = ["KDaCapo", "KFine", "KFermata", "KEnding", "KTempo"]
DIVS_SETS = [(2, 3), (4, 6), (4, 6, 10), (6, 8), (10, 12), (3, 4, 5), (2, 2), (4, 4, 4), (12, 8, 6), (1, 2),
             (6, 10, 15), (1, 1), (3, 3), (2, 3, 4, 6), (4, 6, 4), (5, 2), (8, 12, 16, 24), (1, 3, 2)]
TS_CHOICES = [(4, 4, 4), (3, 4, 3), (2, 4, 2), (6, 8, 3), (5, 4, 5), (2, 2, 4)]   # beats, beat_type, quarters


# ----------------------------------------------------------------------------
# specifications -> partitura objects (public API only)


def kind_of(o):
    """Class of an object as far as merge_parts distinguishes classes, read from the live hierarchy."""
    import partitura.score as S
    table = [(S.Rest, "KRest"), (S.GraceNote, "KGrace"), (S.Note, "KNote"), (S.GenericNote, "KUnpitched"), (S.Words, "KWords"),
             (S.Direction, "KDirection"), (S.Clef, "KClef"), (S.Measure, "KMeasure"),
             (S.TimeSignature, "KTimeSig"), (S.KeySignature, "KKeySig"), (S.Barline, "KBarline"),
             (S.Page, "KPage"), (S.System, "KSystem"), (S.DaCapo, "KDaCapo"), (S.Fine, "KFine"),
             (S.Fermata, "KFermata"), (S.Ending, "KEnding"), (S.Tempo, "KTempo"), (S.Slur, "KSlur"),
             (S.Tuplet, "KTuplet")]
    for cls, k in table:
        if isinstance(o, cls):
            return k
    return "KOther"


def make_object(el, objs, pid, i):
    import partitura.score as S
    c = el["cls"]
    if el.get("generic_ctor"):
        return instantiate(c, el, pid, i)
    if c in ("Note", "GraceNote"):
        step, alter = PC[el["pitch"] % 12]
        kw = dict(step=step, octave=el["pitch"] // 12 - 1, alter=alter or None, id="%s_n%d" % (pid, i),
                  voice=el["voice"], staff=el["staff"])
        return S.GraceNote("grace", **kw) if c == "GraceNote" else S.Note(**kw)
    if c == "Rest":
        return S.Rest(id="%s_r%d" % (pid, i), voice=el["voice"], staff=el["staff"])
    if c == "UnpitchedNote":
        step, _ = PC[el.get("pitch", 60) % 12]
        return S.UnpitchedNote(step=step, octave=el.get("pitch", 60) // 12 - 1, id="%s_u%d" % (pid, i), voice=el["voice"], staff=el["staff"])
    if c == "GenericNote":
        return S.GenericNote(id="%s_g%d" % (pid, i), voice=el["voice"], staff=el["staff"])
    if c == "OctaveShiftDirection":
        return S.OctaveShiftDirection("up", 8, staff=el.get("staff"))
    if c == "Staff":
        return S.Staff(el.get("number", 1))
    if c == "Harmony":
        return S.Harmony("C7")
    if c == "Words":
        return S.Words("w%d" % i, staff=el["staff"])
    if c in DIRECTIONS:
        return getattr(S, c)("d%d" % i, staff=el["staff"])
    if c == "Clef":
        return S.Clef(el["staff"], el.get("sign", "G"), 2, 0)
    if c == "Measure":
        return S.Measure(number=el.get("number", 1))
    if c == "TimeSignature":
        return S.TimeSignature(el["beats"], el["beat_type"])
    if c == "KeySignature":
        return S.KeySignature(el.get("fifths", 0), el.get("kmode", "major"))
    if c == "Barline":
        return S.Barline("light-heavy")
    if c == "Page":
        return S.Page(el.get("number", 1))
    if c == "System":
        return S.System(el.get("number", 1))
    if c == "DaCapo":
        return S.DaCapo()
    if c == "Fine":
        return S.Fine()
    if c == "Fermata":
        return S.Fermata(objs[el["ref"]] if el.get("ref") is not None else None)
    if c == "Ending":
        return S.Ending(el.get("number", 1))
    if c == "Tempo":
        return S.Tempo(el.get("bpm", 90), "q")
    if c == "Slur":
        return S.Slur(objs[el["from"]], objs[el["to"]])
    if c == "Tuplet":
        return S.Tuplet(objs[el["from"]], objs[el["to"]], 3, 2)
    if c in OTHERS:
        return getattr(S, c)()
    raise ValueError("unknown class in specification: %r" % c)


class Uninstantiable(Exception):
    pass


CTOR_ARGS = {"step": "C", "octave": 4, "grace_type": "grace", "number": 1, "sign": "G", "line": 2, "octave_change": 0,
             "style": "light-heavy", "beats": 4, "beat_type": 4, "bpm": 90, "fifths": 0, "mode": "major", "diatonic": 0,
             "chromatic": 0, "text": "t", "shift_type": "up", "root": "C", "kind": "major", "to": [], "await_to": []}


def instantiate(name, el, pid, i):
    """An instance of ANY TimedObject class of the live partitura.score (the class sweep): the required
    constructor arguments of the class and its bases are filled by name; the voice / staff of the
    specification are stored when the object has such an attribute."""
    import partitura.score as S
    cls = getattr(S, name)
    kw = {}
    for k in cls.__mro__:
        init = k.__dict__.get("__init__")
        if init is None or k is object:
            continue
        prms = list(inspect.signature(init).parameters.values())[1:]
        forwards = any(prm.kind in (prm.VAR_POSITIONAL, prm.VAR_KEYWORD) for prm in prms)
        for prm in prms:
            if prm.kind in (prm.VAR_POSITIONAL, prm.VAR_KEYWORD) or prm.default is not inspect.Parameter.empty:
                continue
            if prm.name == "staff":
                kw["staff"] = el.get("staff")
            elif prm.name == "id":
                kw["id"] = "%s_x%d" % (pid, i)
            elif prm.name in CTOR_ARGS:
                kw[prm.name] = CTOR_ARGS[prm.name]
            else:
                raise Uninstantiable("%s: constructor argument %r" % (name, prm.name))
        if not forwards:
            break             # this __init__ takes no *args / **kwargs: the bases' arguments are its own business
    try:
        o = cls(**kw)
    except Exception as e:
        raise Uninstantiable("%s(%s): %s" % (name, ", ".join(sorted(kw)), e))
    if hasattr(o, "voice"):
        o.voice = el.get("voice")
    if hasattr(o, "staff"):
        o.staff = el.get("staff")
    if isinstance(o, S.GenericNote):
        o.id = "%s_x%d" % (pid, i)
    return o


def build_part(spec):
    """Build a Part from a specification.  Returns (part, [object per element, in spec order])."""
    import partitura.score as S
    cast = int
    if spec.get("np"):
        # divisions and times as numpy integers (what parts built from note arrays or MIDI ticks carry)
        import numpy as np
        cast = getattr(np, spec["np"])
    p = S.Part(spec["id"], part_name=spec.get("name"), quarter_duration=cast(spec["divs"]))
    objs = [None] * len(spec["elems"])
    order = sorted(range(len(spec["elems"])), key=lambda i: 1 if spec["elems"][i]["cls"] in ("Slur", "Tuplet", "Fermata") else 0)
    for i in order:
        el = spec["elems"][i]
        o = make_object(el, objs, spec.get("note_prefix", spec["id"]), i)
        objs[i] = o
        p.add(o, cast(el["s"]), cast(el["e"]) if el["e"] is not None else None)
    for i, el in enumerate(spec["elems"]):
        if el.get("tie_next") is not None:
            a, b = objs[i], objs[el["tie_next"]]
            a.tie_next = b
            b.tie_prev = a
    return p, objs


def build_container(case, parts):
    """The argument of merge_parts for the case's container shape."""
    import partitura.score as S

    def tr(t):
        if isinstance(t, int):
            return parts[t]
        g = S.PartGroup(group_name="g")
        g.children = [tr(x) for x in t]
        for ch in g.children:
            ch.parent = g
        return g
    c = case["container"]
    items = [tr(t) for t in c["tree"]]
    if c["type"] == "list":
        return items
    if c["type"] == "tuple":
        return tuple(items)
    if c["type"] == "score":
        return S.Score(items)
    if c["type"] in ("group", "part"):
        assert len(items) == 1
        return items[0]
    raise ValueError(c["type"])


def flat_order(tree):
    out = []
    for t in tree:
        if isinstance(t, int):
            out.append(t)
        else:
            out += flat_order(t)
    return out


def snapshot(objs_per_part, oid_of):
    """(part index, element index) -> observable state of every input object."""
    snap = []
    for pi, objs in enumerate(objs_per_part):
        for ei, o in enumerate(objs):
            snap.append(obj_state(o, oid_of, pi))
    return snap


def _int(x):
    return None if x is None else int(x)


def obj_state(o, oid_of, pi):
    tp, tn = getattr(o, "tie_prev", None), getattr(o, "tie_next", None)
    k = kind_of(o)
    return {"oid": oid_of[id(o)], "part": pi, "kind": k, "cls": type(o).__name__,
            "s": _int(o.start.t) if o.start is not None else None,
            "e": _int(o.end.t) if getattr(o, "end", None) is not None else None,
            "voice": _int(getattr(o, "voice", None)), "staff": _int(getattr(o, "staff", None)),
            "pitch": int(o.midi_pitch) if k in ("KNote", "KGrace") else 0,      # pitch of the rows of the note array
            "tie_prev": oid_of.get(id(tp)) if tp is not None else None,
            "tie_next": oid_of.get(id(tn)) if tn is not None else None}


def all_elements(part):
    """Every object of the part.  (Part.iter_all() without a class walks all classes of the interpreter
    at every time point; every element is a TimedObject.)"""
    import partitura.score as S
    return part.iter_all(S.TimedObject, include_subclasses=True)


def lcm_list(ds):
    L = 1
    for d in ds:
        L = L * d // math.gcd(L, d)
    return L


# ----------------------------------------------------------------------------
# generators


def gen_layout(rng):
    """Measures / signatures shared by the parts of a case, in quarters (integers)."""
    b, bt, q = rng.choice(TS_CHOICES)
    nm = rng.choice([1, 2, 2, 3])
    pickup = rng.random() < 0.35 and q > 1
    t = 0
    measures = []
    for j in range(nm):
        l = rng.randint(1, q - 1) if (pickup and j == 0) else q
        measures.append([t, t + l])
        t += l
    return {"ts": [b, bt], "measures": measures, "total": t, "pickup": pickup,
            "ks": [rng.randint(-4, 4), rng.choice(["major", "minor"])]}


VOICE_SETS = [[1], [1], [1, 2], [1, 2], [1, 2, 3], [1, 2, 3, 4], [2], [1, 3], [2, 5], [1, 2, 4], [3, 4]]
STAFF_CONFIGS = ["none", "none", "one", "two", "two", "mixed", "mixed", "high", "gap"]


def staff_pool(cfg):
    return {"none": [None], "one": [1], "two": [1, 2], "mixed": [None, 1, 2], "high": [2], "gap": [1, 3]}[cfg]


def gen_part(rng, pi, d, layout, layout_flags, mode, many_voices=False, n_measures=None, content="any"):
    """One part: structural elements as the flags say, notes in this part's own divisions.
    n_measures: the part stops after that many measures of the layout (parts of different lengths);
    content: 'any' | 'no_notes' (rests and other elements only) | 'empty' (no element at all)."""
    measures = layout["measures"][:n_measures] if n_measures else layout["measures"]
    total = measures[-1][1] * d
    els = []
    if content == "empty":
        return {"id": "P%d" % pi, "divs": d, "elems": els}
    if "measures" in layout_flags:
        for j, (s, e) in enumerate(measures):
            els.append({"cls": "Measure", "s": s * d, "e": e * d, "number": j + 1})
    if "ts" in layout_flags:
        els.append({"cls": "TimeSignature", "s": 0, "e": None, "beats": layout["ts"][0], "beat_type": layout["ts"][1]})
    if "ks" in layout_flags:
        els.append({"cls": "KeySignature", "s": 0, "e": None, "fifths": layout["ks"][0], "kmode": layout["ks"][1]})
    # a few positions per part, in this part's own divisions (Part.iter_all() without a class costs
    # milliseconds per time point, so the number of distinct time points is kept small)
    grid = sorted(set([0, total] + [rng.randrange(0, total + 1) for _ in range(rng.choice([1, 2, 3, 3, 4]))]))

    def span():
        a = rng.randrange(0, len(grid) - 1)
        b = rng.randrange(a + 1, min(len(grid), a + 3))
        return grid[a], grid[b]

    def point(last=True):
        return rng.choice(grid if last else grid[:-1])
    voices = list(rng.choice(VOICE_SETS))
    if many_voices:
        voices = rng.choice([[1, 2, 3, 4, 5], [1, 2, 3, 4, 5, 6], [1, 3, 5, 7, 9]])
    cfg = rng.choice(STAFF_CONFIGS)
    pool = staff_pool(cfg)
    # notes
    note_idx = []
    n_notes = rng.choice([0, 1, 2, 3, 4, 5, 6]) if rng.random() < 0.9 else 0
    if many_voices:
        n_notes = max(n_notes, len(voices))
    if content == "no_notes":
        n_notes = 0
    for k in range(n_notes):
        s, e = span()
        v = voices[k % len(voices)] if (many_voices or rng.random() < 0.5) else rng.choice(voices)
        kind = rng.random()
        if kind < 0.12:
            els.append({"cls": "GraceNote", "s": s, "e": s, "voice": v, "staff": rng.choice(pool), "pitch": rng.randint(40, 90)})
        elif kind < 0.30 and e < total:
            e2 = rng.choice([t for t in grid if t > e])
            pitch = rng.randint(40, 90)
            st = rng.choice(pool)
            v2 = v if rng.random() < 0.8 else rng.choice(voices + [max(voices) + 1])   # continuation may change voice
            els.append({"cls": "Note", "s": s, "e": e, "voice": v, "staff": st, "pitch": pitch, "tie_next": len(els) + 1})
            note_idx.append(len(els) - 1)
            els.append({"cls": "Note", "s": e, "e": e2, "voice": v2, "staff": st, "pitch": pitch})
        else:
            els.append({"cls": "Note", "s": s, "e": e, "voice": v, "staff": rng.choice(pool), "pitch": rng.randint(40, 90)})
        note_idx.append(len(els) - 1)
    # GenericNotes that are neither Note nor Rest (percussion notation: UnpitchedNote; a bare GenericNote):
    # in the voices of the pitched notes, or -- as a drum line usually is -- in a voice / on a staff of their own
    if content != "no_notes" and rng.random() < 0.3:
        own_voice = max(voices) + rng.randint(1, 2) if rng.random() < 0.6 else rng.choice(voices)
        own_staff = rng.choice([None, 1, 2, 3]) if rng.random() < 0.4 else rng.choice(pool)
        for _ in range(rng.choice([1, 1, 2, 3])):
            s, e = span()
            els.append({"cls": "UnpitchedNote" if rng.random() < 0.85 else "GenericNote", "s": s, "e": e,
                        "voice": own_voice if rng.random() < 0.8 else rng.choice(voices), "staff": own_staff, "pitch": rng.randint(60, 72)})
    # rests: mostly in the voices/staves of the notes, sometimes in a voice or staff of their own
    for _ in range(rng.choice([0, 0, 1, 2, 3])):
        s, e = span()
        v = rng.choice(voices) if rng.random() < 0.7 else max(voices) + rng.randint(1, 2)
        st = rng.choice(pool) if rng.random() < 0.75 else rng.choice([1, 2, 3, 4])
        els.append({"cls": "Rest", "s": s, "e": e, "voice": v, "staff": st})
    # elements that carry a staff
    for _ in range(rng.choice([0, 1, 1, 2])):
        st = rng.choice(pool) if rng.random() < 0.7 else rng.choice([None, 1, 2, 3])
        r = rng.random()
        s = point(False)
        if r < 0.35:
            els.append({"cls": "Clef", "s": 0 if rng.random() < 0.7 else s, "e": None, "staff": st if st is not None or rng.random() < 0.5 else 1,
                        "sign": rng.choice(["G", "F"])})
        elif r < 0.6:
            els.append({"cls": "Words", "s": s, "e": None, "staff": st})
        else:
            els.append({"cls": rng.choice(DIRECTIONS), "s": s, "e": rng.choice([None, rng.choice([t for t in grid if t > s])]), "staff": st})
    # non-structural elements without voice or staff
    real_notes = [i for i in note_idx if els[i]["cls"] == "Note"]
    for _ in range(rng.choice([0, 0, 1, 1, 2])):
        r = rng.random()
        if r < 0.45 and len(real_notes) >= 1:
            a, b = sorted(rng.sample(real_notes, 2)) if len(real_notes) >= 2 else (real_notes[0], real_notes[0])
            if els[a]["s"] > els[b]["s"]:
                a, b = b, a
            els.append({"cls": rng.choice(["Slur", "Slur", "Tuplet"]), "s": els[a]["s"], "e": max(els[b]["e"], els[a]["s"]), "from": a, "to": b})
        else:
            s = point()
            els.append({"cls": rng.choice(OTHERS), "s": s, "e": rng.choice([None, rng.choice([t for t in grid if t >= s])])})
    # other structural elements / the classes merge_parts also drops
    for _ in range(rng.choice([0, 0, 0, 1, 1, 2])):
        c = rng.choice(["Barline", "Page", "System", "DaCapo", "Fine", "Fermata", "Ending", "Tempo", "KeySignature", "Clef"])
        s = rng.choice([0, total, point()])
        el = {"cls": c, "s": s, "e": None}
        if c == "Ending":
            el["e"] = rng.choice([t for t in grid if t >= s])
        if c == "Fermata" and real_notes:
            el["ref"] = rng.choice(real_notes)
            el["s"] = els[el["ref"]]["s"]
        if c == "Clef":
            el["staff"] = rng.choice([1, 2, None])
        if c == "KeySignature":
            el.update(fifths=rng.randint(-3, 3), kmode="major")
        els.append(el)
    return {"id": "P%d" % pi, "divs": d, "elems": els}


def rand_forest(rng, idx, depth=0):
    """A random forest over consecutive part indices: groups anywhere (before, between and after plain parts),
    nested up to three levels, now and then an empty group."""
    out = []
    i = 0
    while i < len(idx):
        if depth < 3 and rng.random() < 0.4:
            j = rng.randint(i + 1, len(idx))
            out.append(rand_forest(rng, idx[i:j], depth + 1))
            i = j
        else:
            out.append(idx[i])
            i += 1
        if depth < 2 and rng.random() < 0.05:
            out.append([])
    return out


def gen_container(rng, n):
    """The argument of merge_parts: a list / tuple / Score of parts and groups, or one PartGroup (or Part)."""
    if n == 1:
        return rng.choice([{"type": "list", "tree": [0]}, {"type": "part", "tree": [0]}, {"type": "group", "tree": [[0]]},
                           {"type": "score", "tree": [0]}, {"type": "group", "tree": [[[0]]]}, {"type": "list", "tree": [[0]]},
                           {"type": "score", "tree": [[0]]}, {"type": "tuple", "tree": [0]}, {"type": "score", "tree": [[], [0]]},
                           {"type": "list", "tree": [[[0], []]]}])
    idx = list(range(n))
    r = rng.random()
    if r < 0.35:
        return {"type": rng.choice(["list", "list", "score", "score", "tuple"]), "tree": idx}
    if r < 0.45:
        return {"type": "group", "tree": [idx]}
    ty = rng.choice(["list", "score", "score", "group", "tuple"])
    if r < 0.65:                            # a group first, plain parts after it
        k = rng.randint(1, n - 1)
        forest = [idx[:k] if rng.random() < 0.7 else [idx[:k]]] + idx[k:]
    else:
        forest = rand_forest(rng, idx)
    return {"type": ty, "tree": [forest] if ty == "group" else forest}


def gen_case(rng, mode=None, force_many_voices=False, force_history=False):
    mode = mode or rng.choice(MODES)
    ds = list(rng.choice(DIVS_SETS if not force_history else [d for d in DIVS_SETS if len(d) >= 3]))
    r = rng.random()
    if force_history:
        pass
    elif r < 0.07:
        ds = ds[:1]                                  # a single part
    elif r < 0.17 and len(ds) < 4:
        ds.append(rng.choice(ds + [1, 7]))
    rng.shuffle(ds)
    if force_history:
        ds = ds[:4] if rng.random() < 0.5 else ds[:3]
        if len(ds) == 3 and rng.random() < 0.4:
            ds.append(rng.choice(ds + [1, 7]))
    elif len(ds) > 2 and rng.random() < 0.3:
        ds = ds[:2]                                  # (merge_parts costs milliseconds per time point)
    layout = gen_layout(rng)
    parts = []
    many = force_many_voices or (mode == "auto" and rng.random() < 0.04)
    many_at = rng.randrange(len(ds)) if many else None
    for pi, d in enumerate(ds):
        r = rng.random()
        if pi == 0:
            flags = ["measures", "ts", "ks"] if r < 0.85 else (["measures"] if r < 0.93 else [])
        else:
            flags = ["measures", "ts", "ks"] if r < 0.7 else (["measures", "ts"] if r < 0.8 else (["ts"] if r < 0.85 else []))
        nmeas = None
        if len(layout["measures"]) > 1 and rng.random() < 0.25:
            nmeas = rng.randint(1, len(layout["measures"]) - 1)        # a shorter part
        content = "any"
        if pi == 0 and rng.random() < 0.12:
            content = rng.choice(["no_notes", "no_notes", "empty"])     # first part without notes / empty
        elif pi > 0 and rng.random() < 0.04:
            content = "empty"
        parts.append(gen_part(rng, pi, d, layout, flags, mode, many_voices=(pi == many_at), n_measures=nmeas, content=content))
    assign_identities(rng, parts)
    r = rng.random()
    if r < 0.2:
        for sp in parts:
            if r < 0.08 or rng.random() < 0.5:
                sp["np"] = rng.choice(["int32", "int64"])
    case = {"mode": mode, "container": gen_container(rng, len(parts)), "parts": parts, "pickup": layout["pickup"]}
    r = rng.random() if not force_history else 0.0
    if r < 0.14 and len(parts) >= 3 and not many:
        # a history: the first k parts are merged first (any mode), the merged part is the first input
        k = rng.randint(2, len(parts) - 1)
        case["pre"] = {"k": k, "mode": rng.choice(MODES)}
        if len(parts) - k >= 2 and rng.random() < 0.6:
            # three levels: the merged part is merged with the next j parts before the call
            case["pre"]["then"] = {"k": rng.randint(1, len(parts) - k - 1), "mode": rng.choice(MODES)}
            k += case["pre"]["then"]["k"]
        case["container"] = gen_container(rng, len(parts) - k + 1)
    elif r < 0.18:
        # outside the quantifier: a note or rest without voice ("voice" / "auto" raise, "staff" merges)
        gs = [(pi, ei) for pi, sp in enumerate(parts) for ei, e in enumerate(sp["elems"]) if e["cls"] in GENERIC_CLS]
        if gs:
            pi, ei = rng.choice(gs)
            parts[pi]["elems"][ei]["voice"] = None
    return case


HIST_KINDS = ["score_setitem", "score_setitem", "score_listops", "score_unfold", "score_unfold", "edits", "edits", "pre_edits", "arg_edits", "arg_edits",
              "view_edits", "view_edits", "view_edits"]
# calls that only read a part (third hardening): whatever they compute or remember must not show at the merge
VIEW_KINDS = ["number_of_staves", "clef_map", "note_array_staff", "note_array_full", "pretty", "save_musicxml", "save_mei", "time_maps",
              "notes", "rest_array", "deepcopy"]
STAFF_VIEWS = ("number_of_staves", "clef_map", "save_musicxml", "save_mei")      # the views that ask a part for its number of staves
ATTR_TARGETS = {"note": ("KNote", "KGrace"), "rest": ("KRest",), "unpitched": ("KUnpitched",), "clef": ("KClef",), "direction": ("KDirection",),
                "words": ("KWords",)}


def do_view(p, what):
    """One call that only reads the part (checked on generated parts: none of them changes an element or a time point)."""
    import partitura
    import numpy as np
    import copy
    import warnings
    with warnings.catch_warnings():
        warnings.simplefilter("ignore")
        if what == "number_of_staves":
            return p.number_of_staves
        if what == "clef_map":
            return p.clef_map(np.array([0, 1]))
        if what == "note_array_staff":
            return p.note_array(include_staff=True)
        if what == "note_array_full":
            return p.note_array(include_pitch_spelling=True, include_key_signature=True, include_time_signature=True,
                                include_metrical_position=True, include_grace_notes=True, include_staff=True, include_divs_per_quarter=True)
        if what == "pretty":
            return p.pretty()
        if what == "save_musicxml":
            return partitura.save_musicxml(p, None)
        if what == "save_mei":
            return partitura.save_mei(p, None)
        if what == "time_maps":
            return (p.quarter_map(0), p.beat_map(0), p.inv_beat_map(0.0), p.time_signature_map(0), p.key_signature_map(0), p.measure_map(0),
                    p.quarter_duration_map(0))
        if what == "notes":
            return (p.notes, p.notes_tied, p.rests, p.measures, p.first_point, p.last_point)
        if what == "rest_array":
            return p.rest_array(include_staff=True)
        if what == "deepcopy":
            return copy.deepcopy(p)
    raise ValueError(what)


def gen_view_edits(rng, parts, targets):
    """Read-only views of a random subset of the inputs (number_of_staves, clef_map, note arrays, pretty, exporters to a string,
    time maps, note lists), then attribute edits IN PLACE (staff / voice of notes, rests, unpitched notes, clefs, directions,
    words -- no Part.add / Part.remove, so nothing tells the part that it changed), mostly to a value above everything the
    part uses, now and then an edit through the API; views may come again between the edits."""
    def views(k):
        out = []
        for w in rng.sample(VIEW_KINDS, k):
            on = None if rng.random() < 0.5 else sorted(rng.sample(sorted(set(targets)), rng.randint(1, len(set(targets)))))
            out.append({"op": "observe", "what": w, "on": on})
        return out
    nv = rng.choice([1, 2, 2, 3, 4])
    eds = views(nv)
    if rng.random() < 0.5 and not any(e["what"] in STAFF_VIEWS for e in eds):
        eds.insert(rng.randrange(0, len(eds) + 1), {"op": "observe", "what": rng.choice(STAFF_VIEWS), "on": None})
    if rng.random() < 0.3:
        eds.append({"op": "observe", "what": rng.choice(["part_note_array", "score_note_array", "iter_parts", "single_merge"])})
    for ne in range(rng.choice([1, 1, 2, 2, 3])):
        # the first input most often: its numbers decide where every later input starts
        pi = targets[0] if rng.random() < 0.45 else rng.choice(targets)
        r = rng.random()
        above = {"above": rng.choice([1, 1, 1, 2, 3])} if rng.random() < 0.7 else None
        tgt = rng.choice(["note", "note", "note", "rest", "unpitched", "clef", "direction", "words", None])
        if r < 0.55:
            eds.append({"op": "staff", "p": pi, "k": rng.randrange(0, 50), "value": above or rng.choice([None, 1, 2, 3, 6]), "target": tgt})
        elif r < 0.85:
            eds.append({"op": "voice", "p": pi, "k": rng.randrange(0, 50), "value": above or rng.choice([1, 2, 3, 7, 8]),
                        "target": tgt if tgt in ("note", "rest", "unpitched") else "note"})
        elif r < 0.92:
            eds.append({"op": "add", "p": pi, "el": {"cls": rng.choice(["Note", "Rest", "UnpitchedNote"]), "s": rng.randrange(0, 64), "dur": rng.randrange(1, 16),
                                                      "voice": rng.choice([1, 2, 5]), "staff": rng.choice([None, 1, 2, 4]), "pitch": rng.randint(40, 90)}})
            if rng.random() < 0.6:          # ... and the views again after the part was told about a change
                eds += views(1)
        elif r < 0.96:
            eds.append({"op": "remove", "p": pi, "k": rng.randrange(0, 50)})
        else:
            eds.append({"op": "divs", "p": pi, "value": rng.choice([1, 2, 3, 4, 5, 6, 8, 9, 12])})
        if rng.random() < 0.15:
            eds += views(1)
    return eds
UNFOLD_HAZARDS = ("Repeat", "DaCapo", "Fine", "Segno", "Coda", "DalSegno", "ToCoda", "Ending")


def gen_edits(rng, parts, targets, n=None):
    """Calls that only read, then edits of the inputs `targets` (indices of effective inputs) through the public API."""
    eds = [{"op": "observe", "what": w} for w in rng.sample(["part_note_array", "score_note_array", "iter_parts", "single_merge"], rng.randint(1, 3))]
    for ne in range(n or rng.choice([2, 3, 3, 4])):
        pi = rng.choice(targets)
        r = rng.random() if ne else rng.random() * 0.65       # (the first edit adds an element more often than not)
        if r < 0.4:
            # a new note / rest / unpitched note: in a voice (on a staff) above everything the part uses, or in a used one
            hi = rng.random() < 0.7
            eds.append({"op": "add", "p": pi, "el": {"cls": rng.choice(["Note", "Note", "Rest", "UnpitchedNote", "GraceNote"]), "s": rng.randrange(0, 64),
                                                      "dur": rng.randrange(1, 16), "voice": rng.choice([5, 6, 9]) if hi else rng.choice([1, 2]),
                                                      "staff": rng.choice([4, 5, None]) if hi else rng.choice([None, 1, 2]), "pitch": rng.randint(40, 90)}})
        elif r < 0.55:
            eds.append({"op": "remove", "p": pi, "k": rng.randrange(0, 50)})
        elif r < 0.75:
            eds.append({"op": "voice", "p": pi, "k": rng.randrange(0, 50), "value": rng.choice([1, 2, 3, 7, 8])})
        elif r < 0.88:
            eds.append({"op": "staff", "p": pi, "k": rng.randrange(0, 50), "value": rng.choice([None, 1, 2, 3, 6])})
        else:
            eds.append({"op": "divs", "p": pi, "value": rng.choice([1, 2, 3, 4, 5, 6, 8, 9, 12])})
    if rng.random() < 0.3:
        eds.insert(rng.randrange(1, len(eds) + 1), {"op": "observe", "what": rng.choice(["part_note_array", "score_note_array"])})
    return eds


def gen_hist_case(rng, mode=None, kind=None):
    """State carried between calls: the argument has a history when merge_parts is called.
      score_setitem / score_listops: a Score, reads, score[i] = part / score.parts.append / pop, (reads,) the call;
      score_unfold: the Score returned by unfold_part_maximal / unfold_part_minimal (every part carries a repeat);
      edits: reads of the inputs (note arrays, traversal, one-part merges), then elements added / removed, voices,
             staves, divisions changed, then the call;   pre_edits: the same on a part that is itself a merged part;
      arg_edits: a look at the list / group / Score, then parts appended to the list or to a group, or the order
                 reversed, then the call (a Score keeps the parts it had when it was built)."""
    kind = kind or rng.choice(HIST_KINDS)
    while True:
        case = gen_case(rng, mode=mode, force_history=(kind == "pre_edits"))
        if not voiceless(case) and len(case["parts"]) >= 2 and ("pre" in case) == (kind == "pre_edits") and not any(
                len({e["voice"] for e in sp["elems"] if e["cls"] in GENERIC_CLS}) > 4 for sp in case["parts"]):
            break
    case["hist_kind"] = kind
    parts = case["parts"]
    n = len(parts)
    if kind in ("edits", "pre_edits", "view_edits"):
        neff = n if kind != "pre_edits" else n - case["pre"]["k"] - case["pre"].get("then", {}).get("k", 0) + 1
        targets = list(range(neff)) if kind != "pre_edits" else [0, 0, 0] + list(range(neff))
        views = kind == "view_edits" or (kind == "pre_edits" and rng.random() < 0.4)
        case["edits"] = gen_view_edits(rng, parts, targets) if views else gen_edits(rng, parts, targets)
        return case
    layout = gen_layout(rng)
    spare_d = lambda: rng.choice([1, 2, 3, 4, 5, 6, 7, 8, 10, 12])
    if kind == "arg_edits":
        for k in range(rng.choice([1, 1, 2])):
            parts.append(gen_part(rng, len(parts), spare_d(), layout, ["measures", "ts"], case["mode"]))
        assign_identities(rng, parts)
        ty = rng.choice(["list", "list", "list", "group", "tuple", "score"])
        m = rng.randint(1, n)                                    # parts in the argument at first (one: returned as it is)
        forest = rand_forest(rng, list(range(m)))
        if ty != "list" and not any(not isinstance(t, int) for t in forest):
            forest = [forest]
        case["container"] = {"type": ty, "tree": [forest] if ty == "group" else forest}
        eds = []
        for j in range(m, len(parts)):
            eds.append(["append", "top" if (ty == "list" and rng.random() < 0.6) else rng.randrange(0, 4), j])
        if rng.random() < 0.5:
            eds.insert(rng.randrange(0, len(eds) + 1), ["reverse", "top" if (ty == "list" and rng.random() < 0.5) else rng.randrange(0, 4)])
        case["arg_edits"] = eds
        return case
    # a Score with a history
    if kind == "score_unfold":
        for pi, sp in enumerate(parts):
            d = sp["divs"]
            els = [e for e in sp["elems"] if e["cls"] not in UNFOLD_HAZARDS and e["cls"] not in ("Measure", "TimeSignature")]
            # references (slur / tuplet / fermata / ties) are kept consistent by drop_elems
            keep = [i for i, e in enumerate(sp["elems"]) if e["cls"] not in UNFOLD_HAZARDS and e["cls"] not in ("Measure", "TimeSignature")]
            sp2 = drop_elems(sp, keep)
            total = max([1] + [e["s"] for e in sp2["elems"]] + [e["e"] for e in sp2["elems"] if e["e"] is not None])
            q = -(-total // d)
            q = max(q, 1)
            head = [{"cls": "Measure", "s": 0, "e": q * d, "number": 1}, {"cls": "Measure", "s": q * d, "e": 2 * q * d, "number": 2},
                    {"cls": "TimeSignature", "s": 0, "e": None, "beats": q, "beat_type": 4},
                    {"cls": "Repeat", "s": 0, "e": q * d}]
            if rng.random() < 0.7:
                head.append({"cls": "Note", "s": q * d, "e": 2 * q * d, "voice": 1, "staff": rng.choice([None, 1]), "pitch": rng.randint(40, 90)})
            nh = len(head)
            for e in sp2["elems"]:
                for f in ("from", "to", "tie_next", "ref"):
                    if e.get(f) is not None:
                        e[f] += nh
            sp["elems"] = head + sp2["elems"]
    nspare = rng.choice([1, 1, 2])
    for k in range(nspare):
        parts.append(gen_part(rng, len(parts), spare_d(), layout, rng.choice([["measures", "ts", "ks"], ["measures", "ts"], []]), case["mode"]))
    assign_identities(rng, parts)
    forest = rand_forest(rng, list(range(n))) if rng.random() < 0.5 else list(range(n))
    case["container"] = {"type": "score", "tree": forest}
    reads = lambda: [["observe", w] for w in rng.sample(["note_array", "len", "iter", "getitem"], rng.randint(0, 2))]
    ops = reads()
    spares = list(range(n, len(parts)))
    if kind == "score_setitem":
        for j in spares[:rng.choice([1, 1, 2])]:
            ops.append(["setitem", rng.randrange(0, n), j])
        ops += reads() if rng.random() < 0.3 else []
    elif kind == "score_listops":
        r = rng.random()
        if r < 0.4:
            ops.append(["append", spares[0]])
        elif r < 0.7:
            ops.append(["pop", rng.randrange(0, n)])
        else:
            ops += [["pop", rng.randrange(0, n)], ["append", spares[0]]]
        if len(spares) > 1 and rng.random() < 0.5:
            ops.append(["setitem", rng.randrange(0, 8), spares[1]])
    else:
        ops.append(["unfold", rng.choice(["maximal", "maximal", "minimal"])])
        if rng.random() < 0.25:
            ops.append(["setitem", rng.randrange(0, n), spares[0]])
    case["score_hist"] = ops
    return case


def assign_identities(rng, parts):
    """Attributes the property does not constrain: part ids (all distinct / all equal / some equal, also
    equal to the first part's), part names, note ids colliding across parts."""
    n = len(parts)
    scheme = rng.choice(["distinct", "distinct", "all_equal", "all_equal", "some_equal", "equal_to_first", "last_two_equal"])
    ids = ["P%d" % i for i in range(n)]
    if scheme == "all_equal":
        ids = [rng.choice(["P1", "P0", "Piano"])] * n
    elif scheme == "some_equal" and n >= 2:
        a, b = rng.sample(range(n), 2)
        ids[b] = ids[a]
    elif scheme == "equal_to_first" and n >= 2:
        for k in rng.sample(range(1, n), rng.randint(1, n - 1)):
            ids[k] = ids[0]
    elif scheme == "last_two_equal" and n >= 2:
        ids[-1] = ids[-2]
    names = rng.choice([[None] * n, ["Violin"] * n, ["name%d" % i for i in range(n)], [rng.choice([None, "", "Piano"]) for _ in range(n)]])
    prefix_scheme = rng.choice(["by_part", "by_part", "shared", "by_id"])
    for i, p in enumerate(parts):
        p["id"] = ids[i]
        p["name"] = names[i]
        p["note_prefix"] = {"by_part": "q%d" % i, "shared": "n", "by_id": ids[i]}[prefix_scheme]


def small_scope_cases():
    """Complete enumeration of a small scope: two parts with two notes each, divisions pairs, voice
    pairs and staff pairs per part, the three modes (4 * 16 * 16 * 3 = 3072 cases)."""
    out = []
    vp = [(1, 1), (1, 2), (2, 2), (1, 3)]
    sp = [(None, None), (1, 2), (None, 2), (2, 2)]
    for (d0, d1) in [(1, 1), (2, 3), (4, 6), (3, 3)]:
        for v0 in vp:
            for s0 in sp:
                for v1 in vp:
                    for s1 in sp:
                        for mode in MODES:
                            parts = []
                            for pi, (d, v, s) in enumerate([(d0, v0, s0), (d1, v1, s1)]):
                                els = [{"cls": "Note", "s": 0, "e": d, "voice": v[0], "staff": s[0], "pitch": 60 + pi},
                                       {"cls": "Note", "s": d, "e": 2 * d, "voice": v[1], "staff": s[1], "pitch": 64 + pi}]
                                # every other case gives both inputs the same id (and the same note ids)
                                same = (len(out) % 2 == 1)
                                parts.append({"id": "P1" if same else "P%d" % pi, "divs": d, "elems": els,
                                              "note_prefix": "n" if same else "q%d" % pi})
                            out.append({"mode": mode, "container": {"type": "list", "tree": [0, 1]}, "parts": parts, "pickup": False})
    return out


def live_classes():
    """Names of all TimedObject classes of the live partitura.score (the finite domain of the class sweep)."""
    import partitura.score as S
    from partitura.utils.generic import iter_subclasses
    return sorted({c.__name__ for c in iter_subclasses(S.TimedObject) if getattr(S, c.__name__, None) is c})


def class_sweep_cases(complete=True, rot=0):
    """One case per (TimedObject class of the live hierarchy, reassign mode): an instance x of the class with
    voice 2 / staff 2 (where it has such attributes) in the SECOND of three parts, next to a note in voice 1 /
    staff 1; the third part uses voices 1, 2 and staves 1, 2, so an x that is renumbered but not counted when the
    offsets are sized meets the third part's numbers.  For a third of the (class, mode) pairs also x in the FIRST
    part (which keeps everything).  Six time points per case (merge_parts walks every class of the interpreter at
    every time point, about 30 ms each).
    complete=False (quick tier): all three modes for the GenericNote classes, Words and Clef; every other
    class in one mode (rotating with the seed).
    Returns (cases, names of the classes that could not be instantiated)."""
    import partitura.score as S
    N = lambda s, e, v, st, p: {"cls": "Note", "s": s, "e": e, "voice": v, "staff": st, "pitch": p}
    out, skipped = [], []
    for k, name in enumerate(live_classes()):
        cls = getattr(S, name)
        dur = 0 if issubclass(cls, S.GraceNote) else (1 if issubclass(cls, S.GenericNote) else None)
        x = {"cls": name, "generic_ctor": True, "voice": 2, "staff": 2}
        try:
            if not hasattr(instantiate(name, x, "P", 0), "end") and dur is None:
                dur = 1                   # (Segment: no `end` attribute unless it is added with an end time)
        except Uninstantiable as e:
            skipped.append(str(e))
            continue
        every_mode = complete or issubclass(cls, (S.GenericNote, S.Words, S.Clef)) or cls is S.Direction
        for mi, mode in enumerate(MODES):
            if not every_mode and (k + rot) % 3 != mi:
                continue
            for first in ([False, True] if (k + mi) % 3 == 0 else [False]):
                d = 2 if first else 3
                xe = dict(x, s=0, e=(None if dur is None else dur * d))
                parts = [{"id": "P0", "divs": 2, "elems": [N(0, 2, 1, 1, 60)] + ([xe] if first else [])},
                         {"id": "P1", "divs": 3, "elems": [N(0, 3, 1, 1, 64)] + ([] if first else [xe])},
                         {"id": "P2", "divs": 4, "elems": [N(0, 4, 1, 1, 67), N(0, 4, 2, 2, 69)]}]
                out.append({"mode": mode, "container": {"type": "list", "tree": [0, 1, 2]}, "pickup": False, "parts": parts,
                            "sweep_class": name})
    return out, skipped


def corpus_cases():
    """Hand-written edge cases (always run first): the inputs of D22, of the stale quarter map, of the
    rest-only voice / clef-only staff, lcm above every divisions value, containers of one part."""
    N = lambda s, e, v, st, p=60, **k: dict({"cls": "Note", "s": s, "e": e, "voice": v, "staff": st, "pitch": p}, **k)
    R = lambda s, e, v, st: {"cls": "Rest", "s": s, "e": e, "voice": v, "staff": st}
    M = lambda d, n=2: [{"cls": "Measure", "s": 4 * d * j, "e": 4 * d * (j + 1), "number": j + 1} for j in range(n)] + \
        [{"cls": "TimeSignature", "s": 0, "e": None, "beats": 4, "beat_type": 4}]
    P = lambda i, d, els: {"id": "P%d" % i, "divs": d, "elems": els}
    out = []
    for mode in MODES:
        # D22: missing staff in both parts
        out.append({"mode": mode, "container": {"type": "list", "tree": [0, 1]}, "pickup": False,
                    "parts": [P(0, 2, M(2) + [N(0, 2, 1, None), N(2, 4, 2, None, 62)]), P(1, 3, M(3) + [N(0, 3, 1, None, 64), N(3, 6, 1, 2, 65)])]})
        # lcm above all: 4, 6, 10 -> 60 ; structural elements in every part ; slur, words, direction
        out.append({"mode": mode, "container": {"type": "score", "tree": [0, 1, 2]}, "pickup": False,
                    "parts": [P(0, 4, M(4) + [N(1, 3, 1, 1), N(3, 8, 1, 1, 62), {"cls": "Slur", "s": 1, "e": 8, "from": 3, "to": 4},
                                              {"cls": "Clef", "s": 0, "e": None, "staff": 1, "sign": "G"}]),
                              P(1, 6, M(6) + [N(1, 5, 1, 1, 50), N(7, 9, 2, 2, 52), {"cls": "Words", "s": 7, "e": None, "staff": 2},
                                              {"cls": "Clef", "s": 0, "e": None, "staff": 2, "sign": "F"}, {"cls": "Barline", "s": 48, "e": None}]),
                              P(2, 10, M(10) + [N(3, 13, 1, None, 40), {"cls": "ConstantLoudnessDirection", "s": 3, "e": None, "staff": None},
                                                {"cls": "KeySignature", "s": 0, "e": None, "fifths": 2, "kmode": "major"}])]})
        # a voice used by a rest only, a staff used by a rest and a clef only
        out.append({"mode": mode, "container": {"type": "list", "tree": [0, 1]}, "pickup": False,
                    "parts": [P(0, 2, M(2) + [N(0, 2, 1, 1), N(2, 4, 2, 1, 62), R(4, 6, 3, 2), {"cls": "Clef", "s": 0, "e": None, "staff": 2, "sign": "F"}]),
                              P(1, 3, M(3) + [N(0, 3, 1, 1, 64), N(3, 6, 1, 1, 65)])]})
        # percussion: pitched notes in voice 1, unpitched notes (a GenericNote that is neither Note nor Rest) in a
        # voice and on a staff of their own, in a part that is not the last
        out.append({"mode": mode, "container": {"type": "list", "tree": [0, 1]}, "pickup": False,
                    "parts": [P(0, 4, M(4) + [N(0, 4, 1, 1), {"cls": "UnpitchedNote", "s": 0, "e": 4, "voice": 2, "staff": 2, "pitch": 64},
                                              {"cls": "UnpitchedNote", "s": 4, "e": 8, "voice": 2, "staff": 2, "pitch": 65}]),
                              P(1, 2, M(2) + [N(2, 4, 1, 1, 67), N(4, 6, 2, 2, 69)])]})
        # tied notes, continuation in a higher voice; grace note; equal divisions
        out.append({"mode": mode, "container": {"type": "group", "tree": [[0, 1]]}, "pickup": False,
                    "parts": [P(0, 4, M(4) + [N(0, 4, 1, 1, 60, tie_next=4), N(4, 8, 2, 1, 60), {"cls": "GraceNote", "s": 8, "e": 8, "voice": 1, "staff": 1, "pitch": 70}]),
                              P(1, 4, M(4) + [N(0, 4, 1, 1, 64), N(4, 6, 1, 1, 65)])]})
        # all inputs carry the same id (parts of different single-part files are all "P1"), divisions differ
        same = [P(0, 2, M(2) + [N(0, 2, 1, 1), R(6, 8, 1, 1), {"cls": "Slur", "s": 0, "e": 2, "from": 3, "to": 3}]),
                P(1, 3, M(3) + [N(3, 6, 1, 1, 64), {"cls": "ConstantLoudnessDirection", "s": 3, "e": 9, "staff": 1}]),
                P(2, 4, M(4) + [N(1, 5, 1, 1, 67)])]
        for sp in same:
            sp["id"] = "P1"
        for cont in ({"type": "list", "tree": [0, 1, 2]}, {"type": "score", "tree": [0, [1, 2]]}, {"type": "tuple", "tree": [0, 1]}):
            out.append({"mode": mode, "container": cont, "pickup": False, "parts": json.loads(json.dumps(same))})
        # first and last input share the id, the middle one differs
        fl = json.loads(json.dumps(same))
        fl[1]["id"] = "P2"
        out.append({"mode": mode, "container": {"type": "group", "tree": [[0, 1, 2]]}, "pickup": False, "parts": fl})
        # an empty first part; a first part without notes and with other divisions than the lcm, shorter than the second
        out.append({"mode": mode, "container": {"type": "list", "tree": [0, 1]}, "pickup": False,
                    "parts": [P(0, 5, []), P(1, 2, M(2) + [N(0, 2, 1, 1), N(3, 4, 2, None, 62)])]})
        out.append({"mode": mode, "container": {"type": "tuple", "tree": [0, 1]}, "pickup": False,
                    "parts": [P(0, 4, M(4, 1) + [R(0, 6, 1, 1), {"cls": "KeySignature", "s": 0, "e": None, "fifths": -2, "kmode": "minor"},
                                                 {"cls": "Barline", "s": 16, "e": None}, {"cls": "Clef", "s": 0, "e": None, "staff": 1, "sign": "G"}]),
                              P(1, 6, M(6, 2) + [N(1, 5, 1, 1, 50), N(25, 31, 1, 1, 52), {"cls": "IncreasingLoudnessDirection", "s": 5, "e": 25, "staff": 1}])]})
        # history: (2, 3) merged in "staff" mode first, the merged part (6) then merged with divisions 4 -> 12
        out.append({"mode": mode, "container": {"type": "list", "tree": [0, 1]}, "pickup": False, "pre": {"k": 2, "mode": "staff"},
                    "parts": [P(0, 2, M(2) + [N(0, 2, 1, 1), N(2, 4, 2, None, 62)]), P(1, 3, M(3) + [N(3, 6, 1, 2, 64), R(6, 9, 2, 1)]),
                              P(2, 4, M(4) + [N(1, 5, 1, 1, 67), {"cls": "Words", "s": 4, "e": None, "staff": 1}])]})
        # outside the quantifier: a rest without voice in the second part ("voice" and "auto" raise)
        out.append({"mode": mode, "container": {"type": "list", "tree": [0, 1]}, "pickup": False,
                    "parts": [P(0, 2, M(2) + [N(0, 2, 1, 1)]), P(1, 3, M(3) + [N(3, 6, 1, 1, 64), R(6, 9, None, 1)])]})
        # containers of one part
        for cont in ({"type": "list", "tree": [0]}, {"type": "part", "tree": [0]}, {"type": "group", "tree": [[0]]}, {"type": "score", "tree": [[0]]}):
            out.append({"mode": mode, "container": cont, "pickup": False, "parts": [P(0, 4, M(4) + [N(0, 4, 2, None), R(4, 8, 1, 2)])]})
        # state carried between calls: a Score whose parts drifted from its part_structure, given to merge_parts itself
        three = [P(0, 4, M(4, 1) + [N(0, 4, 1, 1), N(4, 8, 1, 1, 62), N(8, 12, 1, 1, 64), N(12, 16, 1, 1, 65)]),
                 P(1, 6, M(6, 1) + [N(0, 6, 1, 1, 67), N(6, 12, 1, 1, 69), N(12, 18, 1, 1, 71), N(18, 24, 1, 1, 72)]),
                 P(2, 3, M(3, 2) + [N(3 * k, 3 * k + 3, 1 + k % 2, 1, 48 + k) for k in range(8)])]
        out.append({"mode": mode, "container": {"type": "score", "tree": [0, 1]}, "pickup": False, "parts": json.loads(json.dumps(three)),
                    "hist_kind": "score_setitem", "score_hist": [["observe", "note_array"], ["setitem", 1, 2]]})
        out.append({"mode": mode, "container": {"type": "score", "tree": [[0], 1]}, "pickup": False, "parts": json.loads(json.dumps(three)),
                    "hist_kind": "score_listops", "score_hist": [["append", 2], ["observe", "len"], ["pop", 0]]})
        rep_ = lambda i, d, p0: P(i, d, M(d, 2) + [N(0, 2 * d, 1, 1, p0), N(2 * d, 4 * d, 1, 1, p0 + 2), N(4 * d, 8 * d, 2, 1, p0 + 4),
                                                   {"cls": "Repeat", "s": 0, "e": 4 * d}])
        out.append({"mode": mode, "container": {"type": "score", "tree": [0, 1]}, "pickup": False, "parts": [rep_(0, 4, 60), rep_(1, 6, 72)],
                    "hist_kind": "score_unfold", "score_hist": [["unfold", "maximal" if mode != "auto" else "minimal"]]})
        # inputs read, then a note in a new voice and on a new staff added to the first input, the divisions of the second changed
        out.append({"mode": mode, "container": {"type": "list", "tree": [0, 1]}, "pickup": False, "parts": json.loads(json.dumps(three[:2])),
                    "hist_kind": "edits", "edits": [{"op": "observe", "what": "part_note_array"}, {"op": "observe", "what": "single_merge"},
                                                    {"op": "add", "p": 0, "el": {"cls": "Note", "s": 4, "dur": 4, "voice": 3, "staff": 2, "pitch": 80}},
                                                    {"op": "divs", "p": 1, "value": 3}]})
        # inputs looked at (number of staves, clef map, exporters, note arrays, maps), then the staff / voice of an element of an input that
        # is not the last is changed IN PLACE to a number above everything that input used so far (no Part.add / remove), then the call
        rich = [P(0, 4, M(4, 1) + [N(0, 4, 1, 1), N(4, 8, 1, 1, 62), N(8, 12, 2, 1, 48), N(12, 16, 2, 1, 43), R(0, 8, 2, 1),
                                   {"cls": "Clef", "s": 0, "e": None, "staff": 1, "sign": "G"}, {"cls": "Clef", "s": 8, "e": None, "staff": 1, "sign": "F"},
                                   {"cls": "ConstantLoudnessDirection", "s": 0, "e": None, "staff": 1}]),
                P(1, 6, M(6, 1) + [N(0, 6, 1, 1, 67), N(6, 12, 1, 1, 69), N(12, 18, 1, None, 71), R(18, 24, 1, 1),
                                   {"cls": "Words", "s": 6, "e": None, "staff": 1}, {"cls": "Clef", "s": 0, "e": None, "staff": 1, "sign": "G"}]),
                P(2, 3, M(3, 1) + [N(3 * k, 3 * k + 3, 1 + k % 2, 1 + k % 2, 50 + k) for k in range(4)])]
        V = lambda w, on=None: {"op": "observe", "what": w, "on": on}
        A = lambda op, p_, k, by, tgt: {"op": op, "p": p_, "k": k, "value": {"above": by}, "target": tgt}
        out.append({"mode": mode, "container": {"type": "list", "tree": [0, 1]}, "pickup": False, "parts": json.loads(json.dumps(rich[:2])),
                    "hist_kind": "view_edits", "edits": [V("number_of_staves", [0]), A("staff", 0, 2, 1, "note"), A("staff", 0, 3, 1, "note")]})
        out.append({"mode": mode, "container": {"type": "score", "tree": [0, [1, 2]]}, "pickup": False, "parts": json.loads(json.dumps(rich)),
                    "hist_kind": "view_edits", "edits": [V("save_musicxml"), V("clef_map"), A("staff", 1, 0, 1, "clef"), A("voice", 0, 0, 1, "rest"),
                                                         V("pretty", [1])]})
        out.append({"mode": mode, "container": {"type": "tuple", "tree": [0, 1, 2]}, "pickup": False, "parts": json.loads(json.dumps(rich)),
                    "hist_kind": "view_edits", "edits": [V("note_array_staff"), V("time_maps"), V("notes"), V("save_mei", [0, 1]), A("voice", 1, 1, 2, "note"),
                                                         A("staff", 0, 0, 2, "direction"), A("staff", 1, 0, 1, "words")]})
        # a one-part list is merged (the part is returned as it is), then a second part is appended to its group
        out.append({"mode": mode, "container": {"type": "list", "tree": [[0]]}, "pickup": False, "parts": json.loads(json.dumps(three[:2])),
                    "hist_kind": "arg_edits", "arg_edits": [["append", 0, 1]]})
    return out


# ----------------------------------------------------------------------------
# running the implementation


def build_inputs(case):
    """Fresh inputs of the case.  Returns a dict: parts / objs / divs of the EFFECTIVE inputs (what the
    container tree indexes), oid_of (identity of every object built), and -- when the case has a history
    ("pre": {"k": k, "mode": m}: the first k specified parts are merged first, the merged part is the first
    effective input) -- raw: oid -> state of the object in its original part, with that part's divisions.
    "edits": calls that only read and edits through the public API applied to the effective inputs after that
    (see apply_edits); ps0 = the inputs as they were before the edits."""
    import partitura.score as S
    built = [build_part(sp) for sp in case["parts"]]
    parts = [b[0] for b in built]
    objs = [b[1] for b in built]
    divs = [sp["divs"] for sp in case["parts"]]
    oid_of = {}
    for pi, os_ in enumerate(objs):
        for ei, o in enumerate(os_):
            oid_of[id(o)] = 1000 * (pi + 1) + ei
    out = {"parts": parts, "objs": objs, "divs": divs, "oid_of": oid_of}
    pre = case.get("pre")
    if pre:
        k = pre["k"]
        raw = {}
        for pi in range(k):
            for o in objs[pi]:
                raw[oid_of[id(o)]] = dict(obj_state(o, oid_of, pi), divs=divs[pi])
        first = S.merge_parts(parts[:k], reassign=pre["mode"])         # step one of the history
        if pre.get("then"):
            # step two: the merged part merged with the next j parts; the result is the first effective input
            j = pre["then"]["k"]
            for pi in range(k, k + j):
                for o in objs[pi]:
                    raw[oid_of[id(o)]] = dict(obj_state(o, oid_of, pi), divs=divs[pi])
            first = S.merge_parts([first] + parts[k:k + j], reassign=pre["then"]["mode"])
            k = k + j
        kept = sorted((o for o in all_elements(first) if id(o) in oid_of), key=lambda o: oid_of[id(o)])
        out.update(parts=[first] + parts[k:], objs=[kept] + objs[k:], divs=[int(first._quarter_durations[0])] + divs[k:],
                   raw=raw, raw_divs=divs, pre_total=k)
    if case.get("edits"):
        out["objs"] = [list(x) for x in out["objs"]]
        out["divs"] = list(out["divs"])
        out["ps0"] = snapshot(out["objs"], oid_of)
        out["divs0"] = list(out["divs"])
        out["edit_log"] = apply_edits(case, out)
    return out


REMOVABLE_KINDS = ("KRest", "KWords", "KDirection", "KUnpitched")


def apply_edits(case, inp):
    """Between two calls: calls that only read (note arrays of a part / of a score over the inputs, a traversal),
    then edits of an input through the public API (Part.add, Part.remove, attribute assignment,
    Part.set_quarter_duration).  Returns the edits as they were carried out: (part index, op, ...)."""
    import partitura.score as S
    parts, objs, oid_of = inp["parts"], inp["objs"], inp["oid_of"]
    log = []
    nadd = 0
    for ed in case["edits"]:
        op = ed["op"]
        if op == "observe" and ed["what"] in VIEW_KINDS:
            for k in (range(len(parts)) if ed.get("on") is None else sorted({j % len(parts) for j in ed["on"]})):
                try:
                    do_view(parts[k], ed["what"])
                    log.append((k, "view", ed["what"], True))
                except Exception:       # (a view a part does not support, e.g. the MEI exporter on an unpitched note: still a read)
                    log.append((k, "view", ed["what"], False))
            continue
        if op == "observe":
            try:
                if ed["what"] == "part_note_array":
                    for p in parts:
                        p.note_array(include_staff=True)
                elif ed["what"] == "score_note_array":
                    S.Score(list(parts)).note_array()
                elif ed["what"] == "iter_parts":
                    list(S.iter_parts(list(parts)))
                elif ed["what"] == "single_merge":
                    for p in parts:                  # one part given: returned as it is (nothing is consumed)
                        S.merge_parts([p], reassign=case["mode"])
            except Exception:
                pass
            continue
        pi = ed["p"] % len(parts)
        p = parts[pi]
        if op == "add":
            el = dict(ed["el"])
            last = int(p._points[-1].t) if len(p._points) else 1
            el["s"] = el["s"] % (last + 1)
            el["e"] = el["s"] + max(1, el["dur"] % (last + 1)) if el["cls"] != "GraceNote" else el["s"]
            o = make_object(el, objs[pi], "add%d" % pi, 900 + nadd)
            p.add(o, el["s"], el["e"])
            oid_of[id(o)] = 1000 * (pi + 1) + 900 + nadd
            nadd += 1
            objs[pi].append(o)
            log.append((pi, "add", o))
        elif op == "remove":
            cand = [o for o in objs[pi] if kind_of(o) in REMOVABLE_KINDS and oid_of[id(o)] % 1000 < 900]
            if not cand:
                continue
            o = cand[ed["k"] % len(cand)]
            oid = oid_of[id(o)]
            p.remove(o)
            objs[pi].remove(o)
            log.append((pi, "remove", oid))
        elif op in ("voice", "staff"):
            cand = [o for o in objs[pi] if kind_of(o) in (GENERIC_KINDS if op == "voice" else STAFFED_KINDS) and oid_of[id(o)] % 1000 < 900]
            pref = [o for o in cand if kind_of(o) in ATTR_TARGETS.get(ed.get("target"), ())]
            cand = pref or cand
            if not cand:
                continue
            o = cand[ed["k"] % len(cand)]
            value = ed["value"]
            if isinstance(value, dict):
                # above everything the part uses NOW (missing staff = 1)
                if op == "voice":
                    value = max([int(x.voice) for x in objs[pi] if kind_of(x) in GENERIC_KINDS and x.voice is not None] + [0]) + value["above"]
                else:
                    value = max([int(x.staff or 1) for x in objs[pi] if kind_of(x) in STAFFED_KINDS] + [1]) + value["above"]
            setattr(o, op, value)
            log.append((pi, op, oid_of[id(o)], value))
        elif op == "divs":
            p.set_quarter_duration(0, ed["value"])
            inp["divs"][pi] = ed["value"]
            inp["divs_edited"] = inp.get("divs_edited", set()) | {pi}
            log.append((pi, "divs", ed["value"]))
    return log


def tree_after(tree, arg_edits):
    """The container tree after the edits of the argument (append a part to the list / to a group, reverse)."""
    tree = json.loads(json.dumps(tree))
    groups = []

    def walk(t):
        for x in t:
            if not isinstance(x, int):
                groups.append(x)
                walk(x)
    walk(tree)
    for ed in arg_edits:
        tgt = tree if ed[1] == "top" else (groups[ed[1] % len(groups)] if groups else None)
        if tgt is None:
            continue
        if ed[0] == "append":
            tgt.append(ed[2])
        elif ed[0] == "reverse":
            tgt.reverse()
    return tree


def prepare(case):
    """Fresh inputs, the argument of merge_parts as it is just before the call, and the indices (into the
    effective inputs) of the parts the argument holds NOW, in order."""
    import partitura.score as S
    inp = build_inputs(case)
    parts = inp["parts"]
    cont = case["container"]
    arg = build_container(case, parts)
    flat = flat_order(cont["tree"])
    if case.get("arg_edits"):
        # a look at the argument, then the argument is edited in place, then the call
        try:
            list(S.iter_parts(arg)) if not isinstance(arg, S.Score) else len(arg)
            if len(flat) == 1:
                S.merge_parts(arg, reassign=case["mode"])
        except Exception:
            pass
        groups = []

        def walk(items):
            for x in items:
                if isinstance(x, S.PartGroup):
                    groups.append(x)
                    walk(x.children)
        top = arg.part_structure if isinstance(arg, S.Score) else ([arg] if cont["type"] in ("group", "part") else list(arg))
        walk(top)
        done = []
        for ed in case["arg_edits"]:
            if ed[1] == "top":
                if cont["type"] != "list":
                    continue
                if ed[0] == "append":
                    arg.append(parts[ed[2]])
                else:
                    arg.reverse()
            else:
                if not groups:
                    continue
                g = groups[ed[1] % len(groups)]
                if ed[0] == "append":
                    g.children.append(parts[ed[2]])
                    parts[ed[2]].parent = g
                else:
                    g.children.reverse()
            done.append(ed)
        inp["tree_now"] = tree_after(cont["tree"], done) if cont["type"] != "group" else tree_after(cont["tree"], done)
        if cont["type"] != "score":       # a Score keeps the flat list computed when it was built
            flat = flat_order(inp["tree_now"])
    if case.get("score_hist"):
        assert cont["type"] == "score"
        sops = []
        for op in case["score_hist"]:
            if op[0] == "observe":
                try:
                    {"note_array": lambda: arg.note_array(), "len": lambda: len(arg), "iter": lambda: [p for p in arg],
                     "getitem": lambda: arg[0]}[op[1]]()
                except Exception:
                    pass
                sops.append(("observe",))
            elif op[0] == "setitem":
                i = op[1] % len(arg.parts)
                arg[i] = parts[op[2]]
                sops.append(("setitem", i, op[2]))
            elif op[0] == "append":
                arg.parts.append(parts[op[1]])
                sops.append(("append", op[1]))
            elif op[0] == "pop":
                if len(arg.parts) < 2:
                    continue
                i = op[1] % len(arg.parts)
                arg.parts.pop(i)
                sops.append(("pop", i))
            elif op[0] == "unfold":
                arg = S.unfold_part_maximal(arg) if op[1] == "maximal" else S.unfold_part_minimal(arg)
                new = []
                for p in arg.parts:
                    pi = len(parts)
                    os_ = list(all_elements(p))
                    for ei, o in enumerate(os_):
                        inp["oid_of"][id(o)] = 1000 * (pi + 1) + ei
                    parts.append(p)
                    inp["objs"].append(os_)
                    inp["divs"].append(int(p._quarter_durations[0]))
                    if len(p._quarter_durations) != 1:
                        raise Uninstantiable("unfolded part with several divisions")
                    new.append(pi)
                sops.append(("replace_all", new))
        idx = {id(p): i for i, p in enumerate(parts)}
        flat = [idx[id(p)] for p in arg.parts]
        inp["sops"] = sops
    inp["arg"] = arg
    inp["flat"] = flat
    return inp


def run_case(case):
    """Build fresh inputs, call merge_parts.  Returns a dict with everything observed."""
    import partitura.score as S
    try:
        inp = prepare(case)
    except Uninstantiable:
        raise
    except Exception as e:
        if not (case.get("pre") or case.get("edits") or case.get("score_hist") or case.get("arg_edits")):
            raise
        if case.get("score_hist") and any(op[0] == "unfold" for op in case["score_hist"]) and not case.get("pre"):
            return {"skip": "unfold_part_* raised %s (C09's subject)" % type(e).__name__, "before": [], "flat": []}
        return {"exc": "%s: %s (in the first merge of the history)" % (type(e).__name__, e), "before": [], "flat": flat_order(case["container"]["tree"])}
    parts, objs, oid_of = inp["parts"], inp["objs"], inp["oid_of"]
    before = snapshot(objs, oid_of)
    arg = inp["arg"]
    flat = [parts[i] for i in inp["flat"]]
    out = dict(inp, before=before)
    if isinstance(arg, S.Score):
        # the note array of the SAME score object, read before the merge (merge_parts modifies the elements)
        try:
            out["sarr_live"] = arg.note_array()
            out["len_live"] = len(arg)
        except Exception as e:
            out["sarr_live_exc"] = "%s: %s" % (type(e).__name__, e)
    try:
        res = S.merge_parts(arg, reassign=case["mode"])
    except Exception as e:
        out["exc"] = "%s: %s" % (type(e).__name__, e)
        return out
    out["result"] = res
    out["returned_idx"] = next((k for k, p in enumerate(flat) if p is res), None)
    return out


def has_history(case):
    return bool(case.get("pre") or case.get("edits") or case.get("score_hist") or case.get("arg_edits"))


def score_array_of(case):
    """Score-level note array of freshly built inputs (flattened order)."""
    import partitura.score as S
    inp = prepare(case)
    flat = [inp["parts"][i] for i in inp["flat"]]
    sc = S.Score(flat)
    return sc.note_array()


def voiceless(case):
    """True when some note or rest of the case has no voice (outside the quantifier: "voice" and "auto" raise)."""
    return any(e.get("voice") is None for sp in case["parts"] for e in sp["elems"] if e["cls"] in GENERIC_CLS)


def kept_expected(kind, part_pos, mode):
    """What the property text says about an input element of this class from the part at this position
    in the flattened list: 'keep', 'drop', or 'either'."""
    if part_pos == 0:
        return "keep"
    if kind == "KClef":
        return "drop" if mode == "voice" else "either"   # staves are kept apart in staff/auto: each staff keeps its clef
    if kind in DOC_STRUCTURAL:
        return "drop"
    return "keep"


def fclose(a, b):
    return abs(a - b) <= 1e-5 * max(1.0, abs(a), abs(b))


def check_case(case, obs=None):
    """Direct oracle: the property statement on the implementation's result.
    Returns (fclass, message, obs): fclass None when the property holds on this case."""
    obs = obs or run_case(case)
    mode = case["mode"]
    if "skip" in obs:
        return None, "", obs
    flat = obs["flat"]
    pos_of = {pi: k for k, pi in enumerate(flat)}          # part index -> position in the flattened list
    if "exc" in obs:
        if voiceless(case) and mode != "staff" and len(flat) > 1 and "history" not in obs["exc"]:
            obs["expected_raise"] = True          # outside the quantifier; the model must raise as well
            return None, "", obs
        return "exception", "merge_parts(reassign=%r) raised %s" % (mode, obs["exc"]), obs
    if voiceless(case) and mode != "staff" and len(flat) > 1:
        obs["outside_quantifier"] = True          # merged although a note / rest has no voice: nothing is claimed
        return None, "", obs
    res = obs["result"]
    before = obs["before"]
    if len(flat) == 1:
        # O4: a single part (or a group or list holding one) is returned as it is
        if res is not obs["parts"][flat[0]]:
            return "single_not_identity", "one part given (%s) but the result is not that part object" % case["container"]["type"], obs
        after = snapshot(obs["objs"], obs["oid_of"])
        if after != before:
            return "single_modified", "one part given: the part was returned but its elements changed", obs
        now = sorted(obs["oid_of"].get(id(o), -1) for o in all_elements(res))
        if now != sorted(b["oid"] for b in before if b["part"] == flat[0]):
            return "single_modified", "one part given: the returned part no longer holds exactly its elements", obs
        return None, "", obs
    import partitura.score as S
    if not isinstance(res, S.Part) or any(res is p for p in obs["parts"]):
        return "not_new_part", "result is not a new Part", obs
    ds = [obs["divs"][pi] for pi in flat]
    L = lcm_list(ds)
    if "raw" in obs and 0 in flat and 0 not in obs.get("divs_edited", ()) and L != lcm_list(ds + obs["raw_divs"][:obs["pre_total"]]):
        return "divisions", "history: the first input is itself a merged part counting in %d, not in the lcm of its inputs' divisions %r" % (
            obs["divs"][0], obs["raw_divs"][:obs["pre_total"]]), obs
    # the merged part counts time in the lcm of the divisions
    if list(res._quarter_durations) != [L] or list(res._quarter_times) != [0]:
        return "divisions", "merged part has quarter durations %r at %r, expected the lcm %d of %r" % (
            list(res._quarter_durations), list(res._quarter_times), L, ds), obs
    badq = [(int(tp.t), tp.quarter) for tp in res._points if tp.quarter != L]
    if badq:
        return "timepoint_quarter", "TimePoint.quarter of the merged part is %r at t=%d, expected %d" % (badq[0][1], badq[0][0], L), obs
    by_oid = {b["oid"]: b for b in before}
    oid_of = obs["oid_of"]
    merged = []
    seen = set()
    for o in all_elements(res):
        oid = oid_of.get(id(o))
        if oid is None or oid not in by_oid:
            return "foreign_element", "merged part holds an object (%s) that is not an element of any input" % type(o).__name__, obs
        if by_oid[oid]["part"] not in pos_of:
            return "stale_element", ("merged part holds %s (element %d) of a part that is not among the parts the argument holds when merge_parts "
                                     "is called (a part that was replaced / removed before the call)" % (by_oid[oid]["cls"], oid)), obs
        if oid in seen:
            return "duplicate_element", "element %d (%s) occurs twice in the merged part" % (oid, by_oid[oid]["kind"]), obs
        seen.add(oid)
        merged.append(obj_state(o, oid_of, by_oid[oid]["part"]))
    obs["merged"] = merged
    m_by_oid = {m["oid"]: m for m in merged}
    # O1 / O3: presence
    for b in before:
        if b["part"] not in pos_of:
            continue
        want = kept_expected(b["kind"], pos_of[b["part"]], mode)
        have = b["oid"] in m_by_oid
        if want == "keep" and not have:
            if b["kind"] in UNDOCUMENTED_DROPS:
                # reported separately (C15-K2); the other clauses are still evaluated on this case
                obs.setdefault("soft", []).append(("undocumented_drop", (
                    "%s of input %d is missing from the merged part (the documentation lists only Barline, Page, System, Clef, "
                    "Measure, TimeSignature, KeySignature as taken from the first part)" % (b["kind"][1:], pos_of[b["part"]])),
                    {"kind": b["kind"], "part_pos": pos_of[b["part"]]}))
                continue
            return "element_missing", "%s (element %d) of input %d is missing from the merged part" % (b["cls"], b["oid"], pos_of[b["part"]]), obs
        if want == "drop" and have:
            return "structural_not_first", "%s of input %d is in the merged part (structural elements come from the first part only)" % (
                b["cls"], pos_of[b["part"]]), obs
    # O1: same musical time (quarters from division 0), exactly
    for m in merged:
        b = by_oid[m["oid"]]
        d = obs["divs"][b["part"]]
        if m["kind"] != b["kind"] or m["pitch"] != b["pitch"]:
            return "element_changed", "element %d changed class or pitch" % m["oid"], obs
        if Fraction(m["s"], L) != Fraction(b["s"], d):
            return "time", "%s of input %d starts at %d/%d quarters in the merged part, at %d/%d in its part" % (
                b["cls"], pos_of[b["part"]], m["s"], L, b["s"], d), obs
        if (m["e"] is None) != (b["e"] is None) or (b["e"] is not None and Fraction(m["e"], L) != Fraction(b["e"], d)):
            return "time", "%s of input %d ends at %r/%d quarters in the merged part, at %r/%d in its part" % (
                b["cls"], pos_of[b["part"]], m["e"], L, b["e"], d), obs
        if m["tie_next"] != b["tie_next"] or m["tie_prev"] != b["tie_prev"]:
            return "element_changed", "tie links of element %d changed" % m["oid"], obs
        # history: an element that went through two merges stands where it stood in its ORIGINAL part
        rb = obs.get("raw", {}).get(m["oid"])
        if rb is not None and b["part"] == 0 and 0 not in obs.get("divs_edited", ()):
            if Fraction(m["s"], L) != Fraction(rb["s"], rb["divs"]) or (rb["e"] is not None and Fraction(m["e"], L) != Fraction(rb["e"], rb["divs"])):
                return "time_history", "%s merged twice stands at [%d, %r]/%d quarters, in its original part at [%d, %r]/%d" % (
                    rb["cls"], m["s"], m["e"], L, rb["s"], rb["e"], rb["divs"]), obs
    # O2: voices / staves
    gen = [m for m in merged if m["kind"] in GENERIC_KINDS]
    staffed = [m for m in merged if m["kind"] in STAFFED_KINDS]

    def disjoint_coherent(items, attr, old_of, what):
        groups = {}
        for m in items:
            groups.setdefault(m[attr], []).append(m)
        for v, ms in sorted(groups.items(), key=lambda kv: (kv[0] is None, kv[0] or 0)):
            if len({m["part"] for m in ms}) > 1:
                a = ms[0]
                b_ = next(x for x in ms if x["part"] != a["part"])
                return ("%s_collision" % what, "%s of input %d and %s of input %d share %s %r in the merged part" % (
                    a["cls"], pos_of[a["part"]], b_["cls"], pos_of[b_["part"]], what, v),
                    {"what": what, "value": v, "kinds": sorted({a["kind"], b_["kind"]})})
            if len({old_of(by_oid[m["oid"]]) for m in ms}) > 1:
                return ("%s_merged" % what, "elements of input %d with different %ss got the same %s %r" % (pos_of[ms[0]["part"]], what, what, v), None)
        olds = {}
        for m in items:
            olds.setdefault((m["part"], old_of(by_oid[m["oid"]])), set()).add(m[attr])
        for (pi, ov), news in sorted(olds.items(), key=str):
            if len(news) > 1:
                return ("%s_split" % what, "elements of input %d that shared %s %r are in %ss %r of the merged part" % (pos_of[pi], what, ov, what, sorted(news, key=str)), None)
        return None

    checks = []
    if mode in ("voice", "auto"):
        checks.append((gen, "voice", lambda b: b["voice"], "voice"))
    if mode in ("staff", "auto"):
        checks.append((staffed, "staff", lambda b: b["staff"] if b["staff"] is not None else 1, "staff"))
    for items, attr, old_of, what in checks:
        r = disjoint_coherent(items, attr, old_of, what)
        if r:
            detail = r[2]
            if r[0] == "voice_collision" and mode == "auto":
                per_part = {}
                for pi in flat:
                    vs = {b["voice"] for b in before if b["part"] == pi and b["kind"] in GENERIC_KINDS}
                    ss = {(b["staff"] if b["staff"] is not None else 1) for b in before if b["part"] == pi and
                          b["kind"] in STAFFED_KINDS}
                    per_part[pos_of[pi]] = [len(vs), len(ss)]
                detail = dict(detail, voices_staves_per_part=per_part)
            return r[0], r[1], dict(obs, detail=detail)
    # O5: the sounding notes of the merged part equal those of the score-level note array
    try:
        marr = res.note_array(include_staff=True, include_divs_per_quarter=True)
    except Exception as e:
        return "merged_note_array", "note_array of the merged part raised %s: %s" % (type(e).__name__, e), obs
    try:
        sarr = score_array_of(case)
    except Exception as e:
        return "score_note_array", "Score.note_array of the inputs raised %s: %s" % (type(e).__name__, e), obs
    obs["marr"], obs["sarr"] = marr, sarr
    if len(marr) and set(int(x) for x in marr["divs_pq"]) != {L}:
        return "divisions", "divs_pq of the merged part's note array is %r, expected %d" % (sorted(set(int(x) for x in marr["divs_pq"])), L), obs
    km = sorted((Fraction(int(r["onset_div"]), L), Fraction(int(r["duration_div"]), L), int(r["pitch"])) for r in marr)
    ks = sorted((Fraction(int(r["onset_div"]), int(r["divs_pq"])), Fraction(int(r["duration_div"]), int(r["divs_pq"])), int(r["pitch"])) for r in sarr)
    if "sarr_live_exc" in obs:
        return "score_note_array", "note_array() of the score given to merge_parts raised %s" % obs["sarr_live_exc"], obs
    if "sarr_live" in obs:
        # the SAME score object, asked before the merge
        kl = sorted((Fraction(int(r["onset_div"]), int(r["divs_pq"])), Fraction(int(r["duration_div"]), int(r["divs_pq"])), int(r["pitch"])) for r in obs["sarr_live"])
        if km != kl:
            return "sounding_notes_same_score", ("sounding notes of merge_parts(score) differ from score.note_array() of the same score object: %d vs %d rows; "
                                                 "only merged %s; only score %s" % (len(km), len(kl), [tuple(map(str, x)) for x in km if x not in kl][:2],
                                                                                    [tuple(map(str, x)) for x in kl if x not in km][:2])), obs
        if obs.get("len_live") != len(flat):
            return "score_length", "len(score) is %r, the score holds %d parts" % (obs.get("len_live"), len(flat)), obs
    if km != ks:
        extra = [x for x in km if x not in ks][:2]
        lack = [x for x in ks if x not in km][:2]
        return "sounding_notes", ("sounding notes (onset, duration in quarters, pitch) of the merged part differ from the score-level note array: "
                                  "%d vs %d rows; only merged %s; only score %s" % (len(km), len(ks), [tuple(map(str, x)) for x in extra], [tuple(map(str, x)) for x in lack])), obs
    if has_history(case):
        return None, "", obs           # (the quarter columns are compared on cases without history)
    full = all(any(e["cls"] == "Measure" for e in case["parts"][pi]["elems"]) and any(e["cls"] == "TimeSignature" for e in case["parts"][pi]["elems"]) for pi in flat)
    # onset_quarter comes from each part's own quarter map: comparable when the parts agree on the pickup
    # (same first measure and time signature) and no part is degenerate (a part with a single time
    # point maps everything to 0 -- C02's subject)
    def n_times(pi):
        ts = set()
        for e in case["parts"][pi]["elems"]:
            ts.add(e["s"])
            if e["e"] is not None:
                ts.add(e["e"])
        return len(ts)
    if (full or not case.get("pickup")) and all(n_times(pi) >= 2 for pi in flat):
        qm = sorted((int(r["pitch"]), float(r["onset_quarter"]), float(r["duration_quarter"])) for r in marr)
        qs = sorted((int(r["pitch"]), float(r["onset_quarter"]), float(r["duration_quarter"])) for r in sarr)
        for a, b_ in zip(qm, qs):
            if a[0] != b_[0] or not fclose(a[1], b_[1]) or not fclose(a[2], b_[2]):
                return "sounding_notes_quarter", "onset_quarter/duration_quarter of the merged part %r differ from the score-level note array %r" % (a, b_), obs
        obs["quarters_compared"] = True
    return None, "", obs


# ----------------------------------------------------------------------------
# Coq printers


def c_elem(st):
    return "(mkElem %s %s %s %s %s %s %s %s %s)" % (
        cz(st["oid"]), st["kind"], cz(st["s"]), copt(st["e"], cz), copt(st["voice"], cz), copt(st["staff"], cz),
        cz(st["pitch"]), copt(st["tie_prev"], cz), copt(st["tie_next"], cz))


def c_tagged(st, pos_of):
    return "(%s, %s)" % (cnat(pos_of[st["part"]]), c_elem(st))


def c_part(case, before, pi, divs=None):
    els = [b for b in before if b["part"] == pi]
    return "((%s : list elem), %s)" % (clist([c_elem(b) for b in els]), cz((divs or [sp["divs"] for sp in case["parts"]])[pi]))


def c_trees(case, before, divs=None, tree=None, bare=False):
    """The argument of merge_parts as the model's [arg]: a Score built from the trees, a list / tuple of
    trees, or a single Part / PartGroup.  (tree: the container as it is when merge_parts is called, when
    the argument was edited; a Score keeps the flat list of the tree it was built from.)"""
    def tr(t):
        if isinstance(t, int):
            return "(TPart %s)" % c_part(case, before, t, divs)
        return "(TGroup %s)" % clist([tr(x) for x in t])
    ty = case["container"]["type"]
    tree = case["container"]["tree"] if (tree is None or ty == "score") else tree
    trees = "(%s : list tree)" % clist([tr(t) for t in tree])
    if bare:
        return trees
    if ty == "score":
        return "(AScore %s)" % trees
    if ty in ("group", "part"):
        return "(AOne %s)" % tr(tree[0])
    return "(ASeq %s)" % trees


def c_case(case, obs):
    """The Coq term of a case: (mode, arg, observed, merged note array, Ls, score-level array); for a case with
    edits of the inputs two more components (the inputs before the edits, the edits); for a score history
    (mode, partlist, operations, parts the score holds at the call, observed, merged note array, Ls, note array of
    the same score object)."""
    before = obs["before"]
    flat = obs["flat"]
    pos_of = {pi: k for k, pi in enumerate(flat)}
    live = "sops" in obs
    if "exc" in obs:
        o = "ORaise"
        marr = sarr = "[]"
        Ls = cz(1)
    elif len(flat) == 1:
        after = snapshot(obs["objs"], obs["oid_of"])
        idx = obs["returned_idx"] if obs["returned_idx"] is not None else 99
        o = "(OSingle %s %s)" % (cnat(idx), c_part(case, after, flat[0], obs["divs"]))
        marr = sarr = "[]"
        Ls = cz(1)
    else:
        res = obs["result"]
        merged = sorted(obs["merged"], key=lambda m: m["oid"])
        o = "(OMerged %s %s)" % (cz(int(res._quarter_durations[0])), clist([c_tagged(m, pos_of) for m in merged]))
        marr = clist(["(%s, %s, %s, %s, %s)" % (cz(r["onset_div"]), cz(r["duration_div"]), cz(r["pitch"]), cz(r["voice"]), cz(r["staff"])) for r in obs["marr"]])
        sa = obs["sarr_live"] if live else obs["sarr"]
        sarr = clist(["(%s, %s, %s)" % (cz(r["onset_div"]), cz(r["duration_div"]), cz(r["pitch"])) for r in sa])
        Ls = cz(int(sa["divs_pq"][0])) if len(sa) else cz(1)
    divs = obs.get("divs")
    if live:
        sops = []
        for op in obs["sops"]:
            if op[0] == "observe":
                sops.append("SObserve")
            elif op[0] == "setitem":
                sops.append("(SSetItem %s %s)" % (cnat(op[1]), c_part(case, before, op[2], divs)))
            elif op[0] == "append":
                sops.append("(SAppend %s)" % c_part(case, before, op[1], divs))
            elif op[0] == "pop":
                sops.append("(SPop %s)" % cnat(op[1]))
            else:
                sops.append("(SReplaceAll (%s : list part))" % clist([c_part(case, before, pi, divs) for pi in op[1]]))
        return "(%s, %s, (%s : list sop), (%s : list part), %s, (%s : list nrow), %s, (%s : list (Z * Z * Z)))" % (
            CMODE[case["mode"]], c_trees(case, before, divs, bare=True), clist(sops),
            clist([c_part(case, before, pi, divs) for pi in flat]), o, marr, Ls, sarr)
    base = "%s, %s, %s, (%s : list nrow), %s, (%s : list (Z * Z * Z))" % (
        CMODE[case["mode"]], c_trees(case, before, divs, tree=obs.get("tree_now")), o, marr, Ls, sarr)
    if "ps0" in obs:
        ps0 = clist(["((%s : list elem), %s)" % (clist([c_elem(b) for b in obs["ps0"] if b["part"] == pi]), cz(obs["divs0"][pi])) for pi in flat])
        by_oid = {b["oid"]: b for b in before}
        eds = []
        for ed in obs["edit_log"]:
            if ed[0] not in pos_of:
                continue
            k = cnat(pos_of[ed[0]])
            if ed[1] == "add":
                eds.append("(%s, PAdd %s)" % (k, c_elem(by_oid[obs["oid_of"][id(ed[2])]])))
            elif ed[1] == "remove":
                eds.append("(%s, PRemove %s)" % (k, cz(ed[2])))
            elif ed[1] == "voice":
                eds.append("(%s, PSetVoice %s %s)" % (k, cz(ed[2]), copt(ed[3], cz)))
            elif ed[1] == "staff":
                eds.append("(%s, PSetStaff %s %s)" % (k, cz(ed[2]), copt(ed[3], cz)))
            elif ed[1] == "divs":
                eds.append("(%s, PSetDivs %s)" % (k, cz(ed[2])))
        return "(%s, (%s : list part), (%s : list (nat * pedit)))" % (base, ps0, clist(eds))
    return "(%s)" % base


def c_nested(case, obs):
    """The history of merges as the model's [mtree], leaves = the parts as they were BUILT, with what was observed at
    the end (only for histories without edits, merged result)."""
    raw = obs["raw"]
    rd = obs["raw_divs"]
    pre = case["pre"]
    k, kt = pre["k"], obs["pre_total"]

    def leaf_raw(pi):
        els = sorted((v for v in raw.values() if v["part"] == pi), key=lambda v: v["oid"])
        return "(MLeaf ((%s : list elem), %s))" % (clist([c_elem(v) for v in els]), cz(rd[pi]))
    node = "(MNode %s %s)" % (CMODE[pre["mode"]], clist([leaf_raw(pi) for pi in range(k)]))
    if pre.get("then"):
        node = "(MNode %s %s)" % (CMODE[pre["then"]["mode"]], clist([node] + [leaf_raw(pi) for pi in range(k, kt)]))
    kids = [node if pi == 0 else "(MLeaf %s)" % c_part(case, obs["before"], pi, obs["divs"]) for pi in obs["flat"]]
    pos_of = {pi: n for n, pi in enumerate(obs["flat"])}
    res = obs["result"]
    merged = sorted(obs["merged"], key=lambda m: m["oid"])
    o = "(OMerged %s %s)" % (cz(int(res._quarter_durations[0])), clist([c_tagged(m, pos_of) for m in merged]))
    return "((MNode %s (%s : list mtree)), %s)" % (CMODE[case["mode"]], clist(kids), o)


NCHECKER = "fun c => match c with (t, o) => nested_ok t o end"
CHECKER = "fun c => match c with (m, a, o, marr, Ls, sarr) => full_case_ok m a o marr Ls sarr end"
HCHECKER = "fun c => match c with (m, pl, ops, cur, o, marr, Ls, sarr) => score_hist_ok m pl ops cur o marr Ls sarr end"
ECHECKER = "fun c => match c with (m, a, o, marr, Ls, sarr, ps0, eds) => full_case_ok m a o marr Ls sarr && edits_ok ps0 eds a end"
IMPORTS = "From PV Require Import Lib.Base Model.C05 Model.C15 Model.C15_Hist."
# the components of full_case_ok, to name what disagrees on a failing case
COMPONENTS = [
    ("result (returned part / lcm / elements with origin, class, start, end, voice, staff)",
     "fun c => match c with (m, a, o, marr, Ls, sarr) => case_ok m (arg_trees a) o end"),
    ("closed forms (offsets as running sums, structural elements of the first input) on the observed elements",
     "fun c => match c with (m, a, o, marr, Ls, sarr) => match o with OMerged L out => offsets_ok m (flat_map flatten (arg_trees a)) L out && structural_ok m (flat_map flatten (arg_trees a)) L out | _ => true end end"),
    ("note array (onset, duration, pitch, voice, staff) of the merged part",
     "fun c => match c with (m, a, o, marr, Ls, sarr) => match o with OMerged _ _ => merged_array_ok m (arg_trees a) marr | _ => true end end"),
    ("score-level note array of the inputs (note_array_from_part_list: onset_div, duration_div, pitch, one divs_pq = lcm)",
     "fun c => match c with (m, a, o, marr, Ls, sarr) => match o with OMerged _ _ => score_array_ok (arg_trees a) Ls sarr | _ => true end end"),
]


def diagnose(ctx, term):
    bad = []
    for k, (what, chk) in enumerate(COMPONENTS):
        try:
            if ctx.coq_failing("merge_diag%d" % k, "From PV Require Import Lib.Base Model.C05 Model.C15.", "", [term], chk, shard=60):
                bad.append(what)
        except RuntimeError:
            pass
    return "; ".join(bad) or "link between the two arrays"


# ----------------------------------------------------------------------------
# shrinking, features


def drop_elems(spec, keep):
    """Sub-specification with the elements of index in `keep` (references re-indexed; elements whose
    referents are gone are dropped, tie links to removed notes are cut)."""
    keep = sorted(keep)
    changed = True
    els = spec["elems"]
    while changed:
        changed = False
        ks = set(keep)
        for i in list(keep):
            el = els[i]
            for f in ("from", "to"):
                if el.get(f) is not None and el[f] not in ks:
                    keep.remove(i)
                    changed = True
                    break
    new_idx = {i: k for k, i in enumerate(keep)}
    out = []
    for i in keep:
        el = dict(els[i])
        if el.get("tie_next") is not None:
            if el["tie_next"] in new_idx:
                el["tie_next"] = new_idx[el["tie_next"]]
            else:
                el.pop("tie_next")
        for f in ("from", "to"):
            if el.get(f) is not None:
                el[f] = new_idx[el[f]]
        if el.get("ref") is not None:
            if el["ref"] in new_idx:
                el["ref"] = new_idx[el["ref"]]
            else:
                el["ref"] = None
        out.append(el)
    return dict(spec, elems=out)


def failure_classes(case):
    f, m, o = check_case(case)
    return ([f] if f else []) + [x[0] for x in (o or {}).get("soft", [])]


def shrink_case(case, fclass, budget=80):
    """ddmin over the elements of each part, keeping the failure class (at most `budget` runs of the
    implementation: one merge costs some tenths of a second)."""
    case = json.loads(json.dumps(case))
    left = [budget]

    def still(c):
        if left[0] <= 0:
            return False
        left[0] -= 1
        try:
            return fclass in failure_classes(c)
        except Exception:
            return False
    # whole parts first (never below two parts; the container becomes a plain list)
    while len(case["parts"]) > 2 and not has_history(case):
        for pi in range(len(case["parts"]) - 1, -1, -1):
            cand = dict(case, parts=[p for k, p in enumerate(case["parts"]) if k != pi])
            cand["container"] = {"type": "list", "tree": list(range(len(cand["parts"])))}
            if still(cand):
                case = cand
                break
        else:
            break
    if case.get("edits") and len(case["edits"]) > 1:
        # the history: as few reads and edits as still show the failure
        try:
            keep = core.ddmin(list(range(len(case["edits"]))), lambda keep: still(dict(case, edits=[case["edits"][i] for i in sorted(keep)])))
            cand = dict(case, edits=[case["edits"][i] for i in sorted(keep)])
            if still(cand):
                case = cand
        except Exception:
            pass
    for pi in range(len(case["parts"])):
        spec = case["parts"][pi]
        if len(spec["elems"]) < 2:
            continue

        def fails(keep, pi=pi, spec=spec):
            c = dict(case)
            c["parts"] = list(case["parts"])
            c["parts"][pi] = drop_elems(spec, list(keep))
            return still(c)
        try:
            keep = core.ddmin(list(range(len(spec["elems"]))), fails)
            cand = dict(case)
            cand["parts"] = list(case["parts"])
            cand["parts"][pi] = drop_elems(spec, list(keep))
            if still(cand):
                case = cand
        except Exception:
            pass
    return case


def st_(e):
    return e["staff"] if e.get("staff") is not None else 1


def features(case):
    f = set()
    ds = [p["divs"] for p in case["parts"]]
    if len(ds) == 1:
        f.add("single_part")
        return f
    if len(set(ds)) > 1:
        f.add("different_divisions")
    else:
        f.add("equal_divisions")
    if lcm_list(ds) > max(ds):
        f.add("lcm_exceeds_all")
    for pi, p in enumerate(case["parts"]):
        gn = [e for e in p["elems"] if e["cls"] in GENERIC_CLS]
        notes = [e for e in gn if e["cls"] in SOUNDING_CLS]
        unp = [e for e in gn if e["cls"] in ("UnpitchedNote", "GenericNote")]
        if unp:
            f.add("unpitched_notes")
            if {e["voice"] for e in unp} - {e["voice"] for e in gn if e not in unp}:
                f.add("voice_of_unpitched_notes_only" + ("_in_non_last_part" if pi < len(case["parts"]) - 1 else ""))
            if {st_(e) for e in unp} - {st_(e) for e in p["elems"] if "staff" in e and e not in unp}:
                f.add("staff_of_unpitched_notes_only")
        if any(e["staff"] is None for e in gn) and any(e["staff"] is not None for e in gn):
            f.add("staff_mixed")
        elif gn and all(e["staff"] is None for e in gn):
            f.add("staff_missing")
        elif gn:
            f.add("staff_present")
        nv = {e["voice"] for e in notes}
        if {e["voice"] for e in gn} - nv:
            f.add("voice_without_sounding_note")
        st = lambda e: e["staff"] if e["staff"] is not None else 1
        if {st(e) for e in p["elems"] if "staff" in e} - {st(e) for e in notes}:
            f.add("staff_without_sounding_note")
        if len(nv) > 1:
            f.add("several_voices")
        if any(e.get("tie_next") is not None for e in p["elems"]):
            f.add("tied_notes")
        if any(e["cls"] == "GraceNote" for e in p["elems"]):
            f.add("grace")
        if any(e["cls"] == "Rest" for e in p["elems"]):
            f.add("rests")
        if any(e["cls"] in ("Slur", "Tuplet", "Words") or e["cls"] in DIRECTIONS or e["cls"] in OTHERS for e in p["elems"]):
            f.add("non_structural")
        if pi > 0 and any(e["cls"] in ("Measure", "TimeSignature", "KeySignature", "Barline", "Page", "System", "Clef") for e in p["elems"]):
            f.add("structural_in_later_part")
        if pi > 0 and any(e["cls"] in ("DaCapo", "Fine", "Fermata", "Ending", "Tempo") for e in p["elems"]):
            f.add("undocumented_drop_class_in_later_part")
        if not notes:
            f.add("part_without_notes")
    if case.get("pickup"):
        f.add("pickup")
    if case.get("pre"):
        f.add("history_first_input_is_a_merged_part")
        if case["pre"].get("then"):
            f.add("history_three_levels_of_merges")
    if any(p.get("np") for p in case["parts"]):
        f.add("numpy_integer_divisions_and_times")
    if case.get("hist_kind"):
        f.add("history:" + case["hist_kind"])
    for op in case.get("score_hist", []):
        f.add("history_score_op:" + op[0] + (":" + op[1] if op[0] in ("unfold", "observe") else ""))
    for ed in case.get("edits", []):
        f.add("history_edit:" + ed["op"] + (":" + ed["what"] if ed["op"] == "observe" else ""))
        if ed["op"] in ("voice", "staff") and isinstance(ed["value"], dict):
            f.add("history_edit:%s_in_place_above_everything_in_use" % ed["op"])
    for ed in case.get("arg_edits", []):
        f.add("history_arg_edit:%s_%s" % (ed[0], "list" if ed[1] == "top" else "group"))
    if voiceless(case):
        f.add("voiceless_note_or_rest(outside_quantifier)")
    ids = [p["id"] for p in case["parts"]]
    if len(set(ids)) == 1:
        f.add("part_ids_all_equal")
    elif len(set(ids)) < len(ids):
        f.add("part_ids_some_equal")
    if any(ids[k] == ids[0] and case["parts"][k]["divs"] != case["parts"][0]["divs"] for k in range(1, len(ids))):
        f.add("same_id_as_first_with_other_divisions")
    if not case["parts"][0]["elems"]:
        f.add("first_part_empty")
    elif not any(e["cls"] in SOUNDING_CLS for e in case["parts"][0]["elems"]):
        f.add("first_part_without_notes")
    if case["parts"][0]["divs"] != lcm_list(ds):
        f.add("first_part_divisions_below_lcm")
    ends = {max([e["s"] for e in p["elems"]] + [e["e"] for e in p["elems"] if e["e"] is not None]) * Fraction(1, p["divs"]) for p in case["parts"] if p["elems"]}
    if len(ends) > 1:
        f.add("parts_of_different_lengths")
    if len({p.get("note_prefix") for p in case["parts"]}) == 1:
        f.add("note_ids_collide_across_parts")
    return f


# ----------------------------------------------------------------------------
# known findings


def match_k1(r):
    """auto mode, voices of different inputs collide, and some input has more than 4 voices per staff
    (the documented numbering scheme gives every staff four voice numbers)."""
    d = r.get("detail") or {}
    return (r.get("fclass") == "voice_collision" and r.get("case", {}).get("mode") == "auto"
            and any(nv > 4 * ns for nv, ns in (d.get("voices_staves_per_part") or {}).values()))


def match_k2(r):
    """an element of class DaCapo/Fine/Fermata/Ending/Tempo of a later input is dropped."""
    d = r.get("detail") or {}
    return r.get("fclass") == "undocumented_drop" and d.get("kind") in UNDOCUMENTED_DROPS and d.get("part_pos", 0) > 0


# ----------------------------------------------------------------------------
# file round: load_score_as_part relies on merge_parts


def check_loader(case, workdir, k):
    """save the case's parts as MusicXML, load it as a score and as one part.
    Returns (verdict, coq_term): verdict None (holds), 'skip: ...' or a failure message; coq_term (or None) is the
    case for the model's loader_case_ok: the parts of load_score(file) and the note array of the loader's part."""
    import partitura
    import partitura.score as S
    for sp in case["parts"]:
        cl = {e["cls"] for e in sp["elems"]}
        if not {"Measure", "TimeSignature"} <= cl:
            return "skip: part without measures", None
    parts = [build_part(sp)[0] for sp in case["parts"]]
    # one file name for every case of the run (rewritten each time): a loader remembering files by name shows
    fn = os.path.join(workdir, "loader_case.musicxml")
    try:
        partitura.save_musicxml(S.Score(parts), fn)
        sc = partitura.load_score(fn)
        ref = sc.note_array()
    except Exception as e:
        return "skip: export/import (%s)" % type(e).__name__, None
    if any(len(p._quarter_durations) != 1 for p in sc.parts):
        return "skip: loaded part with several divisions", None
    # what load_score gives (the loader merges a second load of the same file)
    objs = [list(all_elements(p)) for p in sc.parts]
    oid_of = {id(o): 1000 * (pi + 1) + ei for pi, os_ in enumerate(objs) for ei, o in enumerate(os_)}
    before = snapshot(objs, oid_of)
    divs = [int(p._quarter_durations[0]) for p in sc.parts]
    owner = {}
    for pi, p in enumerate(sc.parts):
        for n in p.iter_all(S.GenericNote, include_subclasses=True):
            owner.setdefault(n.id, set()).add(pi)
    try:
        from partitura.io import load_score_as_part
        one = load_score_as_part(fn)
    except Exception as e:
        return "load_score_as_part raised %s: %s" % (type(e).__name__, e), None
    if not isinstance(one, S.Part):
        return "load_score_as_part did not return a Part", None
    arr = one.note_array(include_staff=True, include_divs_per_quarter=True)
    a = sorted((Fraction(int(r["onset_div"]), int(r["divs_pq"])), Fraction(int(r["duration_div"]), int(r["divs_pq"])), int(r["pitch"])) for r in arr)
    b = sorted((Fraction(int(r["onset_div"]), int(r["divs_pq"])), Fraction(int(r["duration_div"]), int(r["divs_pq"])), int(r["pitch"])) for r in ref)
    if a != b:
        return "load_score_as_part: sounding notes differ from the score-level note array of load_score (%d vs %d rows)" % (len(a), len(b)), None
    if len(sc.parts) > 1:
        L = lcm_list(divs)
        if list(one._quarter_durations) != [L]:
            return "load_score_as_part: the part counts in %r, expected the lcm %d of %r" % (list(one._quarter_durations), L, divs), None
        # notes of different parts of the file never share a (voice, staff) pair (holds in every reassign mode)
        if all(len(v) == 1 for v in owner.values()) and None not in owner:
            pairs = {}
            for n in one.iter_all(S.GenericNote, include_subclasses=True):
                if n.id in owner:
                    pairs.setdefault((n.voice, n.staff), set()).update(owner[n.id])
            bad = sorted((k_ for k_, v in pairs.items() if len(v) > 1), key=str)
            if bad:
                return "load_score_as_part: notes of parts %s of the file share voice %s on staff %s" % (sorted(pairs[bad[0]]), bad[0][0], bad[0][1]), None
    term = "(%s, %s, (%s : list nrow))" % (
        clist(["((%s : list elem), %s)" % (clist([c_elem(x) for x in before if x["part"] == pi]), cz(divs[pi])) for pi in range(len(divs))]),
        "true" if len(sc.parts) == 1 else "false",
        clist(["(%s, %s, %s, %s, %s)" % (cz(r["onset_div"]), cz(r["duration_div"]), cz(r["pitch"]), cz(r["voice"]), cz(r["staff"])) for r in arr]))
    return None, term


LOADER_CHECKER = "fun c => match c with (ps, single, impl) => loader_case_ok ps single impl end"


# ----------------------------------------------------------------------------



# ----------------------------------------------------------------------------
# round j extension: the tables and dicts merge_parts builds (Model/C15_Code.v)

MAP_VOICES = [[5, 2, 5, 1], [3, 1], [2, 7, 4], [1, 1, 2], [6], [2, 1], [4, 4, 9, 2, 9], [1, 2, 3], [8, 3]]
MAP_STAVES = [[None, 3, 1], [2, 2], [None, None], [1, None], [4, 2, 3], [3], [2, None, 2], [1, 2], [5, 1]]


def mapping_cases(rng, n_per_mode):
    """Small cases aimed at the arrays np.unique returns and the dicts built from them: numbers in use that are
    first seen unsorted, with gaps and repetitions, a missing staff next to an explicit staff 1, a staff / voice
    used by a rest, words or a clef only, in 2-3 parts of different divisions (three time points per part)."""
    out = []
    for mode in MODES:
        for k in range(n_per_mode):
            n = rng.choice([2, 2, 3])
            divs = list(rng.choice([(2, 3), (3, 2), (4, 6), (1, 1), (2, 3, 4), (6, 4, 3), (2, 2, 5), (1, 2)]))
            while len(divs) < n:
                divs.append(rng.choice([1, 2, 3]))
            parts = []
            for pi in range(n):
                d = divs[pi]
                vs = list(rng.choice(MAP_VOICES))
                ss = list(rng.choice(MAP_STAVES))
                if rng.random() < 0.3:
                    rng.shuffle(vs)
                els = []
                for j, v in enumerate(vs):
                    t = (j % 3) * d
                    els.append({"cls": "Note", "s": t, "e": t + d, "voice": v, "staff": ss[j % len(ss)], "pitch": 55 + 3 * pi + j})
                r = rng.random()
                extra_staff = rng.choice([None, 1, max(x or 1 for x in ss) + rng.choice([1, 2]), 1 + rng.randrange(3)])
                if r < 0.3:
                    els.append({"cls": "Rest", "s": 0, "e": d, "voice": max(vs) + rng.choice([1, 3]), "staff": extra_staff})
                elif r < 0.5:
                    els.append({"cls": "Words", "s": 0, "e": None, "staff": extra_staff})
                elif r < 0.7 and extra_staff is not None:
                    els.append({"cls": "Clef", "s": 0, "e": None, "staff": extra_staff})
                parts.append({"id": "P%d" % pi, "divs": d, "elems": els, "note_prefix": "q%d" % pi})
            out.append({"mode": mode, "container": {"type": rng.choice(["list", "list", "tuple", "score"]), "tree": list(range(n))},
                        "parts": parts, "pickup": False, "mapping_stream": True})
    return out


def code_pairs(case, obs):
    """Per input (in the order of the call): the (voice before, voice after) pairs of its GenericNote elements and the
    (staff-or-1 before, staff after) pairs of its staff-bearing elements, read off the merged part."""
    by_oid = {b["oid"]: b for b in obs["before"]}
    vps, sps = [], []
    for pi in obs["flat"]:
        vp, sp = set(), set()
        for m in obs["merged"]:
            if m["part"] != pi or m["oid"] not in by_oid:
                continue
            b = by_oid[m["oid"]]
            if b["kind"] in GENERIC_KINDS and b["voice"] is not None and m["voice"] is not None:
                vp.add((int(b["voice"]), int(m["voice"])))
            if b["kind"] in STAFFED_KINDS and m["staff"] is not None:
                sp.add((int(b["staff"]) if b["staff"] is not None else 1, int(m["staff"])))
        vps.append(sorted(vp))
        sps.append(sorted(sp))
    return vps, sps


def c_code(case, obs, term):
    """(the plain term, vpairs, spairs) for Model.C15_Code.code_case_ok."""
    if "merged" in obs and len(obs["flat"]) > 1 and case["mode"] == "auto" and "exc" not in obs:
        vps, sps = code_pairs(case, obs)
    else:
        vps, sps = [], []
    pr = lambda l: "(%s : list (list (Z * Z)))" % clist(["(%s : list (Z * Z))" % clist(["(%s, %s)" % (cz(a), cz(b)) for a, b in x]) for x in l])
    return "(%s, %s, %s)" % (term, pr(vps), pr(sps))


def code_stats(obs):
    """Input distribution of the code-level stream, from the inputs as they are at the call."""
    tags = set()
    flat = obs.get("flat") or []
    if len(flat) < 2 or "before" not in obs:
        return []
    for k, pi in enumerate(flat):
        els = [b for b in obs["before"] if b["part"] == pi]
        vs = [int(b["voice"]) for b in els if b["kind"] in GENERIC_KINDS and b["voice"] is not None]
        ss = [(int(b["staff"]) if b["staff"] is not None else 1) for b in els if b["kind"] in STAFFED_KINDS]
        where = "first_input" if k == 0 else ("last_input" if k == len(flat) - 1 else "middle_input")
        for nm, l in (("voices", vs), ("staves", ss)):
            if not l:
                tags.add("%s:none_in_use:%s" % (nm, where))
                continue
            u = sorted(set(l))
            first = [x for i, x in enumerate(l) if x not in l[:i]]
            if first != u:
                tags.add("%s:first_seen_unsorted" % nm)
            if len(l) > len(u):
                tags.add("%s:repeated" % nm)
            if u != list(range(1, len(u) + 1)):
                tags.add("%s:not_1_to_n:%s" % (nm, where))
            if len(u) >= 3:
                tags.add("%s:three_or_more" % nm)
        if any(b["staff"] is None for b in els if b["kind"] in STAFFED_KINDS) and any(b["staff"] == 1 for b in els if b["kind"] in STAFFED_KINDS):
            tags.add("staves:missing_and_explicit_1")
        if {(int(b["staff"]) if b["staff"] is not None else 1) for b in els if b["kind"] in STAFFED_KINDS and b["kind"] not in GENERIC_KINDS} - \
           {(int(b["staff"]) if b["staff"] is not None else 1) for b in els if b["kind"] in GENERIC_KINDS}:
            tags.add("staves:one_used_by_words_or_clef_only")
    return sorted(tags)


CODE_CHECKER = "fun c => match c with ((m, a, o, _, _, _), vp, sp) => code_case_ok m a o vp sp end"
CODE_IMPORTS = "From PV Require Import Lib.Base Model.C05 Model.C15 Model.C15_Code."



# ----------------------------------------------------------------------------
# round j extension: the head of merge_parts (Model/C15_Entry.v): the reassign string, one part, changing divisions

ENTRY_BAD = ["both", "Voice", "", "voices", "staff ", "AUTO", "all", "auto_", "v"]


def entry_cases(rng, n):
    """Calls of merge_parts with the mode as a string (the three accepted ones and others), 0-3 small parts of which some
    change their divisions once (set_quarter_duration at a later time), in a list / tuple / group / nested group / Score."""
    out = []
    for k in range(n):
        reassign = rng.choice(MODES) if rng.random() < 0.55 else rng.choice(ENTRY_BAD)
        nparts = rng.choice([0, 1, 1, 1, 2, 2, 2, 3])
        shape = rng.choice(["list", "tuple", "group", "nested", "score"]) if nparts else rng.choice(["list", "tuple", "group"])
        parts = []
        for pi in range(nparts):
            d = rng.choice([1, 2, 3, 4, 6])
            qd = [[0, d]]
            r = rng.random()
            if r < 0.35:
                qd.append([rng.choice([1, 2, 4]) * d, rng.choice([x for x in (1, 2, 3, 4, 5, 8) if x != d])])
            elif r < 0.45:
                qd.append([2 * d, d])                 # redundant: the array keeps one entry
            notes = []
            for j in range(rng.choice([1, 2, 3])):
                notes.append([j * d, (j + 1) * d, rng.choice([1, 1, 2, 3]), rng.choice([None, 1, 2]), 60 + 2 * pi + j])
            parts.append({"qd": qd, "notes": notes})
        out.append({"reassign": reassign, "shape": shape, "parts": parts})
    return out


def run_entry_case(ec):
    """Build the parts, call merge_parts(argument, reassign) of the tree under test, report what happened."""
    import partitura.score as S
    parts, objs, before = [], [], []
    oid = 0
    for pi, sp in enumerate(ec["parts"]):
        p = S.Part("P%d" % pi, quarter_duration=sp["qd"][0][1])
        os_ = []
        for (s_, e_, v, st, pitch) in sp["notes"]:
            step, alter = PC[pitch % 12]
            n = S.Note(step=step, octave=pitch // 12 - 1, alter=alter or None, id="e%d_%d" % (pi, len(os_)), voice=v, staff=st)
            p.add(n, s_, e_)
            os_.append(n)
        for t, d in sp["qd"][1:]:
            p.set_quarter_duration(t, d)
        parts.append(p)
        objs.append(os_)
    qds = [[int(x) for x in p._quarter_durations] for p in parts]
    oid_of = {}
    for pi, os_ in enumerate(objs):
        for o in os_:
            oid += 1
            oid_of[id(o)] = oid
            before.append({"part": pi, "oid": oid, "kind": "KNote", "s": int(o.start.t), "e": int(o.end.t), "voice": o.voice, "staff": o.staff,
                           "pitch": int(o.midi_pitch), "tie_prev": None, "tie_next": None})

    def grp(items):
        g = S.PartGroup(group_name="g")
        g.children = list(items)
        for ch in g.children:
            ch.parent = g
        return g
    sh = ec["shape"]
    if sh == "list":
        arg, tree = list(parts), list(range(len(parts)))
    elif sh == "tuple":
        arg, tree = tuple(parts), list(range(len(parts)))
    elif sh == "group":
        arg, tree = grp(parts), [list(range(len(parts)))]
    elif sh == "nested":
        arg, tree = [parts[0], grp([grp(parts[1:])])], [0, [list(range(1, len(parts)))]]
    else:
        arg, tree = S.Score(list(parts)), list(range(len(parts)))
    res = {"qds": qds, "before": before, "tree": tree}
    try:
        r = S.merge_parts(arg, ec["reassign"])
    except ValueError as e:
        res["outcome"] = "value_error"
        return res
    except Exception as e:
        res["outcome"] = "divisions_error" if ("multiple divisions" in " ".join(str(a) for a in e.args)) else "other_raise"
        res["exc"] = type(e).__name__
        return res
    for pi, p in enumerate(parts):
        if r is p:
            res["outcome"] = "single"
            res["idx"] = pi
            res["unchanged"] = [int(x) for x in p._quarter_durations] == qds[pi] and all(
                (int(o.start.t), int(o.end.t), o.voice, o.staff) == (b["s"], b["e"], b["voice"], b["staff"])
                for o, b in zip(objs[pi], [b for b in before if b["part"] == pi]))
            return res
    res["outcome"] = "merged"
    res["L"] = [int(x) for x in r._quarter_durations]
    merged = []
    for o in r.iter_all():
        if id(o) in oid_of:
            b = [b for b in before if b["oid"] == oid_of[id(o)]][0]
            merged.append(dict(b, s=int(o.start.t), e=int(o.end.t), voice=(int(o.voice) if o.voice is not None else None),
                               staff=(int(o.staff) if o.staff is not None else None)))
        else:
            res["foreign"] = type(o).__name__
    res["merged"] = sorted(merged, key=lambda m: m["oid"])
    return res


def entry_oracle(ec, res):
    """The statement on the call itself (independent of the Coq model): what must come out for this input."""
    n = len(ec["parts"])
    if ec["reassign"] not in MODES:
        return None if res["outcome"] == "value_error" else "reassign=%r is not one of the three modes but merge_parts did not raise ValueError (%s)" % (ec["reassign"], res["outcome"])
    if n == 1:
        if res["outcome"] != "single" or res.get("idx") != 0 or not res.get("unchanged"):
            return "a single part (in a %s) is not returned as it is: %s" % (ec["shape"], res["outcome"])
        return None
    if n >= 2 and any(len(q) != 1 for q in res["qds"]):
        return None if res["outcome"] == "divisions_error" else "a part with several divisions values was not rejected by the documented exception (%s)" % res["outcome"]
    if n >= 2:
        if res["outcome"] != "merged":
            return "merge of %d parts with one divisions value each: %s %s" % (n, res["outcome"], res.get("exc", ""))
        L = lcm_list([q[0] for q in res["qds"]])
        if res["L"] != [L] or res.get("foreign") or len(res["merged"]) != len(res["before"]):
            return "merged part counts in %r (lcm %d), elements %d of %d" % (res["L"], L, len(res["merged"]), len(res["before"]))
        for m, b in zip(res["merged"], res["before"]):
            d = res["qds"][b["part"]][0]
            if m["s"] * d != b["s"] * L or m["e"] * d != b["e"] * L:
                return "note %d of input %d moved in musical time" % (b["oid"], b["part"])
    return None


def c_entry(ec, res):
    def xp(pi):
        els = [b for b in res["before"] if b["part"] == pi]
        return "(XPart ((%s : list elem), (%s : list Z)))" % (clist([c_elem(b) for b in els]), clist([cz(x) for x in res["qds"][pi]]))

    def tr(t):
        return xp(t) if isinstance(t, int) else "(XGroup (%s : list xtree))" % clist([tr(x) for x in t])
    o = {"value_error": "EValueError", "divisions_error": "EDivisionsError", "other_raise": "EOtherRaise"}.get(res["outcome"])
    if res["outcome"] == "single":
        o = "(ESingle %s)" % cnat(res["idx"])
    elif res["outcome"] == "merged":
        o = "(EMerged %s (%s : list (nat * elem)))" % (cz(res["L"][0]), clist(["(%s, %s)" % (cnat(m["part"]), c_elem(m)) for m in res["merged"]]))
    return "(%s, (%s : list xtree), %s)" % (core.cstr(ec["reassign"]), clist([tr(t) for t in res["tree"]]), o)


ENTRY_CHECKER = "fun c => match c with (s, ts, o) => entry_case_ok s ts o end"
ENTRY_IMPORTS = "From PV Require Import Lib.Base Model.C05 Model.C15 Model.C15_Entry.\nFrom Coq Require Import String."


def entry_inside(ec, res):
    """Inside the property: one of the three modes and either one part (returned as it is) or two or more parts with
    one divisions value each.  Everything else (another string, no part, a part whose divisions change among several) is
    what the code rejects: compared and recorded, never a violation."""
    n = len(ec["parts"])
    return ec["reassign"] in MODES and (n == 1 or (n >= 2 and all(len(q) == 1 for q in res["qds"])))


def entry_stream(ctx, quick):
    """Run the entry cases in-process (small parts), oracle at once; returns (terms inside the property, their cases,
    terms outside, oracle failures outside)."""
    terms, ecs, oterms, ofail = [], [], [], []
    for ec in entry_cases(ctx.rng, 60 if quick else 600):
        try:
            res = run_entry_case(ec)
        except Exception as e:      # building the argument failed (not the call under test)
            ctx.count("entry:skipped:" + type(e).__name__)
            continue
        ctx.evaluations += 1
        n = len(ec["parts"])
        inside = entry_inside(ec, res)
        ctx.count("entry:" + ("inside_the_property" if inside else "rejected_input(outside_quantifier)"))
        ctx.count("entry:outcome:" + res["outcome"])
        ctx.count("entry:reassign:" + (ec["reassign"] if ec["reassign"] in MODES else "not_a_mode"))
        ctx.count("entry:parts=%d" % n)
        ctx.count("entry:shape:" + ec["shape"])
        chg = sum(1 for q in res["qds"] if len(q) != 1)
        if chg:
            ctx.count("entry:changing_divisions:" + ("single_part" if n == 1 else "among_%d_parts" % n))
        if ec["reassign"] not in MODES and n == 1:
            ctx.count("entry:bad_string_with_single_part")
        if ec["reassign"] not in MODES and chg and n >= 2:
            ctx.count("entry:bad_string_and_changing_divisions")
        if any(len(sp["qd"]) == 2 and len(q) == 1 for sp, q in zip(ec["parts"], res["qds"])):
            ctx.count("entry:redundant_divisions_entry_dropped")
        bad = entry_oracle(ec, res)
        if bad and inside:
            ctx.count("entry:oracle_FAIL")
            ctx.violation("merge_parts(%s of %d parts, reassign=%r): %s" % (ec["shape"], n, ec["reassign"], bad),
                          {"kind": "entry", "case": ec, "fclass": "entry", "message": bad})
            continue
        if bad:
            ctx.count("entry:rejected_input_handled_differently(recorded)")
            ofail.append("merge_parts(%s of %d parts, reassign=%r): %s" % (ec["shape"], n, ec["reassign"], bad))
            continue
        ctx.nontrivial({"entry": ec})
        if inside:
            terms.append(c_entry(ec, res))
            ecs.append(ec)
        else:
            oterms.append(c_entry(ec, res))
    return terms, ecs, oterms, ofail


class CpuTimeout(BaseException):
    """CPU-time guard (ITIMER_VIRTUAL): a case that does not terminate."""


def _on_vtalrm(signum, frame):
    raise CpuTimeout()


def edit_stats(obs):
    """What the history of reads and edits really did (for the measured distribution): attribute edits in place on an
    input that is not the last, after a view of that input, with nothing in between that tells the part it changed."""
    tags = []
    flat = obs.get("flat") or []
    kind_by_oid = {b["oid"]: b["kind"] for b in obs.get("ps0") or []}
    top = {}
    for b in obs.get("ps0") or []:
        if b["kind"] in STAFFED_KINDS:
            top[(b["part"], "staff")] = max(top.get((b["part"], "staff"), 1), b["staff"] or 1)
        if b["kind"] in GENERIC_KINDS and b["voice"] is not None:
            top[(b["part"], "voice")] = max(top.get((b["part"], "voice"), 0), b["voice"])
    seen = {}
    for ed in obs["edit_log"]:
        pi = ed[0]
        if ed[1] == "view":
            seen.setdefault(pi, set()).add(ed[2])
            tags.append("view:%s%s" % (ed[2], "" if ed[3] else "(raised)"))
        elif ed[1] in ("add", "remove"):
            seen[pi] = set()
        elif ed[1] in ("voice", "staff"):
            t = "in_place:%s:%s" % (ed[1], kind_by_oid.get(ed[2], "?"))
            tags.append(t)
            if ed[3] is not None and ed[3] > top.get((pi, ed[1]), 1) and seen.get(pi):
                where = "non_last_input" if (pi in flat and flat.index(pi) < len(flat) - 1) else "last_input"
                tags.append("in_place_%s_above_max_after_view:%s" % (ed[1], where))
                if ed[1] == "staff" and seen[pi] & set(STAFF_VIEWS):
                    tags.append("in_place_staff_above_max_after_staff_view:%s" % where)
    return tags


def work_case(item):
    """One case in a worker process: oracle, Coq term, what the parent needs (plain data only)."""
    import signal
    import traceback
    ci, origin, case = item
    obs = None
    signal.signal(signal.SIGVTALRM, _on_vtalrm)
    signal.setitimer(signal.ITIMER_VIRTUAL, 120.0)
    try:
        try:
            fclass, msg, obs = check_case(case)
        except CpuTimeout:
            fclass, msg, obs = "timeout", "merge_parts (or a call of the history before it) used more than 120 s of CPU time", None
        except Exception:   # the oracle itself must not die on a case
            fclass, msg, obs = "oracle_exception", "oracle raised: " + traceback.format_exc()[-600:], None
        term = perr = view = None
        slim = {}
        if obs:
            slim = {k: obs[k] for k in ("detail", "soft", "expected_raise", "outside_quantifier", "quarters_compared", "skip", "exc") if k in obs}
            if obs.get("edit_log") is not None:
                slim["hist_stats"] = edit_stats(obs)
            view = json.dumps({"exc": obs.get("exc"), "merged": sorted(obs.get("merged", []), key=lambda m: m["oid"]),
                               "idx": obs.get("returned_idx")}, sort_keys=True, default=str)
            if not fclass and "skip" not in obs and not obs.get("outside_quantifier") and not (obs.get("expected_raise") and has_history(case)):
                try:
                    term = c_case(case, obs)
                    slim["term_kind"] = "hist" if "sops" in obs else ("edit" if "ps0" in obs else "plain")
                    if slim["term_kind"] == "plain" and not obs.get("expected_raise"):
                        slim["code_term"] = c_code(case, obs, term)
                        slim["code_stats"] = code_stats(obs)
                    if case.get("pre") and not case.get("edits") and "merged" in obs and 0 in obs["flat"] and len(obs["flat"]) > 1:
                        slim["nested_term"] = c_nested(case, obs)
                except CpuTimeout:
                    perr = "timeout"
                except Exception as e:
                    perr = repr(e)
    finally:
        signal.setitimer(signal.ITIMER_VIRTUAL, 0)
    return fclass, msg, slim if obs else None, term, perr, view


def report(ctx, case, fclass, msg, obs, soft_detail=None):
    raw = {"kind": "merge", "case": case, "fclass": fclass, "message": msg}
    d0 = soft_detail or (obs or {}).get("detail")
    if d0:
        raw["detail"] = d0
    if any(pred(raw) for kid, pred in ctx.matchers.items() if any(k["id"] == kid for k in ctx.known)):
        # a known finding: recorded with the input as generated (shrinking costs many merges)
        ctx.violation("merge_parts(reassign=%r) on %d parts (divisions %r): %s" % (
            case["mode"], len(case["parts"]), [p["divs"] for p in case["parts"]], msg), raw)
        return
    if fclass in ("timeout", "order_dependent"):
        ctx.violation("merge_parts(reassign=%r) on %d parts (divisions %r): %s" % (
            case["mode"], len(case["parts"]), [p["divs"] for p in case["parts"]], msg), raw)
        return
    small = shrink_case(case, fclass, budget=80)
    f2, m2, o2 = check_case(small)
    detail = (o2 or {}).get("detail")
    if f2 != fclass:
        hit = [x for x in (o2 or {}).get("soft", []) if x[0] == fclass]
        if hit:
            m2, detail = hit[0][1], hit[0][2]
        else:
            small, m2 = case, msg
            detail = (obs or {}).get("detail") if not soft_detail else soft_detail
    replay_obj = {"kind": "merge", "case": small, "fclass": fclass, "message": m2 or msg}
    if detail:
        replay_obj["detail"] = detail
    ctx.violation("merge_parts(reassign=%r) on %d parts (divisions %r, %s %s%s): %s" % (
        small["mode"], len(small["parts"]), [p["divs"] for p in small["parts"]], small["container"]["type"],
        json.dumps(small["container"]["tree"]).replace(" ", ""),
        ((", first %d merged before in %r mode%s" % (small["pre"]["k"], small["pre"]["mode"], (
            ", the result merged with the next %d in %r mode" % (small["pre"]["then"]["k"], small["pre"]["then"]["mode"])) if small["pre"].get("then") else ""))
         if small.get("pre") else "") +
        ((", score history %s" % json.dumps(small["score_hist"]).replace(" ", "")) if small.get("score_hist") else "") +
        ((", inputs read and edited before the call: %s" % json.dumps([e_ for e_ in small["edits"] if e_["op"] != "observe" or e_["what"] in VIEW_KINDS]).replace(" ", "")) if small.get("edits") else "") +
        ((", argument edited after a first look: %s" % json.dumps(small["arg_edits"]).replace(" ", "")) if small.get("arg_edits") else ""),
        m2 or msg), replay_obj)


def run(ctx):
    ctx.rule = ("A case is (reassign mode, argument shape = forest of parts and groups in a list / tuple / Score / PartGroup, 1-4 part "
                "specifications, optionally a history: the first k parts merged before); parts are built through the public API and "
                "rebuilt for every call.  Every call of merge_parts is one evaluation (plus one for the score-level note array of "
                "fresh copies).  Distinct non-trivial = distinct case specifications with at least two parts (different or equal "
                "divisions, voices/staves to renumber), or single-part containers (identity).  The class sweep contributes one case per "
                "(TimedObject class of the live partitura.score, mode) -- complete in the thorough tier.")
    ctx.trusted = ["Coq 8.16.1 kernel incl. vm_compute",
                   "harness/props/c15.py: generators, object snapshots (identity of the Python objects), Coq printers, Python oracle",
                   "Part.add / iter_all place and enumerate objects as specified (C01); Part.note_array and Score.note_array (C05) as readers of the sounding notes",
                   "Model.C05 (note_array, score_array) as the model of the two note arrays"]
    ctx.assumptions = ["every part has one divisions value (merge_parts rejects the others by a documented exception)",
                       "GenericNote elements carry a voice (quantifier); voices and staves are positive integers",
                       "the parts of one case share the metrical layout (documented precondition of merge_parts); onset_quarter is compared only then",
                       "int(lcm / d) is exact (values far below 2^53)",
                       "object ids unique; tie links stay inside a part and are acyclic"]
    ctx.matchers["C15-K1"] = match_k1
    ctx.matchers["C15-K2"] = match_k2
    quick = ctx.tier == "quick"
    nv0 = len(ctx.violations)
    rng = ctx.rng
    cases = [("corpus", c) for c in corpus_cases()]
    for k in range(85 if quick else 1400):
        cases.append(("random", gen_case(rng)))
    for mode in MODES:          # weight on the corner the property singles out, in every mode
        for k in range(8 if quick else 50):
            cases.append(("random", gen_case(rng, mode=mode)))
        for k in range(4 if quick else 25):     # histories: a merged part merged again (first merge in any mode)
            cases.append(("random", gen_case(rng, mode=mode, force_history=True)))
    # state carried between calls: Scores after item assignment / list operations / unfolding, inputs read and
    # edited before the call, a merged part edited and merged again, arguments edited after a first look
    for mode in MODES:
        for kind in sorted(set(HIST_KINDS)):
            for k in range((3 if kind.startswith("score") else 12 if kind == "view_edits" else 2) if quick else (60 if kind == "view_edits" else 24)):
                cases.append(("history", gen_hist_case(rng, mode=mode, kind=kind)))
    ss = small_scope_cases()
    if quick:
        ss = [ss[i] for i in sorted(rng.sample(range(len(ss)), 40))]
    cases += [("small_scope", c) for c in ss]
    cases.append(("random", gen_case(rng, mode="auto", force_many_voices=True)))
    # round j: the arrays and dicts merge_parts builds (numbers in use unsorted, with gaps, repeated; None next to 1)
    cases += [("mapping", c) for c in mapping_cases(rng, 12 if quick else 120)]
    # every TimedObject class of the live hierarchy, in every mode (complete finite domain)
    sweep, skipped = class_sweep_cases(complete=not quick, rot=ctx.seed)
    cases += [("class_sweep", c) for c in sweep]
    ctx.extra["class_sweep"] = {"classes": live_classes(), "not_instantiated": skipped, "cases": len(sweep),
                                "complete_domain": not quick}
    ctx.obligation("class sweep: every TimedObject class of partitura.score is instantiated (%d classes, %d cases)" % (len(live_classes()), len(sweep)),
                   not skipped, skipped[:5])
    terms, tcases = [], []
    hterms, hcases, eterms, ecases, nterms, ncases = [], [], [], [], [], []
    cterms, ccases = [], []     # round j: the code-level model (tables, dicts) against the same observations
    first_obs = {}
    rterms = []                 # cases outside the quantifier (a note or rest without voice): recorded, never a violation
    seen_fail = {}
    ctx.log("cases generated: %d" % len(cases))
    # same process, the same inputs again after everything else ran (module-level state): the first corpus cases
    # are run a second time at the end and must be observed exactly as the first time
    again = [("again", c) for o_, c in cases[:12] if o_ == "corpus"]
    # the cases are evaluated by forked workers (each worker merges many different inputs one after the other in
    # one process) while the proofs are re-checked; results come back in the order of the cases
    import multiprocessing
    items = [(ci, origin, case) for ci, (origin, case) in enumerate(cases + again)]
    pool = multiprocessing.get_context("fork").Pool(max(1, min(core.NJOBS if hasattr(core, "NJOBS") else int(os.environ.get("VERIF_JOBS", "8")), 8)))
    results = pool.imap(work_case, items, chunksize=2)
    ok, why = ctx.coq_props(expect_min=65)
    if not ok:
        ctx.log("coq_props failed: " + why[:2000])
    for (ci, origin, case), (fclass, msg, obs, term, perr, view) in zip(items, results):
        ctx.evaluations += 2 if len(case["parts"]) > 1 else 1
        ctx.count("origin:" + origin)
        ctx.count("mode:" + case["mode"])
        tree = case["container"]["tree"]
        ctx.count("container:" + case["container"]["type"] + (
            "(group before a part)" if any(not isinstance(tree[i], int) and any(isinstance(y, int) for y in tree[i + 1:]) for i in range(len(tree)))
            else "(nested)" if any(not isinstance(t, int) for t in tree) else ""))
        ctx.count("parts=%d" % len(case["parts"]))
        if obs and "skip" in obs:
            ctx.count("skipped:" + obs["skip"])
            continue
        if origin == "again" or (origin == "corpus" and ci < 12):
            if origin == "corpus":
                first_obs[json.dumps(case, sort_keys=True)] = view
            elif not fclass and first_obs.get(json.dumps(case, sort_keys=True)) != view:
                fclass, msg = "order_dependent", "the same inputs merged again later in the same process are observed differently (state kept between calls)"
        for f in sorted(features(case)):
            ctx.count("feature:" + f)
        for t in (obs or {}).get("hist_stats", []):
            ctx.count("history_done:" + t + ":" + (case["mode"] if "after" in t else "any_mode"))
        ctx.nontrivial(case)
        for sf, sm, sd in (obs or {}).get("soft", [])[:1]:
            ctx.count("oracle:" + sf)
            key = (sf, case["mode"])
            seen_fail[key] = seen_fail.get(key, 0) + 1
            if seen_fail[key] <= 1:
                report(ctx, case, sf, sm, obs, soft_detail=sd)
        if fclass:
            ctx.count("oracle:" + fclass)
            key = (fclass, case["mode"])
            seen_fail[key] = seen_fail.get(key, 0) + 1
            if seen_fail[key] <= 2:
                report(ctx, case, fclass, msg, obs)
            continue
        if obs.get("expected_raise") or obs.get("outside_quantifier"):
            ctx.count("outside_quantifier:" + ("raises" if obs.get("expected_raise") else "merged_without_raising"))
            if obs.get("expected_raise") and not has_history(case) and term:
                rterms.append(term)
            continue
        ctx.count("oracle:ok")
        if obs.get("quarters_compared"):
            ctx.count("oracle:quarter_columns_compared")
        if len(ctx.samples) < 3 and origin == "random" and len(case["parts"]) > 1:
            ctx.sample({"case": case})
        if obs.get("nested_term"):
            nterms.append(obs["nested_term"])
            ncases.append(case)
        if obs.get("code_term"):
            cterms.append(obs["code_term"])
            ccases.append(case)
            ctx.count("code_stream:cases:" + case["mode"])
            ctx.count("code_stream:origin:" + origin)
            for t in obs.get("code_stats", []):
                ctx.count("code_stream:" + t)
        if term is None:
            ctx.violation("cannot print case for Coq: %s" % perr, {"kind": "merge", "case": case, "fclass": "printer"}, no_input=True)
        elif obs.get("term_kind") == "hist":
            hterms.append(term)
            hcases.append(case)
        elif obs.get("term_kind") == "edit":
            eterms.append(term)
            ecases.append(case)
        else:
            terms.append(term)
            tcases.append(case)
    pool.close()
    pool.join()
    ctx.log("oracle done")
    # the loader that relies on merge_parts
    nload = 8 if quick else 60
    done = 0
    lterms, lcases = [], []
    for k in range(nload * 3):
        if done >= nload:
            break
        case = gen_case(rng, mode="voice")
        case.pop("pre", None)
        if len(case["parts"]) < (1 if k % 8 == 7 else 2):
            continue
        for i, sp in enumerate(case["parts"]):         # ids as a file has them: unique over the file
            sp["note_prefix"] = "q%d" % i
        try:
            r, term = check_loader(case, ctx.work, k)
        except Exception as e:
            r, term = "skip: %s" % type(e).__name__, None
        if r is None:
            done += 1
            ctx.evaluations += 1
            ctx.count("loader:ok")
            lterms.append(term)
            lcases.append(case)
        elif r.startswith("skip"):
            ctx.count("loader:" + r)
        else:
            ctx.count("loader:FAIL")
            ctx.violation(r, {"kind": "loader", "case": case, "fclass": "loader", "message": r})
    for fn in os.listdir(ctx.work):
        if fn.startswith("loader_"):
            os.remove(os.path.join(ctx.work, fn))
    ctx.log("loader done")
    # all correspondence batches are started at once (coqc in parallel), the results are taken in order below
    from concurrent.futures import ThreadPoolExecutor
    ex = ThreadPoolExecutor(6)
    futs = {}
    for nm, tl, chk, sh in (("loader", lterms, LOADER_CHECKER, 20), ("merge", terms, CHECKER, 60), ("hist", hterms, HCHECKER, 60),
                            ("edit", eterms, ECHECKER, 60), ("nested", nterms, NCHECKER, 60), ("raise", rterms, CHECKER, 60)):
        if tl:
            futs[nm] = ex.submit(ctx.coq_failing, nm, IMPORTS, "", tl, chk, shard=sh)
    enterms, encases, enout, enofail = entry_stream(ctx, quick)
    if enterms:
        futs["entry"] = ex.submit(ctx.coq_failing, "entry", ENTRY_IMPORTS, "", enterms, ENTRY_CHECKER, shard=80)
    if enout:
        futs["entry_out"] = ex.submit(ctx.coq_failing, "entry_out", ENTRY_IMPORTS, "", enout, ENTRY_CHECKER, shard=80)
    if cterms:
        futs["code"] = ex.submit(ctx.coq_failing, "code", CODE_IMPORTS, "", cterms, CODE_CHECKER, shard=80)
    if lterms:
        try:
            failing = futs["loader"].result()
            ctx.obligation("correspondence: model load_as_part (merge_parts in 'voice' mode on the parts of load_score(file)) gives the note array "
                           "(onset, duration, pitch, voice, staff) of load_score_as_part(file) on %d exported files" % len(lterms), not failing, failing[:5])
            for i in failing[:2]:
                ctx.violation("Coq model and implementation disagree on load_score_as_part (%d parts, divisions %r)" % (
                    len(lcases[i]["parts"]), [p["divs"] for p in lcases[i]["parts"]]),
                    {"kind": "loader", "case": lcases[i], "fclass": "loader_correspondence", "message": "model/implementation disagree"})
        except RuntimeError as e:
            ctx.obligation("correspondence: loader", False, str(e)[-1500:])
            ctx.violation("correspondence machinery failed (loader): %s" % str(e)[-800:], {"stage": "loader"}, no_input=True)
    # correspondence
    what = ("model merge_parts (returned part / lcm, every element with origin, class, start, end, voice, staff) = implementation; "
            "model note array of the merged elements = merged part's note_array(include_staff); C05 score_array of the inputs = "
            "Score.note_array; both describe the same sounding notes")
    if not terms:
        ctx.obligation("correspondence: %s on 0 cases" % what, False, "no case passed the oracle")
    else:
        try:
            failing = futs["merge"].result()
            ctx.obligation("correspondence: %s on %d cases" % (what, len(terms)), not failing, failing[:5])
            for i in failing[:3]:
                c = tcases[i]
                what_bad = diagnose(ctx, terms[i])
                ctx.violation("Coq model and implementation disagree on merge_parts(reassign=%r), divisions %r, %s %s: %s" % (
                    c["mode"], [p["divs"] for p in c["parts"]], c["container"]["type"], json.dumps(c["container"]["tree"]).replace(" ", ""), what_bad),
                    {"kind": "merge", "case": c, "fclass": "correspondence", "message": "model/implementation disagree on: " + what_bad})
        except RuntimeError as e:
            ctx.obligation("correspondence: %s" % what, False, str(e)[-1500:])
            ctx.violation("correspondence machinery failed: %s" % str(e)[-800:], {"stage": "merge"}, no_input=True)
    for nm, tl, cl, chk, what2 in (
            ("hist", hterms, hcases, HCHECKER, "score histories: the state machine of the Score (score_init, item assignment, append / pop, the replacement "
             "unfold_part_* performs, reads) run in Coq arrives at the parts the score holds at the call; merge_parts(score) and the note array of the SAME score "
             "object are those of the model on that state"),
            ("edit", eterms, ecases, ECHECKER, "inputs read and edited between two calls: the edits (add / remove / voice / staff / divisions) applied in Coq to the "
             "inputs as first seen give the inputs found at the call; merge_parts = model on those"),
            ("nested", nterms, ncases, NCHECKER, "histories of merges of depth two and three run by the model (meval) from the parts as they were BUILT give the "
             "quarter duration and every element (start, end, voice, staff) of the part returned at the end")):
        if not tl:
            ctx.obligation("correspondence: %s on 0 cases" % what2, False, "no history case reached the correspondence")
            continue
        try:
            failing = futs[nm].result()
            ctx.obligation("correspondence: %s on %d cases" % (what2, len(tl)), not failing, failing[:5])
            for i in failing[:2]:
                c = cl[i]
                ctx.violation("Coq model and implementation disagree on merge_parts(reassign=%r) after a history (%s), divisions %r" % (
                    c["mode"], c.get("hist_kind"), [p_["divs"] for p_ in c["parts"]]),
                    {"kind": "merge", "case": c, "fclass": "correspondence", "message": "model/implementation disagree after a history"})
        except RuntimeError as e:
            ctx.obligation("correspondence: %s" % what2, False, str(e)[-1500:])
            ctx.violation("correspondence machinery failed (%s): %s" % (nm, str(e)[-800:]), {"stage": nm}, no_input=True)
    what3 = ("code-level model (Model/C15_Code.v: np.unique arrays, tables indexed by p_ind, sums over [:p_ind], n_previous_staves, "
             "voice_mapping / staff_mapping as dict(zip(...)) with KeyError) = implementation: quarter duration and every element with origin, "
             "start, end, voice, staff; in 'auto' mode every (old, new) voice and staff pair read off the merged part is an entry of the model's dict of that input")
    if not cterms:
        ctx.obligation("correspondence: %s on 0 cases" % what3, False, "no case reached the code-level correspondence")
    else:
        try:
            failing = futs["code"].result()
            ctx.obligation("correspondence: %s on %d cases" % (what3, len(cterms)), not failing, failing[:5])
            for i in failing[:2]:
                c = ccases[i]
                ctx.violation("Coq code-level model (tables and mappings of merge_parts) and implementation disagree on merge_parts(reassign=%r), divisions %r, %s %s" % (
                    c["mode"], [p_["divs"] for p_ in c["parts"]], c["container"]["type"], json.dumps(c["container"]["tree"]).replace(" ", "")),
                    {"kind": "merge", "case": c, "fclass": "correspondence", "message": "code-level model/implementation disagree"})
        except RuntimeError as e:
            ctx.obligation("correspondence: %s" % what3, False, str(e)[-1500:])
            ctx.violation("correspondence machinery failed (code): %s" % str(e)[-800:], {"stage": "code"}, no_input=True)
    what4 = ("head of merge_parts (Model/C15_Entry.v) = implementation inside the property: one of the three modes given as a string; one part (alone, in a "
             "list / tuple / group / nested groups / Score, also when its divisions change) is the object returned; two or more parts with one divisions value each: "
             "quarter duration and every element")
    ctx.obligation("outside the quantifier (recorded only): rejected inputs -- a reassign string that is none of the three raises ValueError (also for one part), a part "
                   "whose divisions change among two or more parts raises the documented exception -- Python oracle on %d calls" % len(enout + enofail), not enofail, enofail[:5])
    if enout:
        try:
            failing = futs["entry_out"].result()
            ctx.obligation("outside the quantifier (recorded only): rejected inputs are rejected as Model/C15_Entry.v does (string checked first, then the one-part "
                           "shortcut, then the divisions; no part: raises) on %d calls" % len(enout), not failing, failing[:5])
        except RuntimeError as e:
            ctx.obligation("outside the quantifier (recorded only): entry model on rejected inputs", False, str(e)[-800:])
    if not enterms:
        ctx.obligation("correspondence: %s on 0 cases" % what4, False, "no entry case reached the correspondence")
    else:
        try:
            failing = futs["entry"].result()
            ctx.obligation("correspondence: %s on %d cases" % (what4, len(enterms)), not failing, failing[:5])
            for i in failing[:2]:
                c = encases[i]
                ctx.violation("Coq model of the head of merge_parts and implementation disagree on merge_parts(%s of %d parts, reassign=%r)" % (
                    c["shape"], len(c["parts"]), c["reassign"]),
                    {"kind": "entry", "case": c, "fclass": "entry_correspondence", "message": "model/implementation disagree"})
        except RuntimeError as e:
            ctx.obligation("correspondence: %s" % what4, False, str(e)[-1500:])
            ctx.violation("correspondence machinery failed (entry): %s" % str(e)[-800:], {"stage": "entry"}, no_input=True)
    if rterms:
        try:
            failing = futs["raise"].result()
            ctx.obligation("outside the quantifier (recorded only): a note or rest without voice makes merge_parts raise in 'voice' / 'auto' mode exactly "
                           "when the model does (merge_raises_iff) on %d cases" % len(rterms), not failing, failing[:5])
        except RuntimeError as e:
            ctx.obligation("outside the quantifier (recorded only): raise cases", False, str(e)[-800:])
    if not ok and len(ctx.violations) == nv0:
        ctx.violation("proof obligations of Props/C15.v no longer check: " + why, {"theorem_or_build": why}, no_input=True)


def replay(obj):
    r = obj.get("replay", obj)
    print(json.dumps({k: v for k, v in obj.items() if k != "replay"}, indent=1, default=str))
    if r.get("kind") == "merge" and "case" in r:
        case = r["case"]
        print("case:", json.dumps(case))
        fclass, msg, obs = check_case(case)
        for key in ("pre", "score_hist", "edits", "arg_edits"):
            if case.get(key):
                print("history (%s):" % key, json.dumps(case[key]))
        print("parts the argument holds when merge_parts is called (indices of the inputs below):", obs.get("flat"))
        print("inputs (oid, part, class, start, end, voice, staff):")
        for b in obs["before"]:
            print("   ", (b["oid"], b["part"], b["kind"], b["s"], b["e"], b["voice"], b["staff"]))
        if "exc" in obs:
            print("implementation raised:", obs["exc"])
        elif "merged" in obs:
            print("merged part (oid, part, class, start, end, voice, staff):")
            for m in sorted(obs["merged"], key=lambda m: m["oid"]):
                print("   ", (m["oid"], m["part"], m["kind"], m["s"], m["e"], m["voice"], m["staff"]))
        print("oracle:", fclass, msg)
        for sf, sm, sd in (obs or {}).get("soft", []):
            print("oracle (reported separately):", sf, sm)
    elif r.get("kind") == "entry" and "case" in r:
        ec = r["case"]
        print("call: merge_parts(<%s of %d parts>, reassign=%r); parts (quarter durations as [time, value], notes as [start, end, voice, staff, pitch]):" % (
            ec["shape"], len(ec["parts"]), ec["reassign"]))
        for sp in ec["parts"]:
            print("   ", json.dumps(sp))
        res = run_entry_case(ec)
        print("implementation:", res["outcome"], {k: res[k] for k in ("idx", "unchanged", "L", "exc", "foreign") if k in res})
        print("quarter durations of the inputs at the call:", res["qds"])
        for m in res.get("merged", []):
            print("   ", (m["oid"], m["part"], m["s"], m["e"], m["voice"], m["staff"]))
        print("oracle:", entry_oracle(ec, res))
    elif r.get("kind") == "loader":
        os.makedirs(os.path.join(core.WORKROOT, "C15_replay"), exist_ok=True)
        print("oracle:", check_loader(r["case"], os.path.join(core.WORKROOT, "C15_replay"), 0)[0])
    else:
        print(json.dumps(r, indent=1, default=str))
    return 0
