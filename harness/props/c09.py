"""C09 -- unfolding repeats concatenates segments along a valid path and nothing else.

Tie to the source: correspondence of the hand-written Gallina model (coq/Model/C09.v:
segment construction from navigation marks, path search with jump consumption, variant
construction over abstract objects) with partitura.score on generated measure-aligned
parts built through the public API, plus a direct oracle (the property statement checked
on the implementation's output in Python, independent of the model).

A case is a JSON spec (see `build`); everything the model needs is read from the *built
Part* (marks in iter_all order, object dump in the time-point / starting_objects iteration
order), so the abstraction function is computed from the real data structure.
"""
import itertools
import json
import warnings
from collections import Counter

import core
from core import clist, ctuple, copt, cbool


def cz(n):
    """Z literal for the case files (Z_scope is open there; no scope delimiter: parses faster)."""
    n = int(n)
    return "(%d)" % n if n < 0 else "%d" % n


# class codes shared with Model/C09.v (cls_* definitions there)
CLS = {"Note": 0, "Rest": 1, "GraceNote": 2, "Measure": 3, "TimeSignature": 4, "KeySignature": 5,
       "Clef": 6, "Slur": 7, "Tuplet": 8, "Fermata": 9, "Repeat": 10, "Ending": 11, "ToCoda": 12,
       "DaCapo": 13, "DalSegno": 14, "Segment": 15, "System": 16, "Page": 17, "Fine": 18,
       "Segno": 19, "Coda": 20, "Words": 21, "Tempo": 22, "Barline": 23}
CLS_OTHER = 24
NAV_REMOVED = ("Repeat", "Ending", "ToCoda", "DaCapo", "DalSegno", "Segment")
REF_ATTRS = ["tie_prev", "tie_next", "slur_stops", "slur_starts", "tuplet_stops", "tuplet_starts",
             "grace_next", "grace_prev", "start_note", "end_note"]
SINGLE_ATTRS = (0, 1, 6, 7, 8, 9)   # indices into REF_ATTRS of single-valued references (None when the target is not copied)
STEPS = ["C", "D", "E", "F", "G", "A", "B"]
MAXPATH = 60          # paths longer than this are treated as "does not terminate" on both sides
MAXPATHS = 5000       # more complete paths than this: not compared with the model (counted)


# ----------------------------------------------------------------------------
# spec -> Part (public API only)


def build(spec):
    """Build a fresh Part from a spec.  Boundary k = start of measure k; boundary n = end."""
    import partitura.score as S

    qd = spec.get("qd", 4)
    part = S.Part("P1", "C09", quarter_duration=qd)
    t0 = spec.get("t0", 0)
    bounds = [t0]
    for ln in spec["measures"]:
        bounds.append(bounds[-1] + ln)
    oid = [0]

    def tag(o):
        o._pv = oid[0]
        oid[0] += 1
        return o

    for k, q in spec.get("qdchanges", []):
        part.set_quarter_duration(bounds[k], q)
    for k, beats, bt in spec.get("ts", []):
        part.add(tag(S.TimeSignature(beats, bt)), bounds[k])
    for k, fifths, mode in spec.get("ks", []):
        part.add(tag(S.KeySignature(fifths, mode)), bounds[k])
    for k, staff, sign, line in spec.get("clefs", []):
        part.add(tag(S.Clef(staff, sign, line, 0)), bounds[k])
    for m in range(len(spec["measures"])):
        part.add(tag(S.Measure(number=m + 1, name=str(m + 1))), bounds[m], bounds[m + 1])
    byid = {}
    written = {w[0]: w[1] for w in spec.get("written", [])}
    for nid, kind, m, on, dur, pitch, voice, staff in spec.get("notes", []):
        step, alter, octave = STEPS[pitch % 7], (pitch // 7) % 3 - 1, 2 + (pitch // 21) % 4
        # what an importer stores with a note: symbolic duration (dict), articulations / ornaments / technical (lists)
        kw = {k: (dict(v) if isinstance(v, dict) else list(v)) for k, v in written.get(nid, {}).items()}
        if kind == "rest":
            o = S.Rest(id=nid, voice=voice, staff=staff, **kw)
        elif kind == "grace":
            o = S.GraceNote("acciaccatura", step, octave, alter or None, id=nid, voice=voice, staff=staff)
        else:
            o = S.Note(step, octave, alter or None, id=nid, voice=voice, staff=staff, **kw)
        part.add(tag(o), bounds[m] + on, bounds[m] + on + dur)
        byid[nid] = o
    for a, b in spec.get("ties", []):
        byid[a].tie_next = byid[b]
        byid[b].tie_prev = byid[a]
    for a, b in spec.get("graces", []):  # grace note a precedes b (grace or main)
        byid[a].grace_next = byid[b]
        if isinstance(byid[b], S.GraceNote):
            byid[b].grace_prev = byid[a]
    for a, b in spec.get("slurs", []):
        sl = tag(S.Slur(start_note=byid[a], end_note=byid[b]))
        part.add(sl, byid[a].start.t, byid[b].end.t)
    for a, b in spec.get("tuplets", []):
        tu = tag(S.Tuplet(start_note=byid[a], end_note=byid[b], actual_notes=3, normal_notes=2))
        part.add(tu, byid[a].start.t, byid[b].end.t)
    for a, b in spec.get("repeats", []):
        part.add(tag(S.Repeat()), bounds[a], bounds[b])
    for a, b, num in spec.get("endings", []):
        part.add(tag(S.Ending(num)), bounds[a], bounds[b])
    for key, cls in (("coda", S.Coda), ("tocoda", S.ToCoda), ("dacapo", S.DaCapo), ("fine", S.Fine),
                     ("segno", S.Segno), ("dalsegno", S.DalSegno)):
        for k in spec.get(key, []):
            part.add(tag(cls()), bounds[k])
    for k, ref in spec.get("fermatas", []):
        part.add(tag(S.Fermata(ref=ref)), bounds[k])
    for k, txt in spec.get("words", []):
        part.add(tag(S.Words(txt)), bounds[k])
    for k in spec.get("pages", []):
        part.add(tag(S.Page(k + 1)), bounds[k])
        part.add(tag(S.System(k + 1)), bounds[k])
    for k in spec.get("barlines", []):
        part.add(tag(S.Barline("light-heavy")), bounds[k])
    part._pv_next = oid[0]
    if spec.get("add_segments"):
        # history: the caller registered the segments on the part beforehand (public add_segments)
        S.add_segments(part)
    return part


NAV_KEYS = ("coda", "tocoda", "dacapo", "fine", "segno", "dalsegno")
MARK_OPS = ("add_repeat", "remove_repeat", "renumber", "set_nav", "drop_endings", "add_endings")


def bounds_of(spec):
    t0 = spec.get("t0", 0)
    bounds = [t0]
    for ln in spec["measures"]:
        bounds.append(bounds[-1] + ln)
    return bounds


def history_of(spec):
    """The operations applied to the SAME Part object after it has been built and unfolded once; after each
    of them every entry point is run again.  (`edit` is the one-step form of earlier rounds.)"""
    if spec.get("history"):
        return spec["history"]
    ed = spec.get("edit")
    if not ed:
        return []
    out = []
    if "add_repeat" in ed:
        out.append({"op": "add_repeat", "span": ed["add_repeat"], "via": "part"})
    if "remove_repeat" in ed:
        out.append({"op": "remove_repeat", "index": ed["remove_repeat"], "via": "part"})
    if ed.get("add_notes"):
        out.append({"op": "add_notes", "notes": ed["add_notes"]})
    return out


def group_endings(spec, gi):
    """Indices into spec['endings'] of the brackets of volta group gi, in order."""
    g = spec["volta_groups"][gi]
    out = []
    for es, ee, _ in g[1]:
        out.append([i for i, e in enumerate(spec["endings"]) if (e[0], e[1]) == (es, ee)][0])
    return out


def number_text(op, j):
    """The value assigned to Ending.number by a renumber operation: a string ("1", "1,2", "1, 2") or, for a single
    number with sep "int", an int (the documented type)."""
    nums = op["numbers"][j]
    if op.get("sep") == "int":
        return nums[0] if len(nums) == 1 else ", ".join(str(x) for x in nums)
    return op.get("sep", ",").join(str(x) for x in nums)


def spec_after(spec, op):
    """The spec describing the part as it is after `op` (pure; the part itself is changed by apply_op)."""
    s = json.loads(json.dumps(spec))
    for k in ("history", "edit", "score_with"):
        s.pop(k, None)
    what = op["op"]
    if what == "add_segments":
        s["add_segments"] = True
    elif what == "drop_segments":
        s.pop("add_segments", None)
    elif what == "add_repeat":
        s.setdefault("repeats", []).append(list(op["span"]))
    elif what == "remove_repeat":
        s["repeats"].pop(op["index"])
    elif what == "renumber":
        g = s["volta_groups"][op["group"]]
        for j, i in enumerate(group_endings(s, op["group"])):
            s["endings"][i][2] = number_text(op, j)
            g[1][j][2] = list(op["numbers"][j])
    elif what == "set_nav":
        for k in NAV_KEYS:
            s.pop(k, None)
        for k, v in op["nav"].items():
            if v:
                s[k] = list(v)
    elif what == "add_notes":
        s["notes"] = s.get("notes", []) + [list(n) for n in op["notes"]]
    elif what == "remove_note":
        s["notes"] = [n for n in s["notes"] if n[0] != op["id"]]
    elif what == "drop_endings":
        idx = set(group_endings(s, op["group"]))
        s["endings"] = [e for i, e in enumerate(s["endings"]) if i not in idx]
        s["volta_groups"].pop(op["group"])
    elif what == "add_endings":
        a, b = op["at"]
        s.setdefault("endings", []).extend([[b - 1, b, "1"], [b, b + 1, "2"]])
        s.setdefault("volta_groups", []).append([a, [[b - 1, b, [1]], [b, b + 1, [2]]]])
    elif what != "call":
        raise ValueError("unknown history operation %r" % (op,))
    return s


def apply_op(part, spec, op):
    """One operation of a history on the Part object built from `spec` (public API: Part.add / Part.remove,
    the TimePoint methods add_starting_object / ..., assignment to Ending.number, add_segments); returns the
    spec describing the part as it is now.  A part whose Segment objects are registered (add_segments) is
    refreshed the documented way -- add_segments(part, force_new=True) -- after every change of its marks."""
    import partitura.score as S
    bounds = bounds_of(spec)
    what = op["op"]
    via_tp = op.get("via") == "timepoint"

    def tag(o):
        o._pv = part._pv_next
        part._pv_next += 1
        return o

    def add(o, start, end=None):
        if via_tp:
            part.get_or_add_point(start).add_starting_object(o)
            if end is not None:
                part.get_or_add_point(end).add_ending_object(o)
        else:
            part.add(o, start, end)

    def remove(o):
        if via_tp:
            st, en = o.start, o.end
            if st is not None:
                st.remove_starting_object(o)
            if en is not None:
                en.remove_ending_object(o)
        else:
            part.remove(o)

    def find(cls, start, end=None):
        return [o for o in part.iter_all(cls) if o.start.t == start and (end is None or (o.end is not None and o.end.t == end))][0]

    navcls = {"coda": S.Coda, "tocoda": S.ToCoda, "dacapo": S.DaCapo, "fine": S.Fine, "segno": S.Segno,
              "dalsegno": S.DalSegno}
    if what == "add_segments":
        S.add_segments(part, force_new=bool(op.get("force")))
    elif what == "drop_segments":
        for sg in list(part.iter_all(S.Segment)):
            part.remove(sg)
    elif what == "add_repeat":
        a, b = op["span"]
        add(tag(S.Repeat()), bounds[a], bounds[b])
    elif what == "remove_repeat":
        a, b = spec["repeats"][op["index"]]
        remove(find(S.Repeat, bounds[a], bounds[b]))
    elif what == "renumber":
        for j, i in enumerate(group_endings(spec, op["group"])):
            es, ee, _ = spec["endings"][i]
            find(S.Ending, bounds[es], bounds[ee]).number = number_text(op, j)
    elif what == "set_nav":
        for k in NAV_KEYS:
            old, new = spec.get(k, []), op["nav"].get(k, [])
            for x in old:
                if x not in new:
                    remove(find(navcls[k], bounds[x]))
            for x in new:
                if x not in old:
                    add(tag(navcls[k]()), bounds[x])
    elif what == "add_notes":
        for nid, kind, m, on, dur, pitch, voice, staff in op["notes"]:
            step, alter, octave = STEPS[pitch % 7], (pitch // 7) % 3 - 1, 2 + (pitch // 21) % 4
            part.add(tag(S.Note(step, octave, alter or None, id=nid, voice=voice, staff=staff)),
                     bounds[m] + on, bounds[m] + on + dur)
    elif what == "remove_note":
        part.remove([n for n in part.iter_all(S.GenericNote, include_subclasses=True) if n.id == op["id"]][0])
    elif what == "drop_endings":
        for i in group_endings(spec, op["group"]):
            es, ee, _ = spec["endings"][i]
            remove(find(S.Ending, bounds[es], bounds[ee]))
    elif what == "add_endings":
        a, b = op["at"]
        add(tag(S.Ending("1")), bounds[b - 1], bounds[b])
        add(tag(S.Ending("2")), bounds[b], bounds[b + 1])
    elif what != "call":
        raise ValueError("unknown history operation %r" % (op,))
    s2 = spec_after(spec, op)
    if what in MARK_OPS and s2.get("add_segments"):
        S.add_segments(part, force_new=True)       # the documented way to refresh registered segments
    return s2


# ----------------------------------------------------------------------------
# abstraction of a Part: marks (input of the segment model) and object dump (input of the
# variant model); canonical dump of an unfolded part


def marks_of(part):
    """The navigation marks of a part exactly as add_segments reads them (iter_all order)."""
    import partitura.score as S

    reps = [(r.start.t, r.end.t) for r in part.iter_all(S.Repeat) if r.start is not None and r.end is not None]
    ends = [(v.start.t, v.end.t, [int(n) for n in str(v.number).split(",")])
            for v in part.iter_all(S.Ending) if v.start is not None and v.end is not None]
    pts = lambda cls: [c.start.t for c in part.iter_all(cls)]
    return {"first": part.first_point.t, "last": part.last_point.t, "repeats": reps, "endings": ends,
            "coda": pts(S.Coda), "tocoda": pts(S.ToCoda), "dacapo": pts(S.DaCapo), "fine": pts(S.Fine),
            "segno": pts(S.Segno), "dalsegno": pts(S.DalSegno)}


def cls_code(o):
    return CLS.get(type(o).__name__, CLS_OTHER)


def sig_of(o, intern):
    """Integer key of the attributes the 'do not repeat an unchanged signature/clef' rule compares."""
    n = type(o).__name__
    if n == "TimeSignature":
        k = ("ts", o.beats, o.beat_type)
    elif n == "KeySignature":
        k = ("ks", o.fifths, o.mode)
    elif n == "Clef":
        k = ("clef", o.sign, o.line, o.staff)
    elif n == "Fermata":
        return 1 if o.ref in (None, "right") else 0
    else:
        return 0
    return intern.setdefault(k, len(intern) + 1)


def note_attrs(o, intern=None):
    """(pitch, voice, staff) of a note-like object; pitch -1 for rests; time/key signatures carry the key of
    their compared attributes (the signature they put in force); -2 for others."""
    n = type(o).__name__
    if n in ("Note", "GraceNote"):
        return (int(o.midi_pitch) * 10 + STEPS.index(o.step), o.voice or 0, o.staff or 0)
    if n == "Rest":
        return (-1, o.voice or 0, o.staff or 0)
    if n in ("TimeSignature", "KeySignature") and intern is not None:
        return (sig_of(o, intern), 0, 0)
    return (-2, 0, 0)


def iter_points_objects(part):
    """(time point, object) in the order create_variant_part visits them."""
    for tp in part._points:
        for oo in tp.starting_objects.values():
            for o in oo:
                yield tp, o


def dump_original(part, intern=None):
    """Object dump of the original: rows (oid, cls, start, end|None, sig, attrs, refs) with
    refs = [(attr index, [target oid ...])]; None-valued single references give []."""
    intern = {} if intern is None else intern
    rows = []
    for tp, o in iter_points_objects(part):
        if not hasattr(o, "_pv"):
            continue  # Segments registered by add_segments etc.: never generated by build
        refs = []
        for ai, attr in enumerate(REF_ATTRS):
            if attr in getattr(o, "_ref_attrs", []) or ("_" + attr) in getattr(o, "_ref_attrs", []):
                v = getattr(o, attr)
                tg = [] if v is None else (list(v) if isinstance(v, list) else [v])
                refs.append((ai, [getattr(t, "_pv", -7) for t in tg]))
        rows.append((o._pv, cls_code(o), tp.t, None if o.end is None else o.end.t, sig_of(o, intern),
                     note_attrs(o, intern), refs))
    return rows


def qd_table(part):
    """[(time, divisions per quarter)] of a part (public quarter_durations())."""
    return [(int(t), int(q)) for t, q in part.quarter_durations()]


def fingerprint(part):
    """Everything observable of a part that unfolding must leave alone."""
    out = []
    for tp in part._points:
        row = [tp.t, tp.quarter, None if tp.prev is None else tp.prev.t, None if tp.next is None else tp.next.t]
        for kind, d in (("s", tp.starting_objects), ("e", tp.ending_objects)):
            for cls in d:
                for o in d[cls]:
                    item = [kind, type(o).__name__, id(o), None if o.start is None else o.start.t,
                            None if o.end is None else o.end.t, getattr(o, "id", None)]
                    for attr in REF_ATTRS:
                        if hasattr(o, attr):
                            v = getattr(o, attr)
                            item.append([id(x) for x in v] if isinstance(v, list) else (None if v is None else id(v)))
                    for attr in ("to", "await_to", "type", "number", "voice", "staff", "step", "alter", "octave",
                                 "beats", "beat_type", "fifths", "mode", "sign", "line"):
                        if hasattr(o, attr):
                            item.append(repr(getattr(o, attr)))
                    row.append(item)
        out.append(row)
    out.append([list(part._quarter_times), list(part._quarter_durations)])
    return json.dumps(out, default=str)


def dump_variant(u, intern=None):
    """Canonical rows of an unfolded part + structural problems found while walking it.
    row = (oid, cls, start, end|None, attrs, id suffix or 0, refs[(attr, [None | (oid, start)])])"""
    problems = []
    registered = {}
    for tp, o in iter_points_objects(u):
        registered[id(o)] = o
    rows = []
    for tp, o in iter_points_objects(u):
        if o.start is not tp:
            problems.append("object %s registered at t=%d has start %r" % (type(o).__name__, tp.t, o.start))
        refs = []
        for ai, attr in enumerate(REF_ATTRS):
            if attr in getattr(o, "_ref_attrs", []) or ("_" + attr) in getattr(o, "_ref_attrs", []):
                v = getattr(o, attr)
                tg = [] if v is None else (list(v) if isinstance(v, list) else [v])
                out = []
                for t in tg:
                    if t is None:
                        out.append(None)
                    elif id(t) not in registered:
                        problems.append("%s.%s of the copy at t=%d refers to an object outside the unfolded part (%s)"
                                        % (type(o).__name__, attr, tp.t, t))
                        out.append((-9, -9))
                    else:
                        out.append((getattr(t, "_pv", -8), t.start.t if t.start is not None else -9))
                refs.append((ai, out))
        suffix = 0
        oidv = getattr(o, "_pv", -8)
        nid = getattr(o, "id", None)
        if cls_code(o) in (0, 2) and isinstance(nid, str) and "-" in nid:
            suffix = int(nid.rsplit("-", 1)[1])
        rows.append((oidv, cls_code(o), tp.t, None if o.end is None else o.end.t,
                     note_attrs(o, dict(intern) if intern is not None else None), suffix, refs))
    rows.sort(key=lambda r: (r[2], r[0], r[1], -1 if r[3] is None else r[3], json.dumps(r[6])))
    return rows, problems


def timeline_problems(u):
    pr = []
    pts = list(u._points)
    for i, tp in enumerate(pts):
        if i and not pts[i - 1].t < tp.t:
            pr.append("time points not strictly increasing at %d" % tp.t)
        if tp.prev is not (pts[i - 1] if i else None):
            pr.append("prev link of point %d wrong" % tp.t)
        if tp.next is not (pts[i + 1] if i + 1 < len(pts) else None):
            pr.append("next link of point %d wrong" % tp.t)
        for d in tp.starting_objects.values():
            for o in d:
                if o.start is not tp:
                    pr.append("starting %s at %d: start is %r" % (type(o).__name__, tp.t, o.start))
                if o.end is not None and o not in o.end.ending_objects.get(type(o), {}):
                    pr.append("%s starting at %d not registered at its end" % (type(o).__name__, tp.t))
                if o.end is not None and u.get_point(o.end.t) is not o.end:
                    pr.append("%s starting at %d ends at a point outside the part" % (type(o).__name__, tp.t))
        for d in tp.ending_objects.values():
            for o in d:
                if o.end is not tp:
                    pr.append("ending %s at %d: end is %r" % (type(o).__name__, tp.t, o.end))
                if o.start is None or o not in o.start.starting_objects.get(type(o), {}):
                    pr.append("%s ending at %d is not registered at a start point" % (type(o).__name__, tp.t))
    return pr


# ----------------------------------------------------------------------------
# running the implementation on one spec

POLICIES = [(False, False, True), (False, False, False), (False, True, True), (False, True, False),
            (True, False, True), (True, False, False)]   # (no_repeats, all_repeats, ignore_leap_info)
TYPE_CODE = {"default": 0, "leap_start": 1, "leap_end": 2}


def seg_ranks(part):
    """Segment id -> rank in start order (the naming scheme of the segments is not part of the property:
    'A' is 0, 'B' is 1, ...); anything else ('END') is -1."""
    segs = sorted(part.segments, key=lambda s: (s.start.t, s.end.t))
    return {s.id: i for i, s in enumerate(segs)}, segs


def impl_segments(part):
    rank, segs = seg_ranks(part)
    sid = lambda x: rank.get(x, -1)
    return [(sid(s.id), s.start.t, s.end.t, [sid(x) for x in s.to], [sid(x) for x in s.await_to],
             TYPE_CODE.get(s.type, -1)) for s in segs]


def impl_paths(part, pol):
    """Path.path lists (as rank lists) or None when get_paths raises / a path is too long."""
    import partitura.score as S
    nr, ar, il = pol
    rank, _ = seg_ranks(part)
    try:
        ps = S.get_paths(part, no_repeats=nr, all_repeats=ar, ignore_leap_info=il)
    except (IndexError, RecursionError, KeyError) as e:
        return None, None, type(e).__name__
    out = [[rank.get(x, -5) for x in p.path] for p in ps]
    return out, ps, None


class Run:
    pass


def match_parts_to_paths(r, ps, us, upd):
    """iter_unfolded_parts yields one part per path; the ORDER of the variants is not part of the property,
    so each part is paired with a path whose expected notes it has (first unused one); parts that match no
    path are paired with the left-over paths in order (and will be reported by the oracle)."""
    keys = [Counter(expected_notes(r, p, upd)) for p in ps]
    free = list(range(len(ps)))
    pairing = [None] * len(us)
    for j, u in enumerate(us):
        got = Counter(got_notes(u))
        span = u.last_point.t if len(u._points) else None
        for i in free:
            if keys[i] == got and visits_of(r, ps[i])[1] == span:
                pairing[j] = i
                free.remove(i)
                break
    for j in range(len(us)):
        if pairing[j] is None:
            pairing[j] = free.pop(0)
    return pairing


def gen_alignment(r, ps, rng):
    """An alignment (list of dicts as alignment_from_matchfile gives them) built from the notes of variant j."""
    j = rng.randrange(len(ps))
    ids = [n[0] for n in expected_notes(r, ps[j], True) if n[5] == "note" and n[0] is not None]
    if not ids:
        return None
    mode = rng.random()
    if mode < 0.35:
        pick = list(ids)                                       # exactly the notes of variant j
    else:
        pick = [i for i in ids if rng.random() < 0.6] or ids[:1]
    if mode > 0.7 and len(ps) > 1:                             # plus notes only another variant has
        k = rng.randrange(len(ps))
        other = [n[0] for n in expected_notes(r, ps[k], True) if n[5] == "note" and n[0] is not None]
        pick += [i for i in other if i not in ids and rng.random() < 0.5]
    ali = []
    for i in pick:
        ali.append({"label": "deletion" if rng.random() < 0.15 else "match", "score_id": i, "performance_id": "p"})
    if rng.random() < 0.3:
        ali.append({"label": "insertion", "performance_id": "q"})
    if rng.random() < 0.2:
        ali.append({"label": "match", "score_id": "zz9-1", "performance_id": "p"})    # an id no variant has
    rng.shuffle(ali)
    return ali


def aligned_ids(ali):
    return [a["score_id"] for a in ali if a.get("label") in ("match", "deletion")]


def c_align_entry(r, ali):
    """(EAlign [mkW oid suffix ...]) for the score ids of an alignment."""
    by_id = {}
    for o in r.part.iter_all(__import__("partitura").score.GenericNote, include_subclasses=True):
        by_id[o.id] = o._pv
    out = []
    for sid in aligned_ids(ali):
        base, _, suf = sid.rpartition("-")
        out.append("(mkW %s %s)" % (cz(by_id.get(base, -99)), cz(int(suf) if suf.isdigit() else 0)))
    return "(EAlign %s)" % clist(out)


def run_impl(spec, variant_budget=6, rng=None, part=None):
    """Build the part (or take the part of an earlier step of the history), run every entry point, collect
    observations."""
    import partitura.score as S
    r = Run()
    r.spec = spec
    if part is None:
        part = build(spec)
    r.part = part
    r.fp0 = fingerprint(part)
    r.marks = marks_of(part)
    r.intern = {}
    r.objs = dump_original(part, r.intern)
    r.qd = qd_table(part)
    r.segs = impl_segments(part)
    r.paths = {}
    r.pathobjs = {}
    r.errors = {}
    order = list(POLICIES)
    if rng is not None:
        rng.shuffle(order)     # no call may depend on the options of the call before it
    for pol in order:
        ids, objs, err = impl_paths(part, pol)
        r.paths[pol] = ids
        r.pathobjs[pol] = objs
        if err:
            r.errors[pol] = err
    # unfolded parts: (label, path ids, update_ids, part)
    r.variants = []
    r.crashes = []
    r.recall = {}        # label -> the same call once more (oracle_independent)

    def call(label, path, upd, f):
        try:
            u = f()
        except Exception as e:  # noqa
            r.crashes.append((label, "%s: %s" % (type(e).__name__, e)))
            return
        r.variants.append((label, path, upd, u))
        if label.startswith(("unfold_part_maximal", "unfold_part_minimal")):
            r.recall[label] = f

    def tagged(u, entry):
        u._pv_entry = entry          # Coq term naming the entry point (Model/C09_api.v: entry)
        return u

    combos = [(il, upd) for il in (True, False) for upd in (True, False)]
    if rng is not None:
        rng.shuffle(combos)
    for il, upd in combos:
        ps = r.paths[(False, True, il)]
        if ps:
            call("unfold_part_maximal(update_ids=%s, ignore_leaps=%s)" % (upd, il), ps[0], upd,
                 lambda upd=upd, il=il: tagged(S.unfold_part_maximal(part, update_ids=upd, ignore_leaps=il),
                                               "(EMaximal %s)" % cbool(il)))
    ps = r.paths[(True, False, True)]
    if ps:
        call("unfold_part_minimal", ps[0], False, lambda: tagged(S.unfold_part_minimal(part), "EMinimal"))
    ps = r.paths[(False, False, True)]
    if ps and len(ps) <= 64:
        upd = True if rng is None else rng.random() < 0.5
        try:
            us = list(S.iter_unfolded_parts(part, update_ids=upd))
            if len(us) != len(ps):
                r.crashes.append(("iter_unfolded_parts", "%d parts for %d paths" % (len(us), len(ps))))
            else:
                pairing = match_parts_to_paths(r, ps, us, upd)
                # every part is paired and counted; the property statement is evaluated on all of them up to
                # 16 parts, beyond that on the first, the last and a random selection
                keep = set(range(len(us)))
                if len(us) > 16:
                    keep = {0, len(us) - 1} | set((rng or __import__("random").Random(0)).sample(range(len(us)), 14))
                if sorted(pairing) != list(range(len(ps))):
                    r.crashes.append(("iter_unfolded_parts", "the parts are not one per path"))
                for j, u in enumerate(us):
                    if j in keep:
                        r.variants.append(("iter_unfolded_parts(update_ids=%s)[%d]" % (upd, j), ps[pairing[j]], upd,
                                           tagged(u, "EIter")))
                        if j < 3:
                            r.recall[r.variants[-1][0]] = lambda j=j, upd=upd: next(itertools.islice(
                                S.iter_unfolded_parts(part, update_ids=upd), j, None))
        except Exception as e:  # noqa
            r.crashes.append(("iter_unfolded_parts", "%s: %s" % (type(e).__name__, e)))
        # the other public constructors: new_part_from_path on a Path of another policy, make_score_variants
        if rng is not None:
            pol = rng.choice(POLICIES)
            if r.pathobjs.get(pol):
                j = rng.randrange(len(r.pathobjs[pol]))
                updp = rng.random() < 0.5
                call("new_part_from_path(get_paths%r[%d], update_ids=%s)" % (pol, j, updp), r.paths[pol][j], updp,
                     lambda: tagged(S.new_part_from_path(r.pathobjs[pol][j], part, update_ids=updp),
                                    "(EFromPath %s %s %s)" % (cbool(pol[0]), cbool(pol[1]), cbool(pol[2]))))
            try:
                svs = S.make_score_variants(part)
                if len(svs) != len(ps):
                    r.crashes.append(("make_score_variants", "%d variants for %d paths" % (len(svs), len(ps))))
                elif svs:
                    j = rng.randrange(len(svs))
                    u = svs[j].create_variant_part()
                    pairing = match_parts_to_paths(r, ps, [u], False)
                    r.variants.append(("make_score_variants[%d].create_variant_part()" % j, ps[pairing[0]], False,
                                       tagged(u, "EIter")))
            except Exception as e:  # noqa
                r.crashes.append(("make_score_variants", "%s: %s" % (type(e).__name__, e)))
        # unfold_part_alignment: an alignment naming some of the notes of variant j (sometimes also notes of
        # another variant, insertions, deletions, unknown ids)
        if rng is not None and 1 <= len(ps) <= 16:
            ali = gen_alignment(r, ps, rng)
            if ali:
                r.alignment_input = json.loads(json.dumps(ali))
                try:
                    u = S.unfold_part_alignment(part, ali)
                    pairing = match_parts_to_paths(r, ps, [u], True)
                    r.alignment = (ps[pairing[0]], u)
                    r.variants.append(("unfold_part_alignment", ps[pairing[0]], True,
                                       tagged(u, c_align_entry(r, r.alignment_input))))
                except Exception as e:  # noqa
                    r.crashes.append(("unfold_part_alignment", "%s: %s" % (type(e).__name__, e)))
    # the unfolded part unfolded again
    r.reunfold = []
    if r.variants:
        v = r.variants[0] if rng is None else rng.choice(r.variants)
        r.reunfold = [(k, "%s [path %s]: %s" % (v[0], "-".join(chr(65 + i) for i in v[1]), m), {"call": v[0]})
                      for k, m in oracle_reunfold(v[3])]
    r.fp1 = fingerprint(part)
    return r


def score_level(spec, spec_b, hist=()):
    """unfold_part_maximal / unfold_part_minimal on a Score of two parts: the result is a new Score whose
    parts are the unfoldings of the parts, and neither the Score nor its parts are modified.  With a history:
    the first part is changed after the Score has been unfolded (the operations of the history) and the Score
    is unfolded again -- the result follows the part as it is now.
    Returns a list of (kind, message)."""
    bad = []
    pa, pb = build(spec), build(spec_b)
    pb.id = "P2"
    import partitura.score as S
    sc = S.Score([pa, pb], id="sc")
    bad += score_round(sc, pa, pb)
    if hist and not bad:
        cur = spec
        for op in hist:
            cur = apply_op(pa, cur, op)
        fresh = build({k: v for k, v in cur.items() if k != "add_segments"})
        bad += [(k, "after %s on the first part of the Score unfolded before: %s" % (json.dumps(list(hist)), m))
                for k, m in score_round(sc, pa, pb, fresh)]
    return bad


def score_round(sc, pa, pb, fresh=None):
    import partitura.score as S
    bad = []
    before = (list(sc.parts), [id(x) for x in sc.parts], fingerprint(pa), fingerprint(pb))
    intern_a, intern_b = {}, {}
    dump_original(pa, intern_a)
    dump_original(pb, intern_b)
    calls = [("unfold_part_maximal(Score, update_ids=True)", lambda x: S.unfold_part_maximal(x, update_ids=True)),
             ("unfold_part_maximal(Score, update_ids=False, ignore_leaps=False)",
              lambda x: S.unfold_part_maximal(x, update_ids=False, ignore_leaps=False)),
             ("unfold_part_minimal(Score)", lambda x: S.unfold_part_minimal(x))]
    for label, f in calls:
        try:
            want = [f(pa if fresh is None else fresh), f(pb)]
        except Exception:  # noqa
            continue       # an arrangement on which the path search raises for the part alone (judged there)
        try:
            got = f(sc)
        except Exception as e:  # noqa
            bad.append(("crash", "%s raised %s: %s although each part alone can be unfolded" % (label, type(e).__name__, e)))
            continue
        if not isinstance(got, S.Score) or len(got.parts) != 2:
            bad.append(("score", "%s does not return a Score with the two unfolded parts" % label))
            continue
        if got is sc or any(g is p for g in got.parts for p in (pa, pb)):
            bad.append(("modified", "%s returns the original Score / an original part instead of an unfolded copy" % label))
        for g, w, it, name in ((got.parts[0], want[0], intern_a, "first"), (got.parts[1], want[1], intern_b, "second")):
            rg, pg = dump_variant(g, it)
            rw, _ = dump_variant(w, it)
            if fresh is not None and name == "first":
                # compared with a freshly built part (other object tags): notes and length
                rg, rw = (sorted(map(repr, got_notes(g))), g.last_point.t), (sorted(map(repr, got_notes(w))), w.last_point.t)
            if rg != rw or pg:
                bad.append(("score", "%s: the %s part differs from the unfolding of that part alone%s"
                            % (label, name, (" (" + pg[0] + ")") if pg else "")))
            for pr in timeline_problems(g)[:2]:
                bad.append(("timeline", "%s: %s part: %s" % (label, name, pr)))
        after = (list(sc.parts), [id(x) for x in sc.parts], fingerprint(pa), fingerprint(pb))
        if after[1] != before[1] or any(x is not y for x, y in zip(after[0], before[0])):
            bad.append(("modified", "%s replaced the parts of the Score it was given" % label))
        if after[2] != before[2] or after[3] != before[3]:
            bad.append(("modified", "%s modified a part of the Score it was given" % label))
    return bad


# ----------------------------------------------------------------------------
# direct oracle (independent of the Coq model)


def seg_table(r):
    return {s[0]: s for s in r.segs}


def visits_of(r, path):
    """[(start, end, offset)] of a path (ids) using the implementation's segment table."""
    tab = seg_table(r)
    out, off = [], 0
    for i in path:
        s = tab[i]
        out.append((s[1], s[2], off))
        off += s[2] - s[1]
    return out, off


def orig_notes(r):
    """(id, start, duration, (step, alter, octave) | None, voice, staff, kind) of the original's notes/rests."""
    import partitura.score as S
    if getattr(r, "_orig_notes", None) is not None:
        return r._orig_notes
    out = []
    for n in r.part.iter_all(S.GenericNote, include_subclasses=True):
        kind = "rest" if isinstance(n, S.Rest) else "note"
        pitch = None if kind == "rest" else (n.step, n.alter, n.octave)
        out.append((n.id, n.start.t, n.end.t - n.start.t, pitch, n.voice, n.staff, kind))
    r._orig_notes = out      # the original does not change during a step (checked by the fingerprint)
    return out


def expected_notes(r, path, upd):
    """The notes the property statement demands of the unfolding along `path`:
    (id, start, duration, pitch, voice, kind) per visit of every note of a visited segment."""
    vis, _ = visits_of(r, path)
    seen = Counter()
    out = []
    for k, (s, e, off) in enumerate(vis):
        seen[(s, e)] += 1
        for (nid, st, dur, pitch, voice, staff, kind) in orig_notes(r):
            if s <= st < e:
                i2 = nid
                if upd and kind == "note" and nid is not None:
                    i2 = "%s-%d" % (nid, seen[(s, e)])
                out.append((i2, st - s + off, dur, pitch, (voice, staff), kind))
    return out


def got_notes(u):
    import partitura.score as S
    out = []
    for n in u.iter_all(S.GenericNote, include_subclasses=True):
        kind = "rest" if isinstance(n, S.Rest) else "note"
        pitch = None if kind == "rest" else (n.step, n.alter, n.octave)
        end = n.end.t if n.end is not None else None
        out.append((n.id, n.start.t, None if end is None else end - n.start.t, pitch, (n.voice, n.staff), kind))
    return out


def oracle_variant(r, label, path, upd, u):
    """Property statement on one unfolded part.  Returns list of (kind, message)."""
    import partitura.score as S
    bad = []
    vis, total = visits_of(r, path)
    # O1 length
    if len(u._points) == 0:
        bad.append(("length", "unfolded part is empty"))
        return bad
    if u.first_point.t != 0 or u.last_point.t - u.first_point.t != total:
        bad.append(("length", "unfolded part spans %d..%d, sum of the visited segments' lengths is %d"
                    % (u.first_point.t, u.last_point.t, total)))
    # O1 notes
    exp = Counter(expected_notes(r, path, upd))
    got = Counter(got_notes(u))
    if exp != got:
        miss = list((exp - got).elements())[:3]
        extra = list((got - exp).elements())[:3]
        bad.append(("notes", "notes differ from the per-visit shifted copies: missing %r, unexpected %r" % (miss, extra)))
    # O2 no navigation objects remain
    for tp in u._points:
        for d in (tp.starting_objects, tp.ending_objects):
            for cls in d:
                for o in d[cls]:
                    if type(o).__name__ in NAV_REMOVED:
                        bad.append(("nav", "%s remains in the unfolded part at t=%d" % (type(o).__name__, tp.t)))
    # O2 references closed: every reference of a copy is the copy (same visit) of the original's
    # target when that target was copied in the visit, else None
    rows, problems = dump_variant(u, r.intern)
    for p in problems:
        bad.append(("refs", p))
    orig = {row[0]: row for row in r.objs}

    def visit_index(t):
        for k, (s, e, off) in enumerate(vis):
            if off <= t < off + (e - s):
                return k
        return None

    copied = set()     # (oid, visit)
    for row in rows:
        k = visit_index(row[2])
        if k is not None:
            copied.add((row[0], k))
    for row in rows:
        oidv, cls, st = row[0], row[1], row[2]
        if oidv not in orig:
            bad.append(("refs", "object of class code %d at t=%d is not a copy of an original object" % (cls, st)))
            continue
        k = visit_index(st)
        if k is None:
            continue   # fermata copied at the very end
        s, e, off = vis[k]
        o = orig[oidv]
        if not row[6] and not o[6]:
            continue
        if st == off and cls == CLS["Fermata"] and (k > 0):
            continue   # may be the extra copy of the previous visit (carries no references anyway)
        want = []
        for ai, tg in o[6]:
            w = []
            for t in tg:
                trow = orig[t]
                if (t, k) in copied and s <= trow[2] < e:
                    w.append((t, trow[2] - s + off))
            want.append((ai, w))
        # a partner that was not copied in this visit leaves None (an empty slot of a list-valued attribute
        # is not a reference: ignored)
        if want != [(a, [t for t in x if t is not None]) for a, x in row[6]]:
            bad.append(("refs", "references of the copy of object %d (%s) at t=%d are %r, expected %r (targets as (object, start))"
                        % (oidv, [n for n, c in CLS.items() if c == cls], st, row[6], want)))
    # O2 timeline invariant
    for p in timeline_problems(u):
        bad.append(("timeline", p))
    # division changes inside repeated sections keep the notes' quarter duration
    try:
        qmap0, qmap1 = r.part.quarter_duration_map, u.quarter_duration_map
        for n in u.iter_all(S.GenericNote, include_subclasses=True):
            k = visit_index(n.start.t)
            if k is None:
                continue
            s, e, off = vis[k]
            q0 = int(qmap0(n.start.t - off + s))
            q1 = int(qmap1(n.start.t))
            if q0 != q1 or n.start.quarter != q0:
                bad.append(("quarter", "note %s at t=%d has quarter duration %d (time point %r), original %d"
                            % (n.id, n.start.t, q1, n.start.quarter, q0)))
                break
    except Exception as e:  # noqa
        bad.append(("quarter", "quarter_duration_map failed: %r" % (e,)))
    return bad[:8]


def is_walk(r, path):
    tab = seg_table(r)
    if not path or path[0] != 0:
        return "does not start at the first segment"
    for a, b in zip(path, path[1:]):
        if a not in tab or b not in tab[a][3] + tab[a][4]:
            return "step %s -> %s is not an allowed destination of %s" % (chr(65 + a), chr(65 + b), chr(65 + a))
    if path[-1] not in tab or -1 not in tab[path[-1]][3] + tab[path[-1]][4]:
        return "ends at %s where END is not allowed" % chr(65 + path[-1])
    return None


def structure_kind(spec):
    """none | simple (independent simple repeats only) | volta (non-nested repeats, some with endings, no
    navigation) | other"""
    nav = any(spec.get(k) for k in ("dacapo", "dalsegno", "segno", "fine", "coda", "tocoda"))
    reps = sorted(spec.get("repeats", []))
    ends = spec.get("endings", [])
    if not nav and not reps and not ends:
        return "none"
    if nav:
        return "other"
    if not ends:
        ok = all(a < b for a, b in reps) and all(reps[i][1] <= reps[i + 1][0] for i in range(len(reps) - 1))
        return "simple" if ok else "other"
    groups = spec.get("volta_groups")
    if not groups:
        return "other"
    # spans: each volta group from its body start to the end of its last ending, each other repeat; all disjoint
    vstarts = {g[0]: g[1][-1][1] for g in groups}
    spans = sorted([(a, b) for a, b in vstarts.items()] + [(a, b) for a, b in reps if a not in vstarts])
    ok = all(spans[i][1] <= spans[i + 1][0] for i in range(len(spans) - 1))
    return "volta" if ok else "other"


def reference_unfolding(spec, maximal):
    """Measure sequence demanded by the notation for non-nested repeats with or without endings
    (spec['volta_groups'] = [[body_start, [[ending_start, ending_end, [numbers]], ...]], ...] and simple
    repeats): maximal = every pass with its matching ending; minimal = once with the last ending."""
    n = len(spec["measures"])
    groups = {g[0]: g for g in spec.get("volta_groups", [])}
    vstarts = {g[0] for g in spec.get("volta_groups", [])}
    simple = {a: b for a, b in spec.get("repeats", []) if a not in vstarts}
    seq = []
    m = 0
    while m < n:
        if m in groups:
            a, endings = groups[m]
            first_end = endings[0][0]
            after = endings[-1][1]
            nums = sorted(x for e in endings for x in e[2])
            passes = nums if maximal else [nums[-1]]
            for p in passes:
                seq += list(range(a, first_end))
                for (es, ee, en) in endings:
                    if p in en:
                        seq += list(range(es, ee))
            m = after
        elif m in simple:
            b = simple[m]
            seq += list(range(m, b)) * (2 if maximal else 1)
            m = b
        else:
            seq.append(m)
            m += 1
    return seq


def path_measures(r, path):
    t0 = r.spec.get("t0", 0)
    bounds = [t0]
    for ln in r.spec["measures"]:
        bounds.append(bounds[-1] + ln)
    tab = seg_table(r)
    seq = []
    for i in path:
        s, e = tab[i][1], tab[i][2]
        seq += [k for k in range(len(bounds) - 1) if s <= bounds[k] < e]
    return seq


def spans_of(spec):
    """The repeated sections of a spec as disjoint spans [(start, end, 'rep' | 'volta', endings)] in measures,
    or None when repeats overlap / nest or an ending belongs to no group."""
    groups = {g[0]: g for g in spec.get("volta_groups", [])}
    if spec.get("endings") and not groups:
        return None
    out = [(a, g[1][-1][1], "volta", g[1]) for a, g in groups.items()]
    gend = {a: g[1][-1][1] for a, g in groups.items()}
    for a, b in spec.get("repeats", []):
        if a in gend and b <= gend[a]:
            continue
        out.append((a, b, "rep", None))
    out.sort(key=lambda x: (x[0], x[1]))
    if any(x[1] > y[0] for x, y in zip(out, out[1:])) or any(a >= b for a, b, _, _ in out):
        return None
    if sorted((e[0], e[1]) for g in groups.values() for e in g[1]) != sorted((a, b) for a, b, _ in spec.get("endings", [])):
        return None
    return out


def readings(spans, x, y, mode):
    """The ways to play the measures [x, y): mode 'all' = every simple repeat once or twice, 'max' = twice and
    every ending pass by pass, 'min' = once, with the last ending.  None: not defined (endings under 'all')."""
    out = [[]]
    sp = {s[0]: s for s in spans}
    m = x
    while m < y:
        if m in sp:
            a, b, kind, ends = sp[m]
            if b > y:
                return None
            if kind == "rep":
                body = list(range(a, b))
                opts = {"all": [body + body, body], "max": [body + body], "min": [body]}[mode]
            else:
                if mode == "all":
                    return None
                nums = sorted(k for e in ends for k in e[2])
                seq = []
                for p in (nums if mode == "max" else [nums[-1]]):
                    seq += list(range(a, ends[0][0]))
                    for es, ee, en in ends:
                        if p in en:
                            seq += list(range(es, ee))
                opts = [seq]
            out = [o + v for o in out for v in opts]
            m = b
        else:
            out = [o + [m] for o in out]
            m += 1
    return out


def nav_reference(spec, policy, ign):
    """What the notation permits for a part with ONE jump (D.C., or D.S. with its Segno), optionally al Fine or
    al Coda, and non-nested repeats / endings, none of the marks inside a repeated section (same definition as
    nav_reference of coq/Proofs/C09_nav.v): the straight reading, and the readings taking the jump
    [0, jump) + [destination, Fine | To Coda | end) (+ [Coda, end)); after the jump every repeat once unless
    leaps are ignored.  Returns the list of measure sequences of the policy, 'K2' for the arrangements of known
    finding C09-K2, None where no reference is defined (other arrangements on which partitura deviates: a
    repeated section ending at the jump mark, a Coda directly at the jump mark followed by repeats)."""
    n = len(spec["measures"])
    spans = spans_of(spec)
    jumps = [(k, t) for k in ("dacapo", "dalsegno") for t in spec.get(k, [])]
    if spans is None or len(jumps) != 1:
        return None
    jk, jp = jumps[0]
    segno, fine, tocoda, coda = (spec.get(k, []) for k in ("segno", "fine", "tocoda", "coda"))
    if jk == "dalsegno":
        if len(segno) != 1:
            return None
        d = segno[0]
    else:
        if segno:
            return None
        d = 0
    if len(fine) > 1 or len(tocoda) > 1 or len(coda) > 1 or (fine and tocoda) or (bool(tocoda) != bool(coda)):
        return None
    marks = [jp, d] + fine + tocoda + coda
    if any(a < m < b for a, b, _, _ in spans for m in marks):
        return None
    stop = (fine or tocoda or [None])[0]
    if not d < jp <= n or (stop is not None and not d < stop < jp) or (coda and not jp <= coda[0] < n):
        return None
    bset = {0, n} | set(marks)
    for a, b, kind, ends in spans:
        bset |= {a, b} | ({x for e in ends for x in e[:2]} if ends else set())
    nb = min(b for b in bset if b > d)
    if nb == jp or (d != 0 and tocoda and nb == tocoda[0]):
        return "K2"
    if any(b == jp for a, b, _, _ in spans) or (coda and coda[0] == jp and any(a >= jp for a, b, _, _ in spans)):
        return None
    m2 = policy if ign else "min"
    straight = readings(spans, 0, n, policy)
    v1s = readings(spans, 0, jp, policy)
    v2s = readings(spans, d, n if stop is None else stop, m2)
    v3s = readings(spans, coda[0], n, m2) if (coda and stop is not None) else [[]]
    if None in (straight, v1s, v2s, v3s):
        return None
    taken = [a + b + c for a in v1s for b in v2s for c in v3s]
    if policy == "all":
        return taken + straight
    if policy == "max":
        return taken if jp == n else straight
    return straight if jp == n else taken


def oracle_navigation(r):
    """Paths of a part with navigation marks against the reading of the notation (sets of measure sequences),
    and: a legal arrangement has unfoldings (get_paths does not raise)."""
    ref0 = nav_reference(r.spec, "max", True)
    if ref0 is None:
        return []
    bad = []
    raised = [pol for pol in POLICIES if r.paths[pol] is None]
    if raised:
        bad.append(("total", "get_paths%r raised %s on a legal arrangement of navigation marks%s"
                    % (raised[0], r.errors.get(raised[0]),
                       " (the jump is not recognised as a leap: its destination segment ends at the jump / To Coda mark)"
                       if ref0 == "K2" else "")))
    if ref0 == "K2":
        return bad
    for pol in POLICIES:
        if r.paths[pol] is None:
            continue
        nr, ar, ign = pol
        want = nav_reference(r.spec, "min" if nr else ("max" if ar else "all"), ign or nr)
        if want is None:
            continue
        got = sorted({tuple(path_measures(r, q)) for q in r.paths[pol]})
        if got != sorted({tuple(w) for w in want}):
            bad.append(("navigation", "get_paths%r plays the measure sequences %r, the navigation marks permit %r"
                        % (pol, [list(g) for g in got[:4]], sorted(want)[:4])))
            break
    return bad


def is_cyclic_prefix(seq, to):
    return all(to and x == to[i % len(to)] for i, x in enumerate(seq))


def oracle_cyclic(r):
    """Statement of maximal_walk_cyclic on the implementation: in a table without a leap start (repeats and endings,
    nested or not) the maximal path leaves every segment along its destinations in cyclic order, the last one for END."""
    bad = []
    r.cyc = None
    if any(x[5] == 1 for x in r.segs):
        return bad
    tab = seg_table(r)
    feats = set()
    for il in (True, False):
        ps = r.paths[(False, True, il)]
        if not ps:
            continue
        for p in ps:
            full = list(p) + [-1]
            for sid in sorted(tab):
                to = tab[sid][3]
                succ = [b for a, b in zip(full, full[1:]) if a == sid]
                if not is_cyclic_prefix(succ, to):
                    bad.append(("cyclic", "maximal path %s (ignore_leap_info=%s) leaves %s for %s, its destinations are %s: "
                                "not in cyclic order" % ("-".join(chr(65 + i) for i in p), il, chr(65 + sid),
                                                         [("END" if x < 0 else chr(65 + x)) for x in succ],
                                                         [("END" if x < 0 else chr(65 + x)) for x in to])))
                if len(to) >= 2 and len(succ) > len(to):
                    feats.add("a_segment_left_more_often_than_it_has_destinations")
                if len(to) >= 3 and len(succ) >= 3:
                    feats.add("three_or_more_destinations_used")
                if len(set(to)) < len(to) and len(succ) >= 2:
                    feats.add("duplicate_destinations_used")
            feats.add("checked")
    # minimal_walk_last: one path, every segment always left for its last destination
    for il in (True, False):
        ps = r.paths[(True, False, il)]
        if ps is None:
            continue
        if len(ps) != 1:
            bad.append(("cyclic", "the minimal policy (ignore_leap_info=%s) returns %d paths on a table without leaps" % (il, len(ps))))
        for p in ps:
            full = list(p) + [-1]
            for a, b in zip(full, full[1:]):
                if a in tab and tab[a][3] and b != tab[a][3][-1]:
                    bad.append(("cyclic", "minimal path %s leaves %s for %s, not for its last destination"
                                % ("-".join(chr(65 + i) for i in p), chr(65 + a), "END" if b < 0 else chr(65 + b))))
                    break
            feats.add("minimal_checked")
    r.cyc = sorted(feats)
    return bad[:2]


def oracle_paths(r):
    bad = []
    for pol in POLICIES:
        ps = r.paths[pol]
        if ps is None:
            continue
        for p in ps:
            w = is_walk(r, p)
            if w:
                bad.append(("walk", "get_paths%r returned %s which %s" % (pol, "-".join(chr(65 + i) for i in p), w)))
    bad += oracle_cyclic(r)
    kind = structure_kind(r.spec)
    allp = r.paths[(False, False, True)]
    maxp = r.paths[(False, True, True)]
    minp = r.paths[(True, False, True)]
    if kind in ("none", "simple", "volta"):
        for pol in POLICIES:
            if r.paths[pol] is None:
                bad.append(("total", "get_paths%r raised %s on a part with plain repeats/endings" % (pol, r.errors.get(pol))))
        if any(r.paths[pol] is None for pol in POLICIES):
            return bad
        for il in (True, False):
            if len(r.paths[(False, True, il)]) != 1 or len(r.paths[(True, False, il)]) != 1:
                bad.append(("count", "maximal/minimal policy does not give exactly one path"))
                return bad
        want_max = reference_unfolding(r.spec, True)
        want_min = reference_unfolding(r.spec, False)
        for il in (True, False):
            gm = path_measures(r, r.paths[(False, True, il)][0])
            if gm != want_max:
                bad.append(("maximal", "maximal unfolding plays measures %r, the notation says %r" % (gm, want_max)))
            gm = path_measures(r, r.paths[(True, False, il)][0])
            if gm != want_min:
                bad.append(("minimal", "minimal unfolding plays measures %r, the notation says %r" % (gm, want_min)))
    if kind == "none":
        for pol in POLICIES:
            if r.paths[pol] != [[0]]:
                bad.append(("identity", "part without repeat structure has paths %r" % (r.paths[pol],)))
    if kind == "simple":
        nrep = len(r.spec.get("repeats", []))
        for il in (True, False):
            ps = r.paths[(False, False, il)]
            if len(ps) != 2 ** nrep or len({tuple(p) for p in ps}) != len(ps):
                bad.append(("count", "%d independent simple repeats give %d variants (%d distinct), expected %d"
                            % (nrep, len(ps), len({tuple(p) for p in ps}), 2 ** nrep)))
    return bad[:8]


def needs_twin(spec):
    """Where the part starts can only matter to the marks that refer to the beginning: a da capo, an ending that
    repeats from the beginning without a repeat sign; every such case is compared with its twin, of the others
    (which the first time point reaches only through the first boundary) every fourth."""
    if spec.get("dacapo") or spec.get("dalsegno") or spec.get("t0"):
        return True
    for g in spec.get("volta_groups", []):
        if g[0] == 0:
            return True
    return len(spec.get("notes", [])) % 4 == 0


def oracle_twin(r):
    """The unfolding does not depend on where the part starts on its time axis: the same part with another
    first time point has the same paths (as measure sequences) for every policy."""
    spec = r.spec
    t0 = spec.get("t0", 0)
    twin = dict(spec)
    twin["t0"] = 0 if t0 else [spec["measures"][0], 1, 7][len(spec.get("notes", [])) % 3]
    twin.pop("edit", None)
    twin.pop("add_segments", None)
    try:
        part = build(twin)
        t = Run()
        t.spec = twin
        t.segs = impl_segments(part)
        t.paths = {pol: impl_paths(part, pol)[0] for pol in POLICIES}
    except Exception as e:  # noqa
        return [("twin", "the same part starting at t=%d could not be processed: %s: %s" % (twin["t0"], type(e).__name__, e))]
    bad = []
    for pol in POLICIES:
        a, b = r.paths[pol], t.paths[pol]
        if (a is None) != (b is None):
            bad.append(("twin", "get_paths%r %s for the part starting at t=%d but %s for the same part starting at t=%d"
                        % (pol, "raises" if a is None else "returns", t0, "raises" if b is None else "returns", twin["t0"])))
        elif a is not None:
            ma = sorted(path_measures(r, p) for p in a)
            mb = sorted(path_measures(t, p) for p in b)
            if ma != mb:
                bad.append(("twin", "get_paths%r plays measures %r for the part starting at t=%d but %r for the same part "
                            "starting at t=%d" % (pol, ma[:3], t0, mb[:3], twin["t0"])))
    return bad[:2]


def expected_heads(r, path):
    """Ids (update_ids=True) of the notes of the unfolding along `path` that do not continue a tie: the copy of
    a note whose tie_prev partner is copied in the same visit is not counted by Part.notes_tied."""
    prev = {b: a for a, b in r.spec.get("ties", [])}
    start = {n[0]: n[1] for n in orig_notes(r)}
    vis, _ = visits_of(r, path)
    seen = Counter()
    out = []
    for (s, e, off) in vis:
        seen[(s, e)] += 1
        for (nid, st, dur, pitch, voice, staff, kind) in orig_notes(r):
            if kind == "note" and nid is not None and s <= st < e:
                if nid in prev and s <= start[prev[nid]] < e:
                    continue
                out.append("%s-%d" % (nid, seen[(s, e)]))
    return out


def oracle_alignment(r):
    """unfold_part_alignment returns the variant covering most of the aligned score ids, among those one with
    the fewest notes (tied notes counted once)."""
    path, u = r.alignment
    ps = r.paths[(False, False, True)]
    ids = aligned_ids(r.alignment_input)
    got = sorted(n.id for n in u.notes_tied)
    heads = [expected_heads(r, p) for p in ps]
    score = [(sum(1 for i in ids if i in set(h)), len(h)) for h in heads]
    mine = [k for k, h in enumerate(heads) if sorted(h) == got]
    if not mine:
        return [("alignment", "unfold_part_alignment returned a part whose notes %r... are those of no variant" % (got[:6],))]
    beats = lambda a, b: a[0] > b[0] or (a[0] == b[0] and a[1] < b[1])
    if all(any(beats(score[k], score[m]) for k in range(len(ps))) for m in mine):
        best = max(score, key=lambda x: (x[0], -x[1]))
        return [("alignment", "unfold_part_alignment returned a variant covering %d of the %d aligned ids with %d notes; "
                 "a variant covering %d with %d notes exists" % (score[mine[0]][0], len(ids), score[mine[0]][1], best[0], best[1]))]
    return []


def oracle(r):
    """All direct checks of one run; list of (kind, message, extra)."""
    bad = [(k, m, {}) for k, m in oracle_paths(r)]
    bad += [(k, m, {}) for k, m in oracle_navigation(r)]
    if needs_twin(r.spec):
        bad += [(k, m, {}) for k, m in oracle_twin(r)]
    for label, err in r.crashes:
        bad.append(("crash", "%s raised %s" % (label, err), {"call": label}))
    for label, path, upd, u in r.variants:
        for k, m in oracle_variant(r, label, path, upd, u):
            bad.append((k, "%s [path %s]: %s" % (label, "-".join(chr(65 + i) for i in path), m),
                        {"call": label, "path": path,
                         "span": [u.first_point.t, u.last_point.t] if len(u._points) else None}))
    if hasattr(r, "alignment"):
        bad += [(k, m, {"call": "unfold_part_alignment", "alignment": r.alignment_input}) for k, m in oracle_alignment(r)]
    bad += getattr(r, "reunfold", [])
    if r.fp0 != r.fp1:
        bad.append(("modified", "the original part was modified by path computation / unfolding", {}))
    return bad


# ----------------------------------------------------------------------------
# generator


def gen_structure(rng, kind):
    """Blocks laid out in measures.  Returns dict with n (measures), block boundaries, repeats, endings,
    volta_groups, navigation marks."""
    blocks = []
    if kind == "none":
        blocks = [("plain", rng.randint(1, 4))]
    elif kind == "simple":
        r = rng.choice([1, 1, 2, 2, 3, 4])
        for i in range(r):
            if rng.random() < (0.5 if i else 0.6):
                blocks.append(("plain", rng.randint(1, 2)))
            blocks.append(("rep", rng.randint(1, 2)))
        if rng.random() < 0.6:
            blocks.append(("plain", rng.randint(1, 2)))
    else:
        nb = rng.randint(2, 5)
        for i in range(nb):
            x = rng.random()
            if kind == "volta" and i == 0 or x < 0.25:
                blocks.append(("volta", rng.randint(1, 2),
                               rng.choice([[[1], [2]], [[1], [2]], [[1], [2], [3]], [[1, 2], [3]], [[1], [2, 3]], [[1, 2], [3, 4]]])))
            elif kind == "nested" and i == 0 or x < 0.35:
                blocks.append(("nested", rng.randint(0, 1), 1, rng.randint(0, 1)))
            elif x < 0.6:
                blocks.append(("rep", rng.randint(1, 2)))
            else:
                blocks.append(("plain", rng.randint(1, 2)))
        if kind == "volta":
            blocks = [b for b in blocks if b[0] != "nested"]
        rng.shuffle(blocks)
    st = {"repeats": [], "endings": [], "volta_groups": []}
    m = 0
    bb = [0]
    for b in blocks:
        if b[0] == "plain":
            m += b[1]
        elif b[0] == "rep":
            st["repeats"].append([m, m + b[1]])
            m += b[1]
        elif b[0] == "volta":
            a = m
            m += b[1]
            total = max(x for e in b[2] for x in e)
            grp = []
            # a group at the very beginning may come without repeat signs: it repeats from the beginning
            signs = not (a == 0 and rng.random() < 0.35)
            for nums in b[2]:
                st["endings"].append([m, m + 1, nums[0] if (len(nums) == 1 and rng.random() < 0.25)
                                      else ",".join(str(x) for x in nums)])
                grp.append([m, m + 1, list(nums)])
                if signs and any(x != total for x in nums):
                    st["repeats"].append([a, m + 1])
                m += 1
            st["volta_groups"].append([a, grp])
        elif b[0] == "nested":
            a = m
            pre, inner, post = b[1], b[2], b[3]
            if pre + post == 0:
                post = 1
            two = [[a, a + pre + inner + post], [a + pre, a + pre + inner]]
            if rng.random() < 0.5:
                two.reverse()
            st["repeats"] += two
            m += pre + inner + post
        bb.append(m)
    st["n"] = m
    st["bb"] = bb
    st["blocks"] = blocks
    return st


VOLTA_PATHS = {"1|2": 2, "1|2|3": 4, "1,2|3": 9, "1|2,3": 8, "1,2|3,4": 36}


def est_paths(st):
    """Rough number of paths of the all-variants policy (measured per kind of block)."""
    e = 1
    for b in st["blocks"]:
        if b[0] == "rep":
            e *= 2
        elif b[0] == "nested":
            e *= 6
        elif b[0] == "volta":
            e *= VOLTA_PATHS.get("|".join(",".join(str(x) for x in nums) for nums in b[2]), 40)
    if st.get("dacapo") or st.get("dalsegno"):
        e *= e + 1
    return e


def add_navigation(rng, st):
    """D.C. / D.S. with optional Fine or To Coda / Coda at block boundaries (legal arrangements): all
    combinations of positions are enumerated and one is drawn; the arrangements of known finding C09-K2 (the
    segment the jump returns to ends at the jump or To Coda mark) are kept with reduced weight."""
    bb, n = st["bb"], st["n"]
    bounds = sorted(set(bb))
    allb = set(bounds) | {x for r in st["repeats"] for x in r} | {x for e in st["endings"] for x in e[:2]}
    for attempt in range(6):
        jump = rng.choice(["dacapo", "dalsegno"])
        al = rng.choice(["none", "fine", "fine", "coda", "coda", "coda"])
        cands = []
        for jp in bounds:
            if jp == 0:
                continue
            for sg in ([0] if jump == "dacapo" else [b for b in bounds if b < jp]):
                if al == "none":
                    cands.append((sg, None, jp, None))
                for x in [b for b in bounds if sg < b < jp]:
                    if al == "fine":
                        cands.append((sg, x, jp, None))
                    if al == "coda":
                        cands += [(sg, x, jp, cd) for cd in bounds if jp <= cd < n]
        if not cands:
            continue
        # a jump written at the very end and a jump written earlier are about equally likely
        at_end = [c for c in cands if c[2] == n]
        pool = at_end if (at_end and rng.random() < 0.5) else ([c for c in cands if c[2] < n] or cands)
        sg, x, jp, cd = rng.choice(pool)
        nb = min(b for b in allb | {jp} | ({x} if x is not None else set()) if b > sg)
        k2 = nb == jp or (sg != 0 and al == "coda" and nb == x)
        if k2 and attempt < 5 and rng.random() < 0.75:
            continue
        for k in ("segno", "dacapo", "dalsegno", "fine", "tocoda", "coda"):
            st.pop(k, None)
        if jump == "dalsegno":
            st["segno"] = [sg]
        st[jump] = [jp]
        if al == "fine":
            st["fine"] = [x]
        if al == "coda":
            st["tocoda"] = [x]
            st["coda"] = [cd]
        return


TS_CHOICES = [(4, 4), (3, 4), (2, 4), (6, 8), (2, 2)]


def gen_spec(rng, kind=None, rich=True, top=True):
    kind = kind or rng.choices(["none", "simple", "volta", "nested", "nav"], [5, 27, 22, 12, 34])[0]
    # structures with more than 64 variants are not unfolded variant by variant (and cost seconds): one in ten
    limit = 600 if rng.random() < 0.1 else 64
    for attempt in range(60):
        st = gen_structure(rng, "mixed" if kind == "nav" else kind)
        if kind == "nav":
            add_navigation(rng, st)
            if not (st.get("dacapo") or st.get("dalsegno")):
                continue
        if est_paths(st) <= limit or attempt == 59:
            break
    n, bb = st["n"], st["bb"]
    spec = {"kind": kind}
    for k in ("repeats", "endings", "volta_groups", "dacapo", "dalsegno", "segno", "fine", "coda", "tocoda"):
        if st.get(k):
            spec[k] = st[k]
    qd = rng.choice([2, 4, 4, 12])
    spec["qd"] = qd
    ts = rng.choice(TS_CHOICES)
    spec["ts"] = [[0, ts[0], ts[1]]]
    spec["ks"] = [[0, rng.randint(-4, 4), rng.choice(["major", "minor"])]] if rng.random() < 0.8 else []
    spec["clefs"] = [[0, 1, "G", 2]] if rng.random() < 0.8 else []
    spec["qdchanges"] = []
    two_staves = rich and rng.random() < 0.3
    if two_staves and spec["clefs"]:
        spec["clefs"].append([0, 2, "F", 4])
    measures = []
    cur_ts, cur_qd = ts, qd
    # signature / division changes at block boundaries and at the boundaries of endings
    cp = set(bb) | {e[0] for e in st.get("endings", [])} | {e[1] for e in st.get("endings", [])}
    for m in range(n):
        # ... and, less often, at a bar line INSIDE a block (strictly inside a repeated or skipped segment)
        if (m in cp or rng.random() < 0.3) and m > 0 and rich:
            x = rng.random()
            if x < 0.12:
                cur_ts = rng.choice([t for t in TS_CHOICES if t != cur_ts])
                spec["ts"].append([m, cur_ts[0], cur_ts[1]])
            elif x < 0.3:
                spec["ts"].append([m, cur_ts[0], cur_ts[1]])      # restated, unchanged
            x = rng.random()
            if x < 0.1:
                spec["ks"].append([m, rng.randint(-4, 4), "major"])
            elif x < 0.25 and spec["ks"]:
                spec["ks"].append([m, spec["ks"][-1][1], spec["ks"][-1][2]])   # restated
            if rng.random() < 0.12 and spec["clefs"]:
                c = rng.choice(spec["clefs"])
                spec["clefs"].append([m, c[1], c[2], c[3]] if rng.random() < 0.6 else [m, c[1], "C", 3])
            if rng.random() < 0.1:
                cur_qd = cur_qd * rng.choice([2, 3]) if cur_qd < 24 else qd
                spec["qdchanges"].append([m, cur_qd])
        measures.append(cur_ts[0] * cur_qd * 4 // cur_ts[1])
    spec["measures"] = measures
    spec["bb"] = bb
    if rng.random() < 0.2:
        spec["t0"] = rng.choice([measures[0], 1, 7])      # the part does not start at time 0
    if rng.random() < 0.25:
        spec["add_segments"] = True                       # history: add_segments(part) was called before
    notes, ties, graces, slurs, tuplets = [], [], [], [], []
    v1 = []          # voice-1 note ids in order, with measure
    ni = 0
    for m, L in enumerate(measures):
        k = rng.choice([k for k in (1, 1, 2, 2, 3, 4) if L % k == 0])
        d = L // k
        for j in range(k):
            x = rng.random() if rich else 0.0
            if x < 0.1:
                notes.append(["r%d" % ni, "rest", m, j * d, d, 0, 1, 1])
                ni += 1
                continue
            nid = "n%d" % ni
            ni += 1
            if rich and rng.random() < 0.12:
                g = "n%d" % ni
                ni += 1
                notes.append([g, "grace", m, j * d, 0, rng.randint(0, 80), 1, 1])
                if rng.random() < 0.3:
                    g2 = "n%d" % ni
                    ni += 1
                    notes.append([g2, "grace", m, j * d, 0, rng.randint(0, 80), 1, 1])
                    graces.append([g, g2])
                    g = g2
                graces.append([g, nid])
            notes.append([nid, "note", m, j * d, d, rng.randint(0, 80), 1, 1])
            v1.append((nid, m))
            if x > 0.9:
                notes.append(["n%d" % ni, "note", m, j * d, d, rng.randint(0, 80), 1, 1])
                ni += 1
        if two_staves and rng.random() < 0.7:
            notes.append(["n%d" % ni, "note", m, 0, L, rng.randint(0, 80), 2, 2])
            ni += 1
    if rich:
        for i in range(len(v1) - 1):
            x = rng.random()
            if v1[i][1] != v1[i + 1][1] and x < 0.35 or x < 0.05:
                ties.append([v1[i][0], v1[i + 1][0]])      # mostly across bar lines = segment boundaries
        for _ in range(rng.choice([0, 0, 1, 1, 2, 3])):
            if len(v1) >= 2:
                i = rng.randrange(len(v1) - 1)
                j = min(len(v1) - 1, i + rng.randint(1, 5))
                slurs.append([v1[i][0], v1[j][0]])
        for _ in range(rng.choice([0, 0, 0, 1, 2])):
            cand = [i for i in range(len(v1) - 1) if v1[i][1] == v1[i + 1][1] or rng.random() < 0.15]
            if cand:
                i = rng.choice(cand)
                tuplets.append([v1[i][0], v1[i + 1][0]])
        if rng.random() < 0.35:
            spec["fermatas"] = [[rng.choice(bb), rng.choice([None, "right", "left"])] for _ in range(rng.randint(1, 2))]
        if rng.random() < 0.25:
            spec["words"] = [[rng.choice(bb), "dolce"]]
        if rng.random() < 0.25:
            spec["pages"] = sorted({0, rng.choice(bb[:-1])})
        if rng.random() < 0.25:
            spec["barlines"] = [n]
    spec.update({"notes": notes, "ties": ties, "graces": graces, "slurs": slurs, "tuplets": tuplets})
    # a third of the rich parts look like imported ones: their notes carry mutable attribute values (drawn from a
    # stream of its own: the cases of the other streams stay what they were)
    wr = __import__("random").Random(len(notes) * 7919 + sum(measures) + n)
    if rich and wr.random() < 0.34:
        spec["written"] = []
        for nt in notes:
            if nt[1] != "grace" and wr.random() < 0.6:
                w = {}
                if wr.random() < 0.7:
                    w["symbolic_duration"] = dict({"type": wr.choice(["quarter", "eighth", "half"])},
                                                  **({"dots": 1} if wr.random() < 0.3 else {}))
                if wr.random() < 0.5:
                    w["articulations"] = wr.sample(["staccato", "accent", "tenuto"], wr.randint(1, 2))
                if wr.random() < 0.25:
                    w["ornaments"] = ["trill-mark"]
                if wr.random() < 0.15:
                    w["technical"] = []
                if w:
                    spec["written"].append([nt[0], w])
    if top and rng.random() < 0.36:
        spec["history"] = gen_history(rng, spec)
    if top and rng.random() < 0.12:
        # the part is also unfolded as a member of a Score, next to a second part
        spec["score_with"] = gen_spec(rng, rich=False, top=False)
        spec["score_with"].pop("add_segments", None)
    return spec


VOLTA_ALTS = {2: [[[1], [2]], [[1, 2], [3]], [[1], [2, 3]], [[1, 2], [3, 4]], [[1, 2, 3], [4]]],
              3: [[[1], [2], [3]], [[1, 2], [3], [4]], [[1], [2, 3], [4]], [[1], [2], [3, 4]]]}


def volta_signature(nums):
    """Which brackets of a group end with a repeat sign: those holding a number that is not the last pass."""
    total = max(x for e in nums for x in e)
    return tuple(any(x != total for x in e) for e in nums)


def history_candidates(rng, spec):
    """The operations applicable to the part described by `spec`, as (weight, op) -- every way the repeat
    structure (or what is repeated) can change between two unfoldings."""
    bb, n = spec["bb"], len(spec["measures"])
    reps = spec.get("repeats", [])
    ends = spec.get("endings", [])
    groups = spec.get("volta_groups", [])
    via = lambda: rng.choice(["part", "timepoint"])
    used = [(a, b) for a, b in reps] + [(a, b) for a, b, _ in ends]
    free = [(bb[i], bb[i + 1]) for i in range(len(bb) - 1)
            if bb[i] < bb[i + 1] and all(b <= bb[i] or bb[i + 1] <= a for a, b in used)]
    out = [(1, {"op": "call"})]
    out.append((2, {"op": "drop_segments"} if spec.get("add_segments") else {"op": "add_segments", "force": rng.random() < 0.3}))
    if spec.get("add_segments"):
        out.append((1, {"op": "add_segments", "force": rng.random() < 0.5}))
    # simple repeats added / removed
    if free:
        out.append((3, {"op": "add_repeat", "span": list(rng.choice(free)), "via": via()}))
    gend = {g[0]: g[1][-1][1] for g in groups}
    removable = [i for i, (a, b) in enumerate(reps) if not (a in gend and b <= gend[a])]
    if removable:
        out.append((3, {"op": "remove_repeat", "index": rng.choice(removable), "via": via()}))
    # ending numbers assigned in place
    for gi, g in enumerate(groups):
        cur = [list(e[2]) for e in g[1]]
        signs = any(a == g[0] and b <= gend[g[0]] for a, b in reps)
        alts = [x for x in VOLTA_ALTS.get(len(cur), []) if x != cur
                and (not signs or volta_signature(x) == volta_signature(cur))]
        if alts:
            out.append((8, {"op": "renumber", "group": gi, "numbers": rng.choice(alts), "sep": rng.choice([",", ", ", "int"])}))
        out.append((2, {"op": "drop_endings", "group": gi, "via": via()}))
    # a simple repeat of two or more measures followed by an unused measure gets a first and second ending
    spans_used = lambda x, y: any(a < y and x < b for a, b in used)
    cand = [(a, b) for a, b in reps if b - a >= 2 and b + 1 <= n and (a, b) in [tuple(r) for r in reps]
            and not any(es < b and a < ee for es, ee, _ in ends) and not spans_used(b, b + 1)
            and sum(1 for r in reps if r[0] < b and a < r[1]) == 1]
    marks = [x for k in NAV_KEYS for x in spec.get(k, [])]
    cand = [(a, b) for a, b in cand if not any(a < m < b + 1 for m in marks)]
    if cand:
        out.append((5, {"op": "add_endings", "at": list(rng.choice(cand)), "via": via()}))
    # navigation marks added / moved / removed
    e = 2 ** len(reps)
    for g in groups:
        e *= VOLTA_PATHS.get("|".join(",".join(str(x) for x in en[2]) for en in g[1]), 40)
    has_nav = any(spec.get(k) for k in NAV_KEYS)
    if has_nav:
        out.append((2, {"op": "set_nav", "nav": {}, "via": via()}))
    if e * (e + 1) <= 100:
        st = {"bb": bb, "n": n, "repeats": reps, "endings": ends}
        add_navigation(rng, st)
        nav = {k: st[k] for k in NAV_KEYS if st.get(k)}
        if nav and nav != {k: spec[k] for k in NAV_KEYS if spec.get(k)}:
            out.append((5 if has_nav else 3, {"op": "set_nav", "nav": nav, "via": via()}))
    # notes added / removed
    m = rng.randrange(n)
    k = len(spec.get("notes", []))
    out.append((2, {"op": "add_notes", "notes": [["x%d" % k, "note", m, 0, spec["measures"][m], rng.randint(0, 80), 2, 1]]}))
    bound = {x for key in ("ties", "slurs", "tuplets", "graces") for pr in spec.get(key, []) for x in pr}
    loose = [nt[0] for nt in spec.get("notes", []) if nt[1] == "note" and nt[0] not in bound]
    if loose:
        out.append((2, {"op": "remove_note", "id": rng.choice(loose)}))
    return out


def gen_history(rng, spec):
    """1-3 operations on the part after its first unfolding."""
    hist = []
    cur = spec
    for _ in range(rng.choice([1, 1, 2, 2, 3])):
        cands = history_candidates(rng, cur)
        op = rng.choices([c[1] for c in cands], [c[0] for c in cands])[0]
        hist.append(op)
        cur = spec_after(cur, op)
        cur["bb"] = spec["bb"]
    return hist


def small_scope_specs():
    """Thorough tier: every structure over 5 one-note measures built from <= 2 repeats (any intervals, nested,
    overlapping excluded), one two-ending volta group, and the D.C./D.S. x Fine/Coda arrangements whose segment
    count is <= 5 (filtered after building)."""
    n = 5
    ivs = [(a, b) for a in range(n) for b in range(a + 1, n + 1)]
    rep_sets = [[]] + [[list(i)] for i in ivs]
    for i, j in itertools.combinations(ivs, 2):
        if i[1] <= j[0] or j[1] <= i[0] or (i[0] <= j[0] and j[1] <= i[1]) or (j[0] <= i[0] and i[1] <= j[1]):
            rep_sets.append([list(i), list(j)])
    voltas = []
    for a in range(n):
        for b in range(a + 1, n):          # first ending [b, b+1), second [b+1, b+2)
            if b + 2 <= n:
                voltas.append({"repeats": [[a, b + 1]], "endings": [[b, b + 1, "1"], [b + 1, b + 2, "2"]],
                               "volta_groups": [[a, [[b, b + 1, [1]], [b + 1, b + 2, [2]]]]]})
    navs = [{}]
    for jp in range(2, n + 1):
        navs.append({"dacapo": [jp]})
        for f in range(1, jp):
            navs.append({"dacapo": [jp], "fine": [f]})
            if jp < n:
                navs.append({"dacapo": [jp], "tocoda": [f], "coda": [jp]})
        for sg in range(0, jp):
            navs.append({"segno": [sg], "dalsegno": [jp]})
            for f in range(sg + 1, jp):
                navs.append({"segno": [sg], "dalsegno": [jp], "fine": [f]})
                if jp < n:
                    navs.append({"segno": [sg], "dalsegno": [jp], "tocoda": [f], "coda": [jp]})
    base = {"qd": 1, "measures": [4] * n, "ts": [[0, 4, 4]],
            "notes": [["n%d" % m, "note", m, 0, 4, 30 + m, 1, 1] for m in range(n)],
            "ties": [["n%d" % m, "n%d" % (m + 1)] for m in range(n - 1)]}
    for nav in navs:
        for t0 in ((0, 3) if nav else (0,)):       # navigation: also with the part starting later than 0
            for reps in rep_sets:
                s = dict(base)
                s.update(nav)
                if reps:
                    s["repeats"] = reps
                if t0:
                    s["t0"] = t0
                s["kind"] = "small"
                yield s
            for v in voltas:
                s = dict(base)
                s.update(nav)
                s.update(v)
                if t0:
                    s["t0"] = t0
                s["kind"] = "small"
                yield s


# ----------------------------------------------------------------------------
# Coq terms


def czl(l):
    return clist([cz(x) for x in l])


def c_marks(m):
    return "(mkMarks %s %s %s %s %s %s %s %s %s %s)" % (
        cz(m["first"]), cz(m["last"]),
        clist([ctuple([cz(a), cz(b)]) for a, b in m["repeats"]]),
        clist([ctuple([cz(a), cz(b), czl(ns)]) for a, b, ns in m["endings"]]),
        czl(m["coda"]), czl(m["tocoda"]), czl(m["dacapo"]), czl(m["fine"]), czl(m["segno"]), czl(m["dalsegno"]))


def c_obj(row):
    oidv, cls, st, en, sig, attrs, refs = row
    return "(mkObj %s %s %s %s %s %s %s)" % (
        cz(oidv), cz(cls), cz(st), copt(en, cz), cz(sig), ctuple([cz(a) for a in attrs]),
        clist(["(mkORef %s %s)" % (cz(a), czl(t)) for a, t in refs if t]))      # attributes holding a reference


def c_seg(s):
    return "(mkSeg %s %s %s %s %s %s)" % (cz(s[0]), cz(s[1]), cz(s[2]), czl(s[3]), czl(s[4]), cz(s[5]))


def c_paths(pol, ps):
    body = "None" if ps is None else "(Some %s)" % clist([czl(p) for p in ps])
    return ctuple([cbool(pol[0]), cbool(pol[1]), cbool(pol[2]), body])


def c_row(row):
    oidv, cls, st, en, attrs, suffix, refs = row
    live = [(a, [t for t in tg if t is not None]) for a, tg in refs]
    return "(mkRow %s %s %s %s %s %s %s %s %s)" % (
        cz(oidv), cz(cls), cz(st), copt(en, cz), cz(attrs[0]), cz(attrs[1]), cz(attrs[2]), cz(suffix),
        clist(["(mkRef %s %s)" % (cz(a), clist(["(mkT %s %s)" % (cz(t[0]), cz(t[1])) for t in tg]))
               for a, tg in live if tg]))


def c_qd(tbl):
    return clist(["(mkQ %s %s)" % (cz(t), cz(q)) for t, q in tbl])


def c_case(r, variants):
    vs, es = [], []
    for label, path, upd, u in variants:
        rows, _ = dump_variant(u, r.intern)
        rows = [x for x in rows if x[1] != CLS["Clef"]]
        vs.append("(mkV %s %s %s %s)" % (czl(path), cbool(upd), clist([c_row(x) for x in rows]), c_qd(qd_table(u))))
        es.append(getattr(u, "_pv_entry", "EIter"))
    return "(mkCE (mkC %s %s %s %s %s %s) %s)" % (
        c_marks(r.marks), clist([c_obj(o) for o in r.objs]), c_qd(r.qd), clist([c_seg(s) for s in r.segs]),
        clist([c_paths(pol, r.paths[pol]) for pol in POLICIES]), clist(vs), clist(es))


LIST_ATTRS = ("slur_stops", "slur_starts", "tuplet_stops", "tuplet_starts")   # the list-valued entries of _ref_attrs


def c_heap(r, v):
    """Input of Model/C09_heap.v (check_heap) for one unfolded part: the lists held by the original's notes as a store
    (numbered as met; contents = tags of the referenced objects), per visit of the path the notes of the visited
    segment with the numbers of their lists, and the numbers of the lists the copies hold in the returned part (a
    list object not seen before gets the next number, in the order visit / note / attribute; -1: no such list)."""
    label, path, upd, u = v
    addr, store, orig = {}, [], []
    for tp, o in iter_points_objects(r.part):
        if hasattr(o, "_pv") and all(isinstance(getattr(o, a, None), list) for a in LIST_ATTRS):
            ads = []
            for a in LIST_ATTRS:
                l = getattr(o, a)
                if id(l) not in addr:
                    addr[id(l)] = len(store)
                    store.append([getattr(x, "_pv", -1) for x in l])
                ads.append(addr[id(l)])
            orig.append((o._pv, tp.t, ads))
    copies = {}
    for tp, o in iter_points_objects(u):
        if hasattr(o, "_pv"):
            copies.setdefault((o._pv, tp.t), o)
    nxt = len(store)
    vs, observed = [], []
    for s, e, off in visits_of(r, path)[0]:
        os_ = []
        for oid, t, ads in orig:
            if s <= t < e:
                os_.append("(%s, %s)" % (cz(oid), czl(ads)))
                c = copies.get((oid, t - s + off))
                for a in LIST_ATTRS:
                    l = getattr(c, a, None)
                    if not isinstance(l, list):
                        observed.append(-1)
                        continue
                    if id(l) not in addr:
                        addr[id(l)] = nxt
                        nxt += 1
                    observed.append(addr[id(l)])
        vs.append(clist(os_))
    return "(mkHC %s %s %s)" % (clist([czl(c) for c in store]), clist(vs), czl(observed))


HIST_POLICIES = [(False, False, True), (False, True, False), (True, False, True)]   # all variants / maximal, leaps / minimal


def c_history(steps, hist):
    """The history as the input of the state machine of Model/C09_hist.v: the operations (a change of the marks
    carries the marks read from the part afterwards) and, per step, what the implementation gave (segments,
    paths of the six policies)."""
    items = []
    r0 = steps[0][0]
    if r0 is None or steps[0][2] is not None:
        return None
    registered = bool(steps[0][3].get("add_segments"))
    if registered:
        items.append("(HOp (OAddSegments false))")

    def obs(r):
        return "(HObs %s %s)" % (clist([c_seg(x) for x in r.segs]), clist([c_paths(pol, r.paths[pol]) for pol in HIST_POLICIES]))

    items.append(obs(r0))
    for op, (r, bad, skip, spec_n, label) in zip(hist, steps[1:]):
        if r is None or skip is not None:
            break
        what = op["op"]
        if what in MARK_OPS:
            items.append("(HOp (OEdit %s %s))" % (cbool(op.get("via") != "timepoint" and what != "renumber"), c_marks(r.marks)))
            if registered:
                items.append("(HOp (OAddSegments true))")
        elif what == "add_segments":
            items.append("(HOp (OAddSegments %s))" % cbool(bool(op.get("force"))))
            registered = True
        elif what == "drop_segments":
            items.append("(HOp ODropSegments)")
            registered = False
        items.append(obs(r))
    return "(mkHist %s %s)" % (c_marks(r0.marks), clist(items))


def pick_variants(r, sub, small=False):
    """The unfolded parts sent to the model: one of the maximal ones, the minimal one, one of
    new_part_from_path / make_score_variants, the part returned by unfold_part_alignment (else one more of
    iter_unfolded_parts), one of iter_unfolded_parts."""
    mx = [v for v in r.variants if v[0].startswith("unfold_part_maximal")]
    vs = ([sub.choice(mx)] if mx else []) + [v for v in r.variants if v[0].startswith("unfold_part_minimal")]
    others = [v for v in r.variants if v[0].startswith(("new_part", "make_score"))]
    if others:
        vs.append(sub.choice(others))
    its = [v for v in r.variants if v[0].startswith("iter_")]
    al = [v for v in r.variants if v[0].startswith("unfold_part_alignment")]
    vs += al
    if its:
        vs += sub.sample(its, min(1 if (al or small) else 2, len(its)))
    return vs


# ----------------------------------------------------------------------------
# the returned part is an independent copy: it shares no mutable state with the argument or with the other
# unfolded parts (third hardening round)

SHARE_EXEMPT = ("_ref_attrs",)   # per-object table of attribute NAMES (strings), constant after construction, not data


def _is_container(o):
    import numpy as np
    return isinstance(o, (list, dict, set, bytearray, np.ndarray))


def containers_of(part):
    """{id: (how it is reached, container)} of every mutable container (list / dict / set / ndarray) reachable from
    a part through instance attributes, container elements and dictionary values."""
    import numpy as np
    seen, out = set(), {}
    stack = [(part, "Part")]
    while stack:
        o, path = stack.pop()
        if id(o) in seen or o is None or isinstance(o, (str, bytes, int, float, complex, bool, type, np.generic)):
            continue
        seen.add(id(o))
        if _is_container(o):
            out[id(o)] = (path, o)
        if isinstance(o, dict):
            for k, v in o.items():
                stack.append((v, "%s[%s]" % (path, getattr(k, "__name__", None) or type(k).__name__)))
                stack.append((k, path + "[..]"))       # (the per-class object sets of a time point are keyed by object)
        elif isinstance(o, (list, tuple, set, frozenset)):
            for v in o:
                stack.append((v, path + "[..]"))
        elif isinstance(o, np.ndarray):
            if o.dtype == object:
                for v in o.ravel():
                    stack.append((v, path + "[..]"))
        elif hasattr(o, "__dict__") and not callable(o):
            for k, v in vars(o).items():
                if k not in SHARE_EXEMPT:
                    stack.append((v, "%s.%s" % (type(o).__name__, k)))
    return out


def part_objects(part):
    """Every object registered in the timeline of a part, once, in time-point order."""
    out, seen = [], set()
    for tp in part._points:
        for d in (tp.starting_objects, tp.ending_objects):
            for cls in list(d):
                for o in d[cls]:
                    if id(o) not in seen:
                        seen.add(id(o))
                        out.append(o)
    return out


def state_of(part, by_position):
    """Canonical description of everything a part holds: per time point (t, quarter) and per registered object its
    class, span and EVERY instance attribute (containers element by element).  References to other objects are
    written by identity (by_position=False: the same part before / after) or by (class, start, rank among the
    objects of that class starting there) (by_position=True: two parts that should be equal); an object that is
    not registered in this part is written FOREIGN."""
    import numpy as np
    pos = {}
    for tp in part._points:
        for cls in list(tp.starting_objects):
            for i, o in enumerate(tp.starting_objects[cls]):
                pos[id(o)] = (cls.__name__, tp.t, i)
    points = {id(tp) for tp in part._points}

    def canon(v, depth=0):
        if v is None or isinstance(v, (str, bytes, int, float, complex, bool, np.generic)):
            return repr(v)
        if isinstance(v, np.ndarray):
            return ["array"] + [canon(x, depth + 1) for x in v.ravel().tolist()]
        if isinstance(v, (list, tuple)):
            return [type(v).__name__] + [canon(x, depth + 1) for x in v]
        if isinstance(v, (set, frozenset)):
            return ["set"] + sorted(json.dumps(canon(x, depth + 1), default=str) for x in v)
        if isinstance(v, dict):
            return ["dict"] + sorted(json.dumps([canon(k, depth + 1), canon(x, depth + 1)], default=str) for k, x in v.items())
        if id(v) in pos:
            return ["obj"] + (list(pos[id(v)]) if by_position else [type(v).__name__, id(v)])
        if id(v) in points:
            return ["tp", v.t]
        if hasattr(v, "t") and hasattr(v, "starting_objects"):
            return ["FOREIGN time point", v.t]
        if hasattr(v, "replace_refs") or hasattr(v, "start") and hasattr(v, "end"):
            return ["FOREIGN", type(v).__name__, str(getattr(v, "id", None))]
        if isinstance(v, type) or callable(v):
            return getattr(v, "__name__", type(v).__name__)
        if depth < 3 and hasattr(v, "__dict__"):
            return [type(v).__name__] + [[k, canon(x, depth + 1)] for k, x in sorted(vars(v).items())]
        return type(v).__name__
    out = {"points": [[tp.t, tp.quarter, None if tp.prev is None else tp.prev.t, None if tp.next is None else tp.next.t,
                       sorted(c.__name__ for c in tp.starting_objects if tp.starting_objects[c]),
                       sorted(c.__name__ for c in tp.ending_objects if tp.ending_objects[c])] for tp in part._points],
           "quarters": [canon(part._quarter_times), canon(part._quarter_durations)], "objects": {}}
    for o in part_objects(part):
        key = "%s %s" % (json.dumps(pos.get(id(o), ["?", type(o).__name__, id(o)])) if by_position else id(o), type(o).__name__)
        out["objects"][key] = [[k, canon(x)] for k, x in sorted(vars(o).items()) if not k.startswith("_pv")]
    return out


def state_diff(a, b, skip=()):
    """First difference of two state_of descriptions (None when equal); objects whose key is in `skip` are ignored."""
    if a["points"] != b["points"]:
        for x, y in itertools.zip_longest(a["points"], b["points"]):
            if x != y:
                return "time point %r became %r" % (x, y)
    if a["quarters"] != b["quarters"]:
        return "quarter durations %r became %r" % (a["quarters"], b["quarters"])
    for k in a["objects"]:
        if k in skip:
            continue
        if k not in b["objects"]:
            return "object %s is gone" % k
        if a["objects"][k] != b["objects"][k]:
            for (n, x), (n2, y) in itertools.zip_longest(a["objects"][k], b["objects"][k], fillvalue=(None, None)):
                if (n, x) != (n2, y):
                    return "%s.%s was %s, is %s" % (k.split(" ")[-1], n or n2, json.dumps(x, default=str)[:160],
                                                    json.dumps(y, default=str)[:160])
    for k in b["objects"]:
        if k not in a["objects"] and k not in skip:
            return "new object %s" % k
    return None


def foreign_refs(st):
    return [k for k, attrs in st["objects"].items() if "FOREIGN" in json.dumps(attrs, default=str)]


def edit_returned(u, rr):
    """Work on an unfolded part as a user would: public API first (Slur / Tuplet / Tie between two of its notes,
    note attributes, a note removed), then a mark in every mutable container reachable from it.
    Yields (description, ids of the objects the edit is allowed to change) after each edit."""
    import partitura.score as S
    import numpy as np
    notes = [n for n in u.iter_all(S.GenericNote, include_subclasses=True) if n.end is not None and n.end.t > n.start.t]
    touched = set()
    if len(notes) >= 2:
        firsts = sorted(notes, key=lambda n: n.start.t)
        pairs = [(firsts[0], firsts[1])]
        i = rr.randrange(len(firsts) - 1)
        pairs.append((firsts[i], firsts[rr.randrange(i + 1, len(firsts))]))
        for cls, (a, b) in zip((S.Slur, S.Tuplet), rr.sample(pairs, 2)):
            o = cls(a, b)
            u.add(o, a.start.t, b.end.t)
            touched |= {id(a), id(b), id(o)}
            yield "%s(%s, %s) added" % (cls.__name__, a.id, b.id), set(touched)
        a, b = rr.choice(pairs)
        if a.tie_next is None and b.tie_prev is None and isinstance(a, S.Note) and isinstance(b, S.Note):
            a.tie_next, b.tie_prev = b, a
            touched |= {id(a), id(b)}
            yield "tie %s -> %s set" % (a.id, b.id), set(touched)
    if notes:
        n = rr.choice(notes)
        n.voice, n.staff, n.id = 7, 5, "edited"
        if isinstance(n, S.Note):
            n.step, n.octave, n.alter = "B", 7, 1
        touched.add(id(n))
        yield "voice/staff/id/pitch of a note at t=%d changed" % n.start.t, set(touched)
        n = rr.choice(notes)
        for other in part_objects(u):          # the objects that refer to the removed note may change with it
            for k, v in vars(other).items():
                if v is n or (isinstance(v, list) and any(x is n for x in v)):
                    touched.add(id(other))
        touched.add(id(n))
        for x in list(n.slur_starts) + list(n.slur_stops) + list(n.tuplet_starts) + list(n.tuplet_stops):
            if x is not None:
                touched.add(id(x))
        t = n.start.t
        u.remove(n)
        yield "note at t=%d removed" % t, set(touched)
    marks = 0
    for path, c in list(containers_of(u).values()):
        if isinstance(c, list):
            c.append("PV-MARK")
        elif isinstance(c, dict):
            c["PV-MARK"] = []
        elif isinstance(c, set):
            c.add("PV-MARK")
        elif isinstance(c, np.ndarray) and c.dtype != object and c.size and c.flags.writeable and path.startswith("Part."):
            c.flat[0] += 1
        marks += 1
    yield "a mark written into each of the %d lists / dicts / sets / arrays reachable from the part" % marks, None


def oracle_independent(r, rng=None):
    """State shared between the returned part and the argument / the other returned parts.  (a) identity: no
    mutable container reachable from an unfolded part is reachable from the original or from another unfolded
    part; (b) behaviour: some of the returned parts are edited (edit_returned); after every edit the original
    (fingerprint and full state), every other part returned in this step and the untouched objects of the edited
    part are as they were, no reference leaves a part, and (c) the same call on the original gives a part equal to
    the one it gave first."""
    import random
    bad = []
    vs = [v for v in r.variants if len(v[3]._points)]
    if not vs:
        return bad
    rr = rng or random.Random(len(vs))
    watch = vs if len(vs) <= 6 else rr.sample(vs, 6)
    # (a) identity
    owner = {i: ("the original part", p) for i, (p, _) in containers_of(r.part).items()}
    for label, path, upd, u in watch:
        for i, (p, c) in containers_of(u).items():
            if i in owner:
                bad.append(("shared", "%s (%s, %d elements) of the part returned by %s is the SAME object as %s of %s: the "
                            "unfolded part shares mutable state" % (p, type(c).__name__, len(c), label, owner[i][1], owner[i][0]),
                            {"call": label}))
                break
            owner[i] = ("the part returned by " + label, p)
        if bad:
            break
    # (b) behaviour
    fp = fingerprint(r.part)
    orig0 = state_of(r.part, False)
    before = [(v, state_of(v[3], False), state_of(v[3], True)) for v in watch]
    recall = getattr(r, "recall", {})
    edited = rr.sample(watch, min(2 if rr.random() < 0.25 else 1, len(watch)))
    for ev in edited:
        label, u = ev[0], ev[3]
        mine = [b for b in before if b[0] is ev][0]
        done = []
        try:
            for what, allowed in edit_returned(u, rr):
                done.append(what)
                msg = None
                d = state_diff(orig0, state_of(r.part, False))
                if d or (allowed is None and fingerprint(r.part) != fp):
                    msg = "the ORIGINAL part changed (%s)" % (d or "fingerprint")
                # the other parts: after the last edit through the API and after the marks
                for v, s_id, _ in (before if allowed is None or what.startswith("note at") else []):
                    if msg is None and v is not ev:
                        d = state_diff(s_id, state_of(v[3], False))
                        if d:
                            msg = "the part returned earlier by %s changed (%s)" % (v[0], d)
                if msg is None and allowed is not None:
                    now = state_of(u, False)
                    skip = {k for k in list(mine[1]["objects"]) + list(now["objects"]) if int(k.split(" ")[0]) in allowed}
                    d = state_diff({"points": [], "quarters": [], "objects": mine[1]["objects"]},
                                   {"points": [], "quarters": [], "objects": now["objects"]}, skip)
                    if d:
                        msg = "an object of the edited part that the edit does not concern changed (%s)" % d
                    fr = [k for k in foreign_refs(now) if k not in skip]
                    if msg is None and fr:
                        msg = "object %s of the edited part refers to an object outside the part" % fr[0]
                if msg:
                    bad.append(("aliased", "after editing only the part RETURNED by %s (%s): %s"
                                % (label, "; ".join(done), msg), {"call": label, "edits": done}))
                    break
        except Exception as e:  # noqa  (the edit itself failed: the returned part is not a usable part)
            bad.append(("aliased", "editing the part returned by %s (%s) raised %s: %s"
                        % (label, "; ".join(done) or "Slur added", type(e).__name__, e), {"call": label}))
        before = [b for b in before if b[0] is not ev]      # an edited part is not looked at again
        if bad:
            break
    # (c) the same call again on the (untouched) original
    again_for = [b for b in before if b[0][0] in recall]
    for v, _, s_pos in (again_for if len(again_for) <= 2 else rr.sample(again_for, 2)):
        if not any(b[0] == "aliased" for b in bad):
            try:
                again = recall[v[0]]()
            except Exception as e:  # noqa
                bad.append(("aliased", "%s worked first and raised %s: %s after the parts returned earlier had been edited"
                            % (v[0], type(e).__name__, e), {"call": v[0]}))
                break
            d = state_diff(s_pos, state_of(again, True))
            if d:
                bad.append(("aliased", "%s on the untouched original gives another part after the parts returned earlier "
                            "have been edited (%s)" % (v[0], d), {"call": v[0]}))
                break
    return bad[:3]


# ----------------------------------------------------------------------------
# the check


class _Timeout(BaseException):
    """Not an Exception: the `except Exception` handlers that classify what the implementation raises must
    never see the guard's own interrupt (it would be reported as a crash of the implementation)."""


def with_alarm(seconds, f):
    """Run f under a guard against non-termination.  The budget is CPU time of this process
    (ITIMER_VIRTUAL), not wall-clock time: a loaded machine must not turn a slow run into an alarm."""
    import signal

    def h(sig, frm):
        raise _Timeout()
    old = signal.signal(signal.SIGVTALRM, h)
    signal.setitimer(signal.ITIMER_VIRTUAL, seconds)
    try:
        return f()
    finally:
        signal.setitimer(signal.ITIMER_VIRTUAL, 0)
        signal.signal(signal.SIGVTALRM, old)


def examine(spec, rng=None, part=None):
    """Run the implementation and the direct oracle on a spec (one step of a history; `part` = the part left
    by the previous step).  Returns (run | None, bad list, skip reason)."""
    try:
        r = with_alarm(20, lambda: run_impl(spec, rng=rng, part=part))
    except _Timeout:
        return None, [], "timeout"
    for pol in POLICIES:
        ps = r.paths[pol]
        if ps is not None and (len(ps) > MAXPATHS or any(len(p) >= MAXPATH for p in ps)):
            return r, oracle(r), "too_long"
    return r, oracle(r), None


def independent_step(r, bad, skip, rng, after):
    """Last thing done with the unfolded parts of a step: `after` (the caller dumps them for the model), then they are
    edited (oracle_independent)."""
    if r is None:
        return bad
    if after is not None:
        after(r, skip)
    try:
        return bad + with_alarm(20, lambda: oracle_independent(r, rng))
    except _Timeout:
        return bad


def examine_history(spec, rng=None, after=None):
    """All steps of a case: [(run | None, bad, skip, spec of the step, step label)].
    Step 0: the part as built (after add_segments when the spec says so), every entry point; also as a member
    of a Score when the spec says so.  Step k (k-th operation of the history): the SAME Part object changed
    through the public API or in place, every entry point again -- nothing computed in an earlier step may
    survive: every observation is judged against the spec describing the part as it is NOW, against the model
    evaluated on the marks read from the part NOW, and against a freshly built part with the same marks."""
    steps = []
    r, bad, skip = examine(spec, rng=rng)
    if r is not None and spec.get("score_with"):
        try:
            sb = with_alarm(20, lambda: score_level(spec, spec["score_with"], history_of(spec)))
        except _Timeout:
            sb = []
        bad = bad + [(k, m, {"call": "Score"}) for k, m in sb]
    bad = independent_step(r, bad, skip, rng, after)
    steps.append((r, bad, skip, spec, "as built"))
    cur = spec
    hist = history_of(spec)
    for k, op in enumerate(hist):
        if r is None or skip is not None:
            break
        if any(b[0] in ("aliased", "shared") for b in bad):
            break          # the original may have been changed through a returned part: nothing to continue with
        part = r.part
        cur = apply_op(part, cur, op)
        r, bad, skip = examine(cur, rng=rng, part=part)
        if r is not None:
            r.op = op
            try:
                bad = bad + [(kd, m, {"call": "fresh"}) for kd, m in with_alarm(20, lambda: oracle_fresh(r))]
            except _Timeout:
                pass
        bad = independent_step(r, bad, skip, rng, after)
        bad = [(kd, "after %s on the part unfolded before: %s" % (json.dumps(hist[:k + 1]), m), x) for kd, m, x in bad]
        steps.append((r, bad, skip, cur, "after step %d" % (k + 1)))
    return steps


def oracle_fresh(r):
    """State carried between calls: the part `r.part` has a history (it was unfolded, changed, unfolded ...).
    What it gives now must be what a freshly built part with the same marks and notes gives: segments, the paths
    of every policy (as sets; the first path where the policy has an order: maximal / minimal), and the notes
    and length of the maximal and minimal unfoldings."""
    import partitura.score as S
    spec = {k: v for k, v in r.spec.items() if k not in ("add_segments", "history", "edit", "score_with")}
    fresh = build(spec)
    bad = []
    fsegs = impl_segments(fresh)
    if [x[:3] for x in fsegs] != [x[:3] for x in r.segs]:
        bad.append(("stale", "the part has the segments %r; a freshly built part with the same marks has %r"
                    % ([x[1:3] for x in r.segs], [x[1:3] for x in fsegs])))
        return bad
    for pol in POLICIES:
        ids, _, err = impl_paths(fresh, pol)
        a = r.paths[pol]
        if (a is None) != (ids is None):
            bad.append(("stale", "get_paths%r %s; on a freshly built part with the same marks it %s"
                        % (pol, "raises" if a is None else "returns", "raises" if ids is None else "returns")))
            return bad
        if a is None:
            continue
        if sorted(a) != sorted(ids) or ((pol[0] or pol[1]) and a[:1] != ids[:1]):
            name = lambda ps: ["-".join(chr(65 + i) for i in p) for p in ps[:4]]
            bad.append(("stale", "get_paths%r returns %r; on a freshly built part with the same marks %r"
                        % (pol, name(a), name(ids))))
            return bad
    calls = {"unfold_part_maximal(update_ids=True, ignore_leaps=True)": lambda p: S.unfold_part_maximal(p, update_ids=True),
             "unfold_part_maximal(update_ids=False, ignore_leaps=False)":
                 lambda p: S.unfold_part_maximal(p, update_ids=False, ignore_leaps=False),
             "unfold_part_minimal": lambda p: S.unfold_part_minimal(p)}
    for label, path, upd, u in r.variants:
        if label in calls:
            try:
                uf = calls[label](fresh)
            except Exception as e:  # noqa
                bad.append(("stale", "%s works on the part with a history but raises %s on a freshly built one" % (label, type(e).__name__)))
                continue
            if Counter(got_notes(u)) != Counter(got_notes(uf)) or u.last_point.t != uf.last_point.t:
                bad.append(("stale", "%s of the part differs from that of a freshly built part with the same marks and "
                            "notes (%d notes, length %d; fresh: %d notes, length %d)"
                            % (label, len(u.notes), u.last_point.t, len(uf.notes), uf.last_point.t)))
                break
    return bad


def oracle_reunfold(u):
    """An unfolded part has no repeat structure left: unfolding it again gives one path of one segment and an
    equal part, through every entry point."""
    import partitura.score as S
    if len(u._points) == 0:
        return []
    bad = []
    try:
        # (Fine / Segno / Coda signs are no jump instructions and may remain: they cut the part into segments
        # that are played once, in order)
        straight = [sg.id for sg in sorted(u.segments, key=lambda sg: sg.start.t)]
        for pol in POLICIES:
            ps = S.get_paths(u, no_repeats=pol[0], all_repeats=pol[1], ignore_leap_info=pol[2])
            if [list(p.path) for p in ps] != [straight]:
                bad.append(("reunfold", "get_paths%r of the unfolded part gives %r, not its segments once in order %r: "
                            "repeat structure remains" % (pol, [list(p.path) for p in ps][:3], straight)))
                return bad
        want = Counter(got_notes(u))
        again = [("unfold_part_maximal", S.unfold_part_maximal(u, update_ids=False)),
                 ("unfold_part_minimal", S.unfold_part_minimal(u))]
        its = list(S.iter_unfolded_parts(u, update_ids=False))
        if len(its) != 1:
            bad.append(("reunfold", "iter_unfolded_parts of the unfolded part yields %d parts" % len(its)))
        else:
            again.append(("iter_unfolded_parts", its[0]))
        for name, v in again:
            if Counter(got_notes(v)) != want or (v.first_point.t, v.last_point.t) != (u.first_point.t, u.last_point.t):
                bad.append(("reunfold", "%s of the unfolded part is not an equal part (%d notes, span %d..%d; was %d notes, "
                            "span %d..%d)" % (name, len(v.notes), v.first_point.t, v.last_point.t, len(u.notes),
                                              u.first_point.t, u.last_point.t)))
                break
    except Exception as e:  # noqa
        bad.append(("reunfold", "unfolding the unfolded part raised %s: %s" % (type(e).__name__, e)))
    return bad


def shrink(spec, kind):
    """ddmin over the decorations of a failing spec (structure kept), keeping the same failure kind."""
    def fails(s):
        try:
            steps = examine_history(s)
        except Exception:
            return False
        return any(b[0] == kind for st in steps for b in st[1])

    s = dict(spec)
    if s.get("edit") and not s.get("history"):
        s["history"] = history_of(s)
        del s["edit"]
    for key in ("score_with", "history", "add_segments", "t0"):
        if key in s:
            t = {k: v for k, v in s.items() if k != key}
            if fails(t):
                s = t
    if s.get("history"):
        # the shortest failing prefix, then without each of the remaining operations
        for k in range(1, len(s["history"])):
            if fails(dict(s, history=s["history"][:k])):
                s = dict(s, history=s["history"][:k])
                break
        i = 0
        while i < len(s["history"]) and len(s["history"]) > 1:
            t = dict(s, history=s["history"][:i] + s["history"][i + 1:])
            if fails(t):
                s = t
            else:
                i += 1
    for key in ("slurs", "tuplets", "ties", "graces", "fermatas", "words", "pages", "barlines", "qdchanges", "written"):
        if s.get(key):
            t = dict(s)
            t[key] = []
            if key == "graces":
                t["notes"] = [n for n in t["notes"] if n[1] != "grace"]
            if fails(t):
                s = t
            elif len(s[key]) > 1:
                keep = core.ddmin(s[key], lambda sub: fails(dict(s, **{key: sub})))
                s = dict(s, **{key: keep})
    for key in ("ts", "ks", "clefs"):
        if len(s.get(key, [])) > 1:
            t = dict(s, **{key: s[key][:1]})
            if fails(t):
                s = t
    return s


def classify(spec):
    feats = []
    if spec.get("slurs"):
        feats.append("slur")
    if spec.get("ties"):
        feats.append("tie")
    if spec.get("tuplets"):
        feats.append("tuplet")
    if spec.get("graces"):
        feats.append("grace")
    if len(spec.get("ts", [])) > 1 or spec.get("qdchanges"):
        feats.append("sigchange")
    if spec.get("written"):
        feats.append("notes_with_mutable_attribute_values")
    return feats


def is_k2(obj):
    """Matcher of known finding C09-K2: get_paths raises on an arrangement whose jump (D.C. / D.S.) returns to a
    segment that ends at the jump mark itself or (not being the first segment) at the To Coda mark."""
    spec = obj.get("spec_current") or (obj.get("spec_after_edit") if obj.get("step") == "after edit" else obj.get("spec")) or {}
    return obj.get("kind") == "total" and bool(spec.get("measures")) and nav_reference(spec, "max", True) == "K2"


def is_k3(obj):
    """Matcher of known finding C09-K3: the navigation oracle on an arrangement with a To Coda mark directly after a
    volta group whose last bracket is itself repeated (holds a number that is not the last pass)."""
    spec = obj.get("spec_current") or obj.get("spec") or {}
    if obj.get("kind") != "navigation" or not spec.get("tocoda") or not (spec.get("dacapo") or spec.get("dalsegno")):
        return False
    for g in spec.get("volta_groups", []):
        nums = [e[2] for e in g[1]]
        if volta_signature(nums)[-1] and g[1][-1][1] in spec["tocoda"]:
            return True
    return False


# ----------------------------------------------------------------------------
# unit stream: Path.list_of_destinations_from_last_segment / make_copy_with_jump_to on real Path objects built
# directly (destination lists with duplicates, used lists as the policies make them and arbitrary ones, up to
# and beyond the 100 rounds), compared in Coq with dests_of / depart of Model/C09_cycle.v

CYC_IDS = ["A", "B", "C", "D", "E"]


def cyc_code(x):
    return -1 if x == "END" else ord(x) - 65


def cycle_cases(rng, n):
    import partitura.score as S
    from collections import defaultdict
    terms, descr, feats = [], [], Counter()
    for _ in range(n):
        nd = rng.choice([0, 1, 1, 2, 2, 2, 3, 3, 3, 4, 4, 5])
        pool = CYC_IDS + (["END"] if rng.random() < 0.4 else [])
        shape = rng.choice(["distinct", "distinct", "adjacent_duplicates", "any_duplicates"])
        if shape == "distinct" or nd < 2:
            to = rng.sample(pool, nd)
        elif shape == "adjacent_duplicates":       # "1, 2" brackets: C C D
            base = rng.sample(pool, rng.randint(1, nd - 1))
            to = list(base)
            while len(to) < nd:
                j = rng.randrange(len(to))
                to.insert(j, to[j])
        else:
            base = rng.sample(pool, rng.randint(1, nd - 1))
            to = [rng.choice(base) for _ in range(nd)]
        if "END" in to and rng.random() < 0.7:      # where _make_segments puts it
            to = [x for x in to if x != "END"] + ["END"] * to.count("END")
        beyond = False
        mode = rng.choice(["empty", "cyclic", "cyclic", "cyclic", "cyclic", "skipping", "skipping", "arbitrary"]) if nd else \
            rng.choice(["empty", "arbitrary"])
        if mode == "empty":
            used = []
        elif mode == "cyclic":
            if rng.random() < 0.2:
                # up to 100 rounds the answer is demanded; beyond, partitura raises IndexError (the model too:
                # dests_hundred_rounds) -- observed and counted, not compared: the limit is not part of the property
                k = 100 * nd + rng.choice([-2, -1, 0, -nd, -nd - 1, -2 * nd, 1, nd + 1])
                feats["used:at_the_100_round_limit" if k <= 100 * nd else "used:beyond_100_rounds_(not_compared)"] += 1
                beyond = k > 100 * nd
            else:
                k = rng.randint(1, 3 * nd + 1)
            used = [to[i % nd] for i in range(k)]
            feats["used:rounds>=1" if k > nd else "used:first_round"] += 1
        elif mode == "skipping":                    # as the all-variants policy consumes: any of the destinations offered
            used = []
            sk_segs = {"A": S.Segment("A", list(to), [], False, "default")}
            try:
                for _k in range(rng.randint(1, 2 * nd + 2)):
                    offered = S.Path(["A"], sk_segs, used_segment_jumps=defaultdict(list, {"A": list(used)}) if used else None
                                     ).list_of_destinations_from_last_segment
                    if not offered:
                        break
                    used.append(rng.choice(list(offered)))
            except Exception:
                pass
        else:
            cand = (to or ["B"]) + (["E", "END", "Z"] if rng.random() < 0.3 else [])
            used = [rng.choice(cand) for _k in range(rng.randint(1, 6))]
        nr, ar = rng.choice([(False, True), (False, True), (False, True), (False, False), (False, False), (False, False),
                             (True, False), (True, True)])
        segs = {x: S.Segment(x, ["A"], [], False, "default") for x in CYC_IDS}
        segs["A"] = S.Segment("A", list(to), [], False, "default")
        path = S.Path(["A"], segs, used_segment_jumps=defaultdict(list, {"A": list(used)}) if used else None,
                      no_repeats=nr, all_repeats=ar)
        try:
            seen = list(path.list_of_destinations_from_last_segment)
        except Exception:                            # IndexError upstream; the kind of error is not part of the property
            seen = None
        if "A" in segs and list(segs["A"].to) != list(to):
            seen = ["Z"]                             # the property must not edit the table
        # the run: the segment is left again and again from a fresh path, each time along the first destination offered
        steps, run = 0, []
        if to and "END" not in to:
            steps = rng.choice([0, 1, 2, 3, nd, nd + 1, 2 * nd + 1, 3 * nd + 2] +
                               ([100 * nd - 1, 100 * nd, 100 * nd + 1] if nd <= 2 and rng.random() < 0.5 else []))
            pth = S.Path(["A"], segs, no_repeats=nr, all_repeats=ar)
            try:
                for _k in range(steps):
                    ds = pth.list_of_destinations_from_last_segment
                    if not ds:
                        run = None
                        break
                    pth = pth.make_copy_with_jump_to(ds[0], ignore_leap_info=rng.random() < 0.5)
                    if ds[0] != "A":
                        pth = pth.make_copy_with_jump_to("A")
                if run is not None:
                    run = list(pth.used_segment_jumps["A"])
            except Exception:
                run = None
        if beyond:
            feats["beyond_100_rounds:" + ("IndexError" if seen is None else "continues")] += 1
            continue
        if mode == "arbitrary" or nd == 0:
            # used lists no path can have (ids that are no destinations, impossible orders) and segments without
            # destinations: run and counted, not compared -- what happens there is not part of the property
            feats["unreachable_state_(not_compared):" + ("raises" if seen is None else "answers")] += 1
            continue
        czs = lambda l: clist([cz(cyc_code(x)) for x in l])
        terms.append("(mkDC %s %s %s %s %s %d%%nat %s)" % (
            czs(to), czs(used), cbool(nr), cbool(ar), copt(seen, czs), steps,
            copt(run, czs)))
        descr.append({"to": to, "used": used[:12] + (["... %d" % len(used)] if len(used) > 12 else []), "no_repeats": nr,
                      "all_repeats": ar, "offered": seen, "steps": steps,
                      "run": None if run is None else run[:12]})
        feats["destinations:%d" % nd] += 1
        feats["list:" + ("duplicates" if len(set(to)) < len(to) else "distinct")] += 1
        feats["used:" + mode] += 1
        feats["policy:" + ("minimal" if nr else "maximal" if ar else "all_variants")] += 1
        feats["offered:" + ("IndexError" if seen is None else "%d" % min(len(seen), 3))] += 1
        feats["run:" + ("none" if steps == 0 else "IndexError" if run is None else "over_100_rounds" if steps >= 100 else
                        "wraps" if steps > nd else "within_first_round")] += 1
    return terms, descr, feats


def work(item):
    """One case in a worker process: implementation, direct oracle, Coq term.  Everything returned is plain data."""
    idx, origin, spec, seed = item
    sub = __import__("random").Random(seed)
    def dump_for_model(r, skip):     # before the unfolded parts are edited
        if skip is None and not (origin == "small" and len(r.segs) > 5):
            r.term = c_case(r, pick_variants(r, sub, small=(origin == "small")))
            if r.variants:
                r.heap_term = c_heap(r, sub.choice(r.variants))

    try:
        steps = examine_history(spec, rng=sub, after=dump_for_model)
    except Exception as e:  # building the part failed: harness problem, report loudly
        return {"idx": idx, "error": "%s: %s" % (type(e).__name__, e), "steps": []}
    out = {"idx": idx, "steps": []}
    if history_of(spec):
        out["hist_ops"] = [o["op"] + (":" + o["via"] if o.get("via") == "timepoint" else "") for o in history_of(spec)]
        out["hist_term"] = c_history(steps, history_of(spec))
    for r, bad, skip, spec_n, label in steps:
        st = {"label": label, "skip": skip, "bad": bad}
        if bad and label != "as built":
            st["spec_current"] = {k: v for k, v in spec_n.items() if k != "bb"}
        if r is not None:
            st.update(nsegs=len(r.segs), nvariants=len(r.variants),
                      branching=any(len(x[3]) + len(x[4]) >= 2 for x in r.segs),
                      raises=any(v is None for v in r.paths.values()),
                      key=json.dumps([r.marks, spec_n.get("notes")], sort_keys=True),
                      entries=sorted({v[0].split("(")[0].split("[")[0] for v in r.variants}),
                      nav_ref=nav_reference(spec_n, "max", True) is not None,
                      sample={"spec": spec_n, "step": label, "segments": r.segs, "paths_all": r.paths[POLICIES[0]]})
            st["cyc"] = getattr(r, "cyc", None) or []
            if getattr(r, "term", None) is not None:
                st["term"] = r.term
            if getattr(r, "heap_term", None) is not None:
                st["heap"] = r.heap_term
        out["steps"].append(st)
    return out


def run(ctx):
    warnings.filterwarnings("ignore")
    import multiprocessing
    import os
    from concurrent.futures import ThreadPoolExecutor
    ctx.rule = ("cases = HISTORIES on measure-aligned parts built through the public API from a structured generator "
                "(weights: no structure 5, independent simple repeats 27, repeats with 2-3 endings incl. comma numbers "
                "22, nested repeats 12, D.C./D.S. with nothing / Fine / To Coda+Coda (1:2:3; jump at the very end or "
                "earlier 1:1; arrangements of known finding C09-K2 at a quarter of their natural weight) plus repeats "
                "34; structures with more than 64 variants in one case of ten only; decorations: ties over bar "
                "lines, slurs over up to 5 notes, tuplets (some over a bar line), grace chains, restated/changed time "
                "and key signatures, clefs and division changes at block/ending boundaries and inside blocks, "
                "fermatas, pages/systems; first time point > 0 in 20 %; add_segments(part) called beforehand in "
                "25 %).  Step 1: every public entry point (get_paths x 6 policies, unfold_part_maximal x update_ids "
                "x ignore_leaps, unfold_part_minimal, iter_unfolded_parts, new_part_from_path, make_score_variants, "
                "unfold_part_alignment with generated alignments: subsets, notes of two variants, deletions, "
                "insertions, unknown ids); in 12 % also unfold_part_maximal/minimal on a Score holding the part and "
                "a second one.  Step 2 (25 %): the SAME Part object is edited (simple repeat added / removed, a note "
                "added) and everything is run again.  Cases with a da capo / dal segno / first ending from the "
                "beginning / first time > 0 (and a quarter of the others) are compared with their twin starting at "
                "another time.  thorough adds every structure over 5 measures with <= 2 repeats / one volta group x "
                "D.C./D.S./Fine/Coda arrangements having <= 5 segments, each at first time 0 and 3.  Every step ends "
                "with the independence stream: the returned parts share no list / dict / set / array with the original "
                "or with each other (identity), one or two of them are edited (Slur / Tuplet / tie between their notes, "
                "note attributes, a note removed, a mark in every reachable container) and the original, the other "
                "returned parts and the untouched objects of the edited part must be as before, the same call again "
                "gives an equal part; a third of the rich parts carry notes with symbolic_duration / articulations / "
                "ornaments / technical values as importers store them.  Unit stream (400 / 4000): real Path objects on a "
                "hand-made table, destination lists of 1-5 ids (duplicates, END), used lists empty / cyclic up to 100 rounds / "
                "as the all-variants policy can choose, three policies, and k departures through make_copy_with_jump_to; "
                "beyond 100 rounds and states no path can have: counted, not compared.  Distinct "
                "non-trivial = distinct (marks, notes) whose segment table has a segment with >= 2 destinations.")
    ctx.trusted = ["Coq 8.16.1 kernel incl. vm_compute",
                   "harness/props/c09.py: abstraction of a Part (marks in iter_all order, object dump in time-point/"
                   "starting_objects order, canonical dump of unfolded parts) and the Python oracle",
                   "determinism of partitura's unfolding for a given Part"]
    ctx.assumptions = ["fewer than 60 segments; ending numbers 1..9",
                       "paths of 60 or more segments / more than 5000 paths / the implementation using more than 20 s "
                       "of CPU time on a case are counted and not compared (model fuel 64); an expired guard is "
                       "never reported as a failure of the implementation",
                       "Clef copies are not compared with the model (the rule compares a clef with the previous clef "
                       "of any staff; the property does not name clefs)",
                       "original note ids are distinct",
                       "navigation: the reading of the notation (nav_reference) is defined for one jump, non-nested "
                       "repeats/endings and marks outside repeated sections; a repeated section ending at the jump "
                       "mark and a Coda directly at the jump mark followed by repeats are compared with the model only"]
    ctx.matchers["C09-K2"] = is_k2
    ctx.matchers["C09-K3"] = is_k3
    rng = ctx.rng
    quick = ctx.tier == "quick"
    n_random = 150 if quick else 2400
    specs = []
    cdir = os.path.join(core.VERIF, "corpus", "C09")
    if os.path.isdir(cdir):
        for fn in sorted(os.listdir(cdir)):
            if fn.endswith(".json"):
                with open(os.path.join(cdir, fn)) as f:
                    specs.append(("corpus", json.load(f)))
    for i in range(n_random):
        specs.append(("random", gen_spec(rng)))
    if not quick:
        for s in small_scope_specs():
            specs.append(("small", s))
    items = [(i, origin, spec, rng.getrandbits(32)) for i, (origin, spec) in enumerate(specs)]
    # the implementation runs in worker processes while Coq checks the theorems; the model is evaluated on the
    # cases of the first workers while the last ones are still running
    nproc = max(1, min(core.NJOBS, len(items)))
    pool = multiprocessing.get_context("fork").Pool(nproc)
    results = pool.imap(work, items, chunksize=2 if quick else 8)
    ok, why = ctx.coq_props(expect_min=58)
    cyc_terms, cyc_descr, cyc_feats = cycle_cases(__import__("random").Random(rng.getrandbits(32)), 500 if quick else 5000)
    for k in sorted(cyc_feats):
        ctx.count("cycle:" + k, cyc_feats[k])
    ctx.evaluations += len(cyc_terms)
    shard = 24 if quick else 60
    executor = ThreadPoolExecutor(max_workers=max(1, core.NJOBS))
    futures = []          # (first global index, future)
    terms, kept = [], []
    pending = [0]         # number of terms already handed to Coq

    def flush(force=False):
        while ok and (len(terms) - pending[0] >= shard or (force and len(terms) > pending[0])):
            lo, hi = pending[0], min(len(terms), pending[0] + shard)
            pending[0] = hi
            futures.append((lo, executor.submit(
                ctx.coq_failing, "corr%d" % len(futures), "From PV Require Import Model.C09 Model.C09_api.", "",
                terms[lo:hi], "fun c => Z.eqb (check_case_api c) 0", hi - lo, 1500)))

    nviol = 0
    hterms, hkept = [], []
    heapterms, heapkept = [], []
    for res in results:
        origin, spec = specs[res["idx"]]
        if "error" in res:
            ctx.violation("harness could not build/run spec: %s" % res["error"], {"spec": spec, "kind": "harness"}, no_input=True)
            continue
        for o in res.get("hist_ops", []):
            ctx.count("history:" + o)
        if res.get("hist_ops"):
            ctx.count("histories")
            ctx.count("histories_of_length_%d" % len(res["hist_ops"]))
        if res.get("hist_term"):
            hterms.append(res["hist_term"])
            hkept.append(spec)
        ctx.count("kind:" + spec.get("kind", "?"))
        for f in classify(spec):
            ctx.count("feature:" + f)
        for st in res["steps"]:
            label, skip, bad = st["label"], st["skip"], st["bad"]
            if skip == "timeout":
                ctx.count("skipped:timeout")
                continue
            if origin == "small" and st["nsegs"] > 5:
                ctx.count("small:more_than_5_segments")
                continue
            ctx.evaluations += 1
            ctx.count("step:" + ("as built" if label == "as built" else "after a change of the part"))
            ctx.count("variants", st["nvariants"])
            for e in st["entries"]:
                ctx.count("entry:" + e)
            if st["nav_ref"]:
                ctx.count("navigation:compared_with_the_reading_of_the_notation")
            if st["branching"]:
                ctx.nontrivial(st["key"])
            if st["raises"]:
                ctx.count("outcome:get_paths_raises")
            for f in st.get("cyc", []):
                ctx.count("cyclic_order:" + f)
            if bad and nviol < 6:
                seen_kinds = set()
                for kind, msg, extra in bad:
                    if kind in seen_kinds:
                        continue
                    seen_kinds.add(kind)
                    obj = {"spec": spec, "kind": kind, "message": msg, "step": label}
                    if "spec_current" in st:
                        obj["spec_current"] = st["spec_current"]
                    obj.update(extra)
                    if origin != "small" and not is_k2(obj) and not is_k3(obj):
                        obj["spec"] = shrink(spec, kind)      # shrink only what will be reported
                    res_v = ctx.violation("C09 %s: %s" % (kind, msg), obj)
                    if res_v != "known":
                        nviol += 1
            if skip == "too_long":
                ctx.count("skipped:too_long_for_model")
                continue
            ctx.sample(st["sample"], limit=3)
            if "heap" in st:
                heapterms.append(st["heap"])
                heapkept.append((spec, label))
            if "term" in st:
                terms.append(st["term"])
                kept.append((spec, label))
                flush()
    pool.close()
    pool.join()
    ctx.log("implementation + oracle done on %d steps; evaluating the model on %d" % (ctx.evaluations, len(terms)))
    if ok:
        flush(force=True)
        hfut = executor.submit(ctx.coq_failing, "hist", "From PV Require Import Model.C09 Model.C09_api Model.C09_hist.", "",
                               hterms, "fun h => Z.eqb (check_history h) 0", 40, 1500,
                               "(marks * list hitem)%type") if hterms else None
        heapfut = executor.submit(ctx.coq_failing, "heap", "From PV Require Import Model.C09_heap.", "", heapterms,
                                  "check_heap", 150, 1500, "heapcase") if heapterms else None
        cycfut = executor.submit(ctx.coq_failing, "cycle", "From PV Require Import Model.C09 Model.C09_cycle.", "", cyc_terms,
                                 "fun c => Z.eqb (check_dcase c) 0", 2000, 600, "(dcase * nat)%type")
        failing, err = [], None
        cycfailing = []
        try:
            cycfailing = sorted(cycfut.result())
        except RuntimeError as e:
            err = str(e)
        for lo, fut in futures:
            try:
                failing += [lo + k for k in fut.result()]
            except RuntimeError as e:
                err = str(e)
        hfailing = []
        if hfut is not None:
            try:
                hfailing = sorted(hfut.result())
            except RuntimeError as e:
                err = str(e)
        heapfailing = []
        if heapfut is not None:
            try:
                heapfailing = sorted(heapfut.result())
            except RuntimeError as e:
                err = str(e)
        executor.shutdown()
        if err is None:
            ctx.obligation("correspondence: Path.list_of_destinations_from_last_segment on real Path objects (destination "
                           "lists of 1-5 ids with duplicates and END, used lists: empty / cyclic up to 100 rounds / "
                           "as the all-variants policy can choose, the three policies) = dests_of, and "
                           "used_segment_jumps after k departures through make_copy_with_jump_to = depart k "
                           "(Model/C09_cycle.v; the definitions of dests_maximal_cyclic, depart_cyclic, maximal_walk_cyclic), "
                           "on %d cases" % len(cyc_terms), not cycfailing, cycfailing[:5])
            for i in cycfailing[:2]:
                which = ctx.coq_eval("From PV Require Import Model.C09 Model.C09_cycle.", "check_dcase %s" % cyc_terms[i])
                ctx.violation("the destinations a Path offers from its last segment (1), or the destinations used after leaving "
                              "a segment k times (2), are not those of the model (check_dcase): %s" % which[-60:],
                              {"kind": "cycle-correspondence", "cycle_case": cyc_descr[i]})
        if err is None:
            ctx.obligation("correspondence: the lists held by the copies in an unfolded part (slur_starts / slur_stops / "
                           "tuplet_starts / tuplet_stops of every copy of every visit) are, by object identity, the cells the "
                           "heap model Model/C09_heap.v allocates (visits false: one new list per copy and attribute, none "
                           "of the original's), on %d unfolded parts" % len(heapterms), not heapfailing, heapfailing[:5])
            for i in heapfailing[:2]:
                ctx.violation("an unfolded part holds a list object that the original part (or another copy in it) holds "
                              "too: the identities of the slur / tuplet lists of its notes are not those of the heap model "
                              "(check_heap)", {"spec": heapkept[i][0], "step": heapkept[i][1], "kind": "heap-correspondence"})
        if err is None:
            ctx.obligation("correspondence: the state machine of Model/C09_hist.v (marks of the part now + registered "
                           "segments; operations: marks changed through Part.add/remove, TimePoint methods or in place, "
                           "add_segments, registered segments removed) run on the %d generated histories gives, at every "
                           "step, the segment boundaries and the six path lists partitura returned at that step, and every "
                           "generated history is within the hypothesis `disciplined` of history_reads_current_marks"
                           % len(hterms), not hfailing, hfailing[:5])
            for i in hfailing[:3]:
                which = ctx.coq_eval("From PV Require Import Model.C09 Model.C09_api Model.C09_hist.", "check_history %s" % hterms[i])
                ctx.violation("the part does not follow its history as the state machine does (check_history: k = the k-th "
                              "step differs from the reading of the marks the part has then, -1 = history outside the "
                              "documented use): %s" % which[-120:],
                              {"spec": hkept[i], "kind": "history-correspondence"})
        if err is not None:
            ctx.obligation("correspondence: model evaluation", False, err[-1500:])
            ctx.violation("Coq could not evaluate the C09 model on the generated cases: " + err[-800:],
                          {"kind": "harness"}, no_input=True)
        else:
            failing.sort()
            ctx.obligation("correspondence: make_segments = segment boundaries of part.segments, get_paths = Path.path "
                           "lists as sets (3 policies x ignore_leaps), variant rows (notes, rests, slurs, tuplets, "
                           "measures ... row by row; time/key signatures by the signature in force; fermatas up to the "
                           "extra copy at a segment end), quarter durations in force, and per dumped part the path its "
                           "entry point takes in the model (unfold_part_maximal/minimal: paths[0] of the policy, "
                           "iter_unfolded_parts / make_score_variants / new_part_from_path: a path of the policy, "
                           "unfold_part_alignment: an unbeaten variant), on %d steps" % len(terms),
                           not failing, failing[:5])
            for i in failing[:4]:
                which = ctx.coq_eval("From PV Require Import Model.C09 Model.C09_api.", "check_case_api %s" % terms[i])
                ctx.violation("model and implementation disagree (check_case_api: 1 segment boundaries, 2 paths, 3 variant "
                              "rows, 4 quarter durations, 5 path taken by an entry point): %s" % which[-200:],
                              {"spec": kept[i][0], "step": kept[i][1], "kind": "correspondence"})
    else:
        executor.shutdown()
        ctx.violation("proof obligations of Props/C09.v no longer check: " + why, {"theorem_or_build": why}, no_input=True)
    ctx.extra["exhaustive"] = not quick
    ctx.extra["exhaustive_note"] = ("thorough: all structures over 5 measures with <= 2 repeats or one two-ending volta "
                                    "group x navigation arrangements, restricted to <= 5 segments" if not quick else "sampled")


def replay(obj):
    warnings.filterwarnings("ignore")
    core.setup_import_path()
    rp = obj.get("replay", obj)
    spec = rp.get("spec")
    print(json.dumps(obj, indent=1, default=str)[:3000])
    if rp.get("cycle_case"):
        import partitura.score as S
        from collections import defaultdict
        c = rp["cycle_case"]
        segs = {x: S.Segment(x, ["A"], [], False, "default") for x in CYC_IDS}
        segs["A"] = S.Segment("A", list(c["to"]), [], False, "default")
        used = [x for x in c["used"] if not str(x).startswith("...")]
        pth = S.Path(["A"], segs, used_segment_jumps=defaultdict(list, {"A": used}) if used else None,
                     no_repeats=c["no_repeats"], all_repeats=c["all_repeats"])
        try:
            print("offered now:", pth.list_of_destinations_from_last_segment, "(recorded: %r)" % (c["offered"],))
        except IndexError as e:
            print("offered now: IndexError", e)
        return 0
    if not spec:
        return 0
    for r, bad, skip, spec_n, label in examine_history(spec):
        print("---- step: %s" % label)
        if r is None:
            print("   (timeout)")
            continue
        print("segments (rank, start, end, to, await_to, type):")
        for s in r.segs:
            print("  ", s)
        for pol in POLICIES:
            print("paths no_repeats=%s all_repeats=%s ignore_leap_info=%s:" % pol,
                  None if r.paths[pol] is None else ["-".join(chr(65 + i) for i in p) for p in r.paths[pol]], r.errors.get(pol, ""))
        print("oracle findings on the implementation (%d):" % len(bad))
        for b in bad:
            print("  ", b[0], "|", b[1])
    return 0
