"""C09 -- unfolding repeats concatenates segments along a valid path and nothing else.

Tie to the source: correspondence of the hand-written Gallina model (coq/Model/C09.v:
segment construction from navigation marks, path search with jump consumption, variant
construction over abstract objects) with partitura.score on generated measure-aligned
parts built through the public API, plus a direct oracle (the property statement checked
on the implementation's output in Python, independent of the model).

A case is a JSON spec (see `build`); everything the model needs is read from the *built
Part* (marks in iter_all order, object dump in the time-point / starting_objects iteration
order), so the abstraction function is computed from the real data structure.
"""
import itertools
import json
import warnings
from collections import Counter

import core
from core import cz, clist, ctuple, copt, cbool

# class codes shared with Model/C09.v (cls_* definitions there)
CLS = {"Note": 0, "Rest": 1, "GraceNote": 2, "Measure": 3, "TimeSignature": 4, "KeySignature": 5,
       "Clef": 6, "Slur": 7, "Tuplet": 8, "Fermata": 9, "Repeat": 10, "Ending": 11, "ToCoda": 12,
       "DaCapo": 13, "DalSegno": 14, "Segment": 15, "System": 16, "Page": 17, "Fine": 18,
       "Segno": 19, "Coda": 20, "Words": 21, "Tempo": 22, "Barline": 23}
CLS_OTHER = 24
NAV_REMOVED = ("Repeat", "Ending", "ToCoda", "DaCapo", "DalSegno", "Segment")
REF_ATTRS = ["tie_prev", "tie_next", "slur_stops", "slur_starts", "tuplet_stops", "tuplet_starts",
             "grace_next", "grace_prev", "start_note", "end_note"]
STEPS = ["C", "D", "E", "F", "G", "A", "B"]
MAXPATH = 60          # paths longer than this are treated as "does not terminate" on both sides
MAXPATHS = 400        # more complete paths than this: case dropped (counted)


# ----------------------------------------------------------------------------
# spec -> Part (public API only)


def build(spec):
    """Build a fresh Part from a spec.  Boundary k = start of measure k; boundary n = end."""
    import partitura.score as S

    qd = spec.get("qd", 4)
    part = S.Part("P1", "C09", quarter_duration=qd)
    t0 = spec.get("t0", 0)
    bounds = [t0]
    for ln in spec["measures"]:
        bounds.append(bounds[-1] + ln)
    oid = [0]

    def tag(o):
        o._pv = oid[0]
        oid[0] += 1
        return o

    for k, q in spec.get("qdchanges", []):
        part.set_quarter_duration(bounds[k], q)
    for k, beats, bt in spec.get("ts", []):
        part.add(tag(S.TimeSignature(beats, bt)), bounds[k])
    for k, fifths, mode in spec.get("ks", []):
        part.add(tag(S.KeySignature(fifths, mode)), bounds[k])
    for k, staff, sign, line in spec.get("clefs", []):
        part.add(tag(S.Clef(staff, sign, line, 0)), bounds[k])
    for m in range(len(spec["measures"])):
        part.add(tag(S.Measure(number=m + 1, name=str(m + 1))), bounds[m], bounds[m + 1])
    byid = {}
    for nid, kind, m, on, dur, pitch, voice, staff in spec.get("notes", []):
        step, alter, octave = STEPS[pitch % 7], (pitch // 7) % 3 - 1, 2 + (pitch // 21) % 4
        if kind == "rest":
            o = S.Rest(id=nid, voice=voice, staff=staff)
        elif kind == "grace":
            o = S.GraceNote("acciaccatura", step, octave, alter or None, id=nid, voice=voice, staff=staff)
        else:
            o = S.Note(step, octave, alter or None, id=nid, voice=voice, staff=staff)
        part.add(tag(o), bounds[m] + on, bounds[m] + on + dur)
        byid[nid] = o
    for a, b in spec.get("ties", []):
        byid[a].tie_next = byid[b]
        byid[b].tie_prev = byid[a]
    for a, b in spec.get("graces", []):  # grace note a precedes b (grace or main)
        byid[a].grace_next = byid[b]
        if isinstance(byid[b], S.GraceNote):
            byid[b].grace_prev = byid[a]
    for a, b in spec.get("slurs", []):
        sl = tag(S.Slur(start_note=byid[a], end_note=byid[b]))
        part.add(sl, byid[a].start.t, byid[b].end.t)
    for a, b in spec.get("tuplets", []):
        tu = tag(S.Tuplet(start_note=byid[a], end_note=byid[b], actual_notes=3, normal_notes=2))
        part.add(tu, byid[a].start.t, byid[b].end.t)
    for a, b in spec.get("repeats", []):
        part.add(tag(S.Repeat()), bounds[a], bounds[b])
    for a, b, num in spec.get("endings", []):
        part.add(tag(S.Ending(num)), bounds[a], bounds[b])
    for key, cls in (("coda", S.Coda), ("tocoda", S.ToCoda), ("dacapo", S.DaCapo), ("fine", S.Fine),
                     ("segno", S.Segno), ("dalsegno", S.DalSegno)):
        for k in spec.get(key, []):
            part.add(tag(cls()), bounds[k])
    for k, ref in spec.get("fermatas", []):
        part.add(tag(S.Fermata(ref=ref)), bounds[k])
    for k, txt in spec.get("words", []):
        part.add(tag(S.Words(txt)), bounds[k])
    for k in spec.get("pages", []):
        part.add(tag(S.Page(k + 1)), bounds[k])
        part.add(tag(S.System(k + 1)), bounds[k])
    for k in spec.get("barlines", []):
        part.add(tag(S.Barline("light-heavy")), bounds[k])
    return part


# ----------------------------------------------------------------------------
# abstraction of a Part: marks (input of the segment model) and object dump (input of the
# variant model); canonical dump of an unfolded part


def marks_of(part):
    """The navigation marks of a part exactly as add_segments reads them (iter_all order)."""
    import partitura.score as S

    reps = [(r.start.t, r.end.t) for r in part.iter_all(S.Repeat) if r.start is not None and r.end is not None]
    ends = [(v.start.t, v.end.t, [int(n) for n in v.number.split(",")])
            for v in part.iter_all(S.Ending) if v.start is not None and v.end is not None]
    pts = lambda cls: [c.start.t for c in part.iter_all(cls)]
    return {"first": part.first_point.t, "last": part.last_point.t, "repeats": reps, "endings": ends,
            "coda": pts(S.Coda), "tocoda": pts(S.ToCoda), "dacapo": pts(S.DaCapo), "fine": pts(S.Fine),
            "segno": pts(S.Segno), "dalsegno": pts(S.DalSegno)}


def cls_code(o):
    return CLS.get(type(o).__name__, CLS_OTHER)


def sig_of(o, intern):
    """Integer key of the attributes the 'do not repeat an unchanged signature/clef' rule compares."""
    n = type(o).__name__
    if n == "TimeSignature":
        k = ("ts", o.beats, o.beat_type)
    elif n == "KeySignature":
        k = ("ks", o.fifths, o.mode)
    elif n == "Clef":
        k = ("clef", o.sign, o.line, o.staff)
    elif n == "Fermata":
        return 1 if o.ref in (None, "right") else 0
    else:
        return 0
    return intern.setdefault(k, len(intern) + 1)


def note_attrs(o):
    """(pitch, voice, staff) of a note-like object; pitch -1 for rests / others."""
    n = type(o).__name__
    if n in ("Note", "GraceNote"):
        return (int(o.midi_pitch) * 10 + STEPS.index(o.step), o.voice or 0, o.staff or 0)
    if n == "Rest":
        return (-1, o.voice or 0, o.staff or 0)
    return (-2, 0, 0)


def iter_points_objects(part):
    """(time point, object) in the order create_variant_part visits them."""
    for tp in part._points:
        for oo in tp.starting_objects.values():
            for o in oo:
                yield tp, o


def dump_original(part):
    """Object dump of the original: rows (oid, cls, start, end|None, sig, attrs, refs) with
    refs = [(attr index, [target oid ...])]; None-valued single references give []."""
    intern = {}
    rows = []
    for tp, o in iter_points_objects(part):
        if not hasattr(o, "_pv"):
            continue  # Segments registered by add_segments etc.: never generated by build
        refs = []
        for ai, attr in enumerate(REF_ATTRS):
            if attr in getattr(o, "_ref_attrs", []) or ("_" + attr) in getattr(o, "_ref_attrs", []):
                v = getattr(o, attr)
                tg = [] if v is None else (list(v) if isinstance(v, list) else [v])
                refs.append((ai, [t._pv for t in tg]))
        rows.append((o._pv, cls_code(o), tp.t, None if o.end is None else o.end.t, sig_of(o, intern),
                     note_attrs(o), refs))
    return rows


def fingerprint(part):
    """Everything observable of a part that unfolding must leave alone."""
    out = []
    for tp in part._points:
        row = [tp.t, tp.quarter, None if tp.prev is None else tp.prev.t, None if tp.next is None else tp.next.t]
        for kind, d in (("s", tp.starting_objects), ("e", tp.ending_objects)):
            for cls in d:
                for o in d[cls]:
                    item = [kind, type(o).__name__, id(o), None if o.start is None else o.start.t,
                            None if o.end is None else o.end.t, getattr(o, "id", None)]
                    for attr in REF_ATTRS:
                        if hasattr(o, attr):
                            v = getattr(o, attr)
                            item.append([id(x) for x in v] if isinstance(v, list) else (None if v is None else id(v)))
                    for attr in ("to", "await_to", "type", "number", "voice", "staff", "step", "alter", "octave",
                                 "beats", "beat_type", "fifths", "mode", "sign", "line"):
                        if hasattr(o, attr):
                            item.append(repr(getattr(o, attr)))
                    row.append(item)
        out.append(row)
    out.append([list(part._quarter_times), list(part._quarter_durations)])
    return json.dumps(out, default=str)
